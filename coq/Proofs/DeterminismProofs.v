From Coq Require Import String List Bool Arith Permutation Sorted.
From GP Require Import Model.Gv Model.Pipeline Model.Marshal Proofs.MarshalProofs Proofs.JcsProofs.
Import ListNotations.
Local Open Scope string_scope.
Local Open Scope list_scope.

(** two association lists with distinct keys and the same lookups are permutations of each other *)
Lemma lookup_ext_perm : forall T (l l' : list (string * T)),
  NoDup (map fst l) -> NoDup (map fst l') -> (forall k, aget k l = aget k l') -> Permutation l l'.
Proof.
  intros T l l' N N' H.
  assert (ND : forall (x : list (string * T)), NoDup (map fst x) -> NoDup x).
  { intros x. induction x as [|[k v] r IH]; intros Hn; [constructor|].
    cbn [map fst] in Hn. inversion Hn as [|? ? Hni Hnr]; subst. constructor; [|apply IH; exact Hnr].
    intros Hin. apply Hni. change k with (fst (k, v)). apply in_map. exact Hin. }
  apply NoDup_Permutation; [apply ND; exact N | apply ND; exact N' |].
  intros [k v]. split; intros Hin.
  - apply aget_some_in. rewrite <- H. apply in_aget; assumption.
  - apply aget_some_in. rewrite H. apply in_aget; assumption.
Qed.

(** marshalling does not depend on the order in which Go ranges over the struct's
    inline map or builds the outline map: same content, same bytes *)
Theorem inline_friendly_deterministic : forall outline outline' inline inline',
  NoDup (map fst outline) -> NoDup (map fst inline) ->
  Permutation outline outline' -> Permutation inline inline' ->
  inline_friendly outline inline = inline_friendly outline' inline'.
Proof.
  intros o o' i i' No Ni Po Pi.
  assert (No' : NoDup (map fst o')) by (eapply Permutation_NoDup; [apply Permutation_map; exact Po | exact No]).
  assert (Ni' : NoDup (map fst i')) by (eapply Permutation_NoDup; [apply Permutation_map; exact Pi | exact Ni]).
  assert (E : members (inline_friendly o i) = members (inline_friendly o' i')).
  { apply sorted_perm_unique.
    - apply inline_friendly_sorted.
    - apply inline_friendly_sorted.
    - apply inline_friendly_nodup.
    - apply lookup_ext_perm; [apply inline_friendly_nodup | apply inline_friendly_nodup |].
      intros k. rewrite !inline_friendly_lookup by assumption.
      rewrite (aget_perm k o o' Po No). rewrite (aget_perm k i i' Pi Ni). reflexivity. }
  unfold inline_friendly in *. cbn [members] in E. rewrite E. reflexivity.
Qed.
