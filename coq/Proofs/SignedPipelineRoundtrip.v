(** C02 at the level of the WHOLE pipeline: a parsed pipeline is signed (SignSteps), marshalled to
    JSON or to YAML, and the output is parsed again as a pipeline (Parse); every command step of
    the result, at every group depth, carries a signature that verifies with the public key, given
    a verification env that contains the signing env plus unrelated variables.

    Proofs/RoundtripLink.v and Proofs/YamlLegProofs.v prove this for ONE command step handed to
    CommandStep.UnmarshalOrdered.  Here:
      - [mj_command_sig]: the signature record is determined by the marshalled command step;
      - [step_roundtrip_corresponds] / [step_roundtrip_yaml_corresponds] (the bridge): the step
        that [step_roundtrip] / [step_roundtrip_yaml] yields has, position by position, command
        steps with the same JSON marshalling, hence the same signed content and the same
        signature; no command step is lost, demoted to an unknown step, or created;
      - [mj_step_eq_corresponds]: the inversion principle "equal [mj_step] => corresponding deep
        command steps" for steps satisfying [step_fix_ok], as a corollary;
      - [reparse_json_corresponds] / [reparse_yaml_corresponds]: the same for the whole pipeline;
      - [sign_steps_preserves_fix_ok] / [sign_steps_preserves_yaml_side_ok]: SignSteps keeps the
        side conditions of the two fixpoint theorems;
      - [signed_pipeline_survives_json] / [signed_pipeline_survives_yaml] (MAIN) and their
        [_of_parsed] corollaries, stated on the document;
      - a concrete scheme and document on which everything computes ([demo_*]). *)
From Coq Require Import String List Ascii Bool Arith Lia ZArith Permutation.
From GP Require Import Base.Sexp Model.Gv Model.Decode Model.Kinds Model.Plugin Model.Pipeline Model.Marshal Model.Reparse
     Model.MarshalYaml Model.Jcs Model.Sign Gen.Structs
     Proofs.DecodeProofs Proofs.MarshalProofs Proofs.PipelineProofs Proofs.JcsProofs Proofs.PluginProofs Proofs.SignProofs
     Proofs.RoundtripProofs Proofs.ReparseProofs Proofs.RoundtripLink Proofs.YamlLegProofs.
From GP Require Props.C01.
Import ListNotations.
Local Open Scope string_scope.
Local Open Scope list_scope.

(** ------------------------------------------------------------------ *)
(** * 1. The signature is part of the marshalled command step *)

Lemma map_JStr_inj : forall l l', map JStr l = map JStr l' -> l = l'.
Proof.
  induction l as [|x r IH]; intros [|y t] H; try discriminate H; [reflexivity|].
  cbn [map] in H. inversion H; subst. f_equal. apply IH. assumption.
Qed.

Lemma mj_sig_inj : forall s s', mj_sig s = mj_sig s' -> s = s'.
Proof.
  intros [a f v] [a' f' v'] H. unfold mj_sig in H. cbn [sg_alg sg_fields sg_value] in H.
  inversion H as [[Ha Hf Hv]]. subst. f_equal.
  destruct f as [l|], f' as [l'|]; try discriminate Hf; [|reflexivity].
  unfold jstrs in Hf. inversion Hf as [Hl]. apply map_JStr_inj in Hl. subst. reflexivity.
Qed.

(* equal marshalled command steps carry the same signature record *)
Lemma mj_command_sig_gen : forall c c',
  cmd_keys_ok c -> cmd_keys_ok c' -> mj_command c' = mj_command c -> cs_sig c' = cs_sig c.
Proof.
  intros c c' K K' H.
  assert (I : In "signature" cmd_primary) by (unfold cmd_primary; in_lit).
  pose proof (schema_entry c "signature" K I) as E.
  pose proof (schema_entry c' "signature" K' I) as E'.
  rewrite H, E in E'. unfold cmd_ol in E'. cbn [aget String.eqb Ascii.eqb Bool.eqb] in E'.
  destruct (cs_sig c') as [s'|], (cs_sig c) as [s|]; cbn [option_map] in E'; try discriminate E'; [|reflexivity].
  f_equal. apply mj_sig_inj. congruence.
Qed.

Lemma mj_command_sig : forall c c',
  cmd_ok c -> cmd_ok c' -> mj_command c' = mj_command c -> cs_sig c' = cs_sig c.
Proof. intros c c' H H' E. apply mj_command_sig_gen; try apply cmd_ok_keys_ok; assumption. Qed.

(** the correspondence between a command step and its re-read *)
Definition cmd_corr (c c' : command_step) : Prop :=
  mj_command c' = mj_command c /\ same_signed_content c c' /\ cs_sig c' = cs_sig c.

Lemma cmd_corr_intro : forall c c',
  cmd_keys_ok c -> cmd_keys_ok c' -> mj_command c' = mj_command c -> cmd_corr c c'.
Proof.
  intros c c' K K' E. split; [exact E|]. split.
  - apply mj_command_signed_content_gen; assumption.
  - apply mj_command_sig_gen; assumption.
Qed.

Lemma same_signed_content_refl : forall c, same_signed_content c c.
Proof. intros c. split; intros; reflexivity. Qed.
Lemma same_signed_content_sym : forall c c', same_signed_content c c' -> same_signed_content c' c.
Proof. intros c c' [A B]. split; intros; symmetry; [apply A|apply B]. Qed.
Lemma same_signed_content_trans : forall a b c,
  same_signed_content a b -> same_signed_content b c -> same_signed_content a c.
Proof. intros a b c [A1 B1] [A2 B2]. split; intros; [rewrite A2; apply A1|rewrite B2; apply B1]. Qed.

(** the command steps of a list of steps, at every group depth, in document order *)
Definition commands (ss : list step) : list command_step := concat (map commands_deep ss).

Lemma commands_cons : forall s ss, commands (s :: ss) = commands_deep s ++ commands ss.
Proof. reflexivity. Qed.

Lemma Forall2_in_r : forall {A B} (R : A -> B -> Prop) l l' y,
  Forall2 R l l' -> In y l' -> exists x, In x l /\ R x y.
Proof.
  intros A B R l l' y F. induction F as [|a b l l' Hab F IH]; intros I; [destruct I|].
  destruct I as [<-|I].
  - exists a. split; [left; reflexivity|exact Hab].
  - destruct (IH I) as (x & Ix & Rx). exists x. split; [right; exact Ix|exact Rx].
Qed.

Lemma Forall2_length' : forall {A B} (R : A -> B -> Prop) l l', Forall2 R l l' -> length l' = length l.
Proof. intros A B R l l' F. induction F; cbn [length]; congruence. Qed.

Lemma Forall2_impl : forall {A B} (R R' : A -> B -> Prop) l l',
  (forall x y, R x y -> R' x y) -> Forall2 R l l' -> Forall2 R' l l'.
Proof. intros A B R R' l l' H F. induction F; constructor; auto. Qed.

(** ------------------------------------------------------------------ *)
(** * 2. What the step decoder returns on a leaf *)

Lemma leaf_scalar : forall f s s' w, unm_step f (GStr s) = Ok s' w -> commands_deep s' = [].
Proof.
  intros [|f] s s' w H; [discriminate H|]. rewrite unm_step_S in H. cbn [step_body] in H.
  destruct (kind_of_scalar s); inversion H; reflexivity.
Qed.

Lemma leaf_mapping : forall f m K s' w,
  map_kind m = Some K -> K <> KCommand -> K <> KGroup ->
  unm_step f (GMap m) = Ok s' w -> commands_deep s' = [].
Proof.
  intros [|f] m K s' w MK NC NG H; [discriminate H|].
  rewrite unm_step_map_kind, MK in H.
  destruct K; try congruence; cbn [typed_body] in H; inversion H; reflexivity.
Qed.

(* the per-step correspondence lifts through the list decoder *)
Lemma steps_mapM_corr : forall (g : step -> gv) f ss,
  Forall (fun s => forall s' w, unm_step f (g s) = Ok s' w -> Forall2 cmd_corr (commands_deep s) (commands_deep s')) ss ->
  forall ss' w, mapM (unm_step f) (map g ss) = Ok ss' w -> Forall2 cmd_corr (commands ss) (commands ss').
Proof.
  intros g f ss F. induction F as [|x r Hx Fr IH]; intros ss' w H.
  - cbn in H. inversion H; subst. constructor.
  - cbn [map] in H. apply mapM_cons_ok in H. destruct H as (y & w1 & ys & w2 & H1 & H2 & -> & _).
    rewrite !commands_cons. apply Forall2_app; [eapply Hx; exact H1|eapply IH; exact H2].
Qed.

(** ------------------------------------------------------------------ *)
(** * 3. The bridge, JSON leg *)

(* whatever the step decoder returns on the marshalled step has corresponding command steps *)
Theorem step_reparse_corr : forall s, step_fix_ok s ->
  forall f, gv_depth (gv_of_json (mj_step s)) <= f ->
  forall s' w, unm_step f (gv_of_json (mj_step s)) = Ok s' w ->
  Forall2 cmd_corr (commands_deep s) (commands_deep s').
Proof.
  induction s as [c|sc ct|sc ct|ct|k g ss rem IHss|c] using step_ind'; intros OK f Hf s' w H.
  - (* command *)
    destruct f as [|f]; [discriminate H|].
    destruct OK as [CO T]. cbn [mj_step] in H.
    assert (EQ : gv_of_json (mj_command c) = GMap (gmap (members (mj_command c)))) by reflexivity.
    rewrite EQ, unm_step_map_kind, (cmd_map_kind c (proj1 CO) T) in H. cbn [typed_body] in H.
    destruct (command_roundtrip c CO) as (c' & E1 & E2). rewrite E1 in H. inversion H; subst s' w.
    cbn [commands_deep]. constructor; [|constructor].
    apply cmd_corr_intro; [apply cmd_ok_keys_ok; exact CO| |exact E2].
    eapply unm_command_keys_ok; [|exact E1]. rewrite keys_gmap, mj_command_ol. apply inline_friendly_nodup.
  - (* wait *)
    cbn [commands_deep]. cbn [mj_step] in H.
    assert (L : commands_deep s' = []); [|rewrite L; constructor].
    destruct (String.eqb_spec sc "") as [E|N]; cbn [negb] in H.
    + subst sc. destruct OK as [OK|[OK|OK]]; [congruence| |].
      * subst ct. eapply leaf_scalar. exact H.
      * pose proof (contents_nonempty _ _ OK) as NE.
        destruct ct as [|x r] eqn:ECt; [exfalso; apply NE; [intros e; discriminate|reflexivity]|]. rewrite <- ECt in *.
        rewrite mj_contents_eq, gv_of_json_obj in H.
        eapply leaf_mapping; [exact (contents_map_kind _ _ OK)| | |exact H]; discriminate.
    + eapply leaf_scalar. exact H.
  - (* input *)
    cbn [commands_deep]. cbn [mj_step] in H.
    assert (L : commands_deep s' = []); [|rewrite L; constructor].
    destruct (String.eqb_spec sc "") as [E|N]; cbn [negb] in H.
    + subst sc. destruct OK as [OK|OK]; [congruence|].
      rewrite mj_contents_eq, gv_of_json_obj in H.
      eapply leaf_mapping; [exact (contents_map_kind _ _ OK)| | |exact H]; discriminate.
    + eapply leaf_scalar. exact H.
  - (* trigger *)
    cbn [commands_deep]. cbn [step_fix_ok] in OK.
    assert (L : commands_deep s' = []); [|rewrite L; constructor].
    pose proof (contents_nonempty _ _ OK) as NE.
    destruct ct as [|x r] eqn:ECt; [exfalso; apply NE; [intros e; discriminate|reflexivity]|]. rewrite <- ECt in *.
    assert (EM : mj_step (STrigger ct) = mj_contents ct) by (rewrite ECt; reflexivity).
    rewrite EM, mj_contents_eq, gv_of_json_obj in H.
    eapply leaf_mapping; [exact (contents_map_kind _ _ OK)| | |exact H]; discriminate.
  - (* group *)
    apply step_fix_ok_group in OK. destruct OK as (R & AF & GS & FS).
    rewrite mj_group_ol in *. rewrite inline_friendly_members, gv_of_json_obj in Hf, H.
    destruct f as [|f]; [cbn [gv_depth] in Hf; lia|].
    rewrite unm_step_map_kind, (group_map_kind k g ss rem R GS) in H. cbn [typed_body] in H.
    unfold group_body in H. cbv zeta in H.
    assert (A1 : str_opt k = None -> ~ In "id" (map fst rem) /\ ~ In "identifier" (map fst rem)).
    { unfold str_opt. destruct (String.eqb_spec k ""); [intros _; apply AF; assumption|discriminate]. }
    pose proof (grp_reobj (str_opt k) (match g with Some x => JStr x | None => JNull end)
                  (JArr (map mj_step ss)) rem R A1) as X.
    cbv zeta in X. fold (group_ol k g ss) in X. destruct X as (F1 & F2 & F3 & GSt & FL).
    set (m := gmap (members (inline_friendly (compact (group_ol k g ss)) rem))) in *.
    set (p := partition_keys struct_GroupStep m) in *.
    rewrite (opt_str_field _ _ _ F1), bind_ret_l in H.
    rewrite (group_field_dec p g F2), bind_ret_l in H.
    rewrite (opt_field_some _ _ _ _ _ F3) in H. rewrite gv_of_json_arr in H.
    assert (D1 : gv_depth (GSeq (map gv_of_json (map mj_step ss))) < gv_depth (GMap m)).
    { apply (depth_in_map m "steps"). apply aget_some_in. rewrite GSt. reflexivity. }
    destruct f as [|f]; [pose proof (depth_pos (GSeq (map gv_of_json (map mj_step ss)))); lia|].
    rewrite unm_steps_S in H.
    assert (DS : forall s, In s ss -> gv_depth (gv_of_json (mj_step s)) <= f).
    { intros s Hs.
      assert (D2 : gv_depth (gv_of_json (mj_step s)) < gv_depth (GSeq (map gv_of_json (map mj_step ss)))).
      { apply depth_in_seq. apply in_map. apply in_map. exact Hs. }
      lia. }
    assert (FR : Forall (fun s => exists s' w, unm_step f (gv_of_json (mj_step s)) = Ok s' w /\ mj_step s' = mj_step s) ss).
    { rewrite Forall_forall in FS |- *. intros s Hs. apply (step_roundtrip s (FS s Hs)). apply DS. exact Hs. }
    assert (FC : Forall (fun s => forall s' w, unm_step f (gv_of_json (mj_step s)) = Ok s' w ->
                                   Forall2 cmd_corr (commands_deep s) (commands_deep s')) ss).
    { rewrite Forall_forall in IHss, FS |- *. intros s Hs. apply (IHss s Hs (FS s Hs)). apply DS. exact Hs. }
    destruct (steps_mapM_roundtrip f ss FR) as (ss' & w' & E1 & E2). rewrite E1 in H.
    unfold bind, ret in H. inversion H; subst s' w. cbn [commands_deep].
    rewrite map_map in E1.
    exact (steps_mapM_corr (fun s => gv_of_json (mj_step s)) f ss FC ss' w' E1).
  - (* unknown *)
    cbn [commands_deep]. destruct OK as [VS UA]. cbn [mj_step] in H.
    assert (L : commands_deep s' = []); [|rewrite L; constructor].
    destruct (gv_of_json (gv_json c)) as [| | | |s0| | |m|] eqn:EG; try (exfalso; exact UA).
    + eapply leaf_scalar. exact H.
    + destruct UA as [e MK]. eapply leaf_mapping; [exact MK| | |exact H]; discriminate.
Qed.

(* THE BRIDGE (JSON leg): the step that [step_roundtrip] yields marshals to the same JSON and its
   command steps, at every group depth, correspond one to one to those of the original, with equal
   JSON marshalling, hence the same signed content and the same signature *)
Theorem step_roundtrip_corresponds : forall s, step_fix_ok s ->
  forall f, gv_depth (gv_of_json (mj_step s)) <= f ->
  exists s' w, unm_step f (gv_of_json (mj_step s)) = Ok s' w /\ mj_step s' = mj_step s /\
               Forall2 cmd_corr (commands_deep s) (commands_deep s').
Proof.
  intros s OK f Hf. destruct (step_roundtrip s OK f Hf) as (s' & w & E1 & E2).
  exists s', w. split; [exact E1|]. split; [exact E2|]. eapply step_reparse_corr; eassumption.
Qed.

(** ------------------------------------------------------------------ *)
(** * 4. The bridge, YAML leg *)

Theorem step_reparse_yaml_corr : forall s, step_fix_ok s -> step_y_ok s ->
  forall f, gv_depth (my_step s) <= f ->
  forall s' w, unm_step f (my_step s) = Ok s' w ->
  Forall2 cmd_corr (commands_deep s) (commands_deep s').
Proof.
  induction s as [c|sc ct|sc ct|ct|k g ss rem IHss|c] using step_ind'; intros OK Y f Hf s' w H.
  - (* command *)
    destruct f as [|f]; [discriminate H|].
    destruct OK as [CO T]. cbn [my_step step_y_ok] in *.
    rewrite my_command_eq, unm_step_map_kind, (cmd_map_kind_y c (proj1 CO) T) in H. cbn [typed_body] in H.
    destruct (command_roundtrip_yaml c CO Y) as (c' & E1 & E2). rewrite my_command_eq in E1.
    cbv beta iota in E1. rewrite E1 in H. inversion H; subst s' w.
    cbn [commands_deep]. constructor; [|constructor].
    apply cmd_corr_intro; [apply cmd_ok_keys_ok; exact CO| |exact E2].
    eapply unm_command_keys_ok; [|exact E1]. apply (my_command_nodup c). apply CO.
  - (* wait *)
    cbn [commands_deep].
    assert (L : commands_deep s' = []); [|rewrite L; constructor].
    destruct (String.eqb_spec sc "") as [E|N].
    + subst sc. destruct OK as [OK|[OK|OK]]; [congruence| |].
      * subst ct. eapply leaf_scalar. exact H.
      * pose proof (contents_nonempty _ _ OK) as NE.
        assert (NE' : ct <> []) by (apply NE; intros e; discriminate).
        rewrite (my_wait_ne ct NE'), my_contents_eq in H.
        eapply leaf_mapping; [exact (contents_map_kind_y _ _ OK)| | |exact H]; discriminate.
    + assert (EY : my_step (SWait sc ct) = GStr sc).
      { cbn [my_step]. destruct (String.eqb_spec sc ""); [contradiction|reflexivity]. }
      rewrite EY in H. eapply leaf_scalar. exact H.
  - (* input *)
    cbn [commands_deep].
    assert (L : commands_deep s' = []); [|rewrite L; constructor].
    destruct (String.eqb_spec sc "") as [E|N].
    + subst sc. destruct OK as [OK|OK]; [congruence|].
      change (my_step (SInput "" ct)) with (my_contents ct) in H. rewrite my_contents_eq in H.
      eapply leaf_mapping; [exact (contents_map_kind_y _ _ OK)| | |exact H]; discriminate.
    + assert (EY : my_step (SInput sc ct) = GStr sc).
      { cbn [my_step]. destruct (String.eqb_spec sc ""); [contradiction|reflexivity]. }
      rewrite EY in H. eapply leaf_scalar. exact H.
  - (* trigger *)
    cbn [commands_deep]. cbn [step_fix_ok] in OK.
    assert (L : commands_deep s' = []); [|rewrite L; constructor].
    change (my_step (STrigger ct)) with (my_contents ct) in H. rewrite my_contents_eq in H.
    eapply leaf_mapping; [exact (contents_map_kind_y _ _ OK)| | |exact H]; discriminate.
  - (* group *)
    apply step_fix_ok_group in OK. destruct OK as (R & AF & GS & FS).
    apply step_y_ok_group in Y. destruct Y as (YR & YS).
    rewrite my_group_eq in Hf, H.
    destruct f as [|f]; [cbn [gv_depth] in Hf; lia|].
    rewrite unm_step_map_kind, (group_map_kind_y k g ss rem R GS) in H. cbn [typed_body] in H.
    unfold group_body in H. cbv zeta in H.
    assert (A1 : ystr_opt k = None -> ~ In "id" (map fst rem) /\ ~ In "identifier" (map fst rem)).
    { intros E. apply AF. apply ystr_opt_none. exact E. }
    pose proof (grp_reobj_y (ystr_opt k) (match g with Some x => GStr x | None => GNull end)
                  (GSeq (map my_step ss)) rem R YR A1) as X.
    cbv zeta in X. fold (group_yol k g ss) in X. destruct X as (F1 & F2 & F3 & GSt & FL).
    set (m := ycompact (group_yol k g ss) ++ sort_keys (ymap rem)) in *.
    set (p := partition_keys struct_GroupStep m) in *.
    rewrite (opt_str_field_y _ _ _ F1), bind_ret_l in H.
    rewrite (group_field_dec_y p g F2), bind_ret_l in H.
    rewrite (opt_field_some _ _ _ _ _ F3) in H.
    assert (D1 : gv_depth (GSeq (map my_step ss)) < gv_depth (GMap m)).
    { apply (depth_in_map m "steps"). apply aget_some_in. exact GSt. }
    destruct f as [|f]; [pose proof (depth_pos (GSeq (map my_step ss))); lia|].
    rewrite unm_steps_S in H.
    assert (DS : forall s, In s ss -> gv_depth (my_step s) <= f).
    { intros s Hs.
      assert (D2 : gv_depth (my_step s) < gv_depth (GSeq (map my_step ss))).
      { apply depth_in_seq. apply in_map. exact Hs. }
      lia. }
    assert (FR : Forall (fun s => exists s' w, unm_step f (my_step s) = Ok s' w /\ mj_step s' = mj_step s) ss).
    { rewrite Forall_forall in FS, YS |- *. intros s Hs. apply (step_roundtrip_yaml s (FS s Hs) (YS s Hs)). apply DS. exact Hs. }
    assert (FC : Forall (fun s => forall s' w, unm_step f (my_step s) = Ok s' w ->
                                   Forall2 cmd_corr (commands_deep s) (commands_deep s')) ss).
    { rewrite Forall_forall in IHss, FS, YS |- *. intros s Hs. apply (IHss s Hs (FS s Hs) (YS s Hs)). apply DS. exact Hs. }
    destruct (steps_mapM_roundtrip_y f ss FR) as (ss' & w' & E1 & E2). rewrite E1 in H.
    unfold bind, ret in H. inversion H; subst s' w. cbn [commands_deep].
    exact (steps_mapM_corr my_step f ss FC ss' w' E1).
  - (* unknown *)
    cbn [commands_deep]. destruct Y as [YF UA]. cbn [my_step] in H.
    assert (L : commands_deep s' = []); [|rewrite L; constructor].
    destruct (my_any c) as [| | | |s0| | |m|] eqn:EG; try (exfalso; exact UA).
    + eapply leaf_scalar. exact H.
    + destruct UA as [e MK]. eapply leaf_mapping; [exact MK| | |exact H]; discriminate.
Qed.

(* THE BRIDGE (YAML leg) *)
Theorem step_roundtrip_yaml_corresponds : forall s, step_fix_ok s -> step_y_ok s ->
  forall f, gv_depth (my_step s) <= f ->
  exists s' w, unm_step f (my_step s) = Ok s' w /\ mj_step s' = mj_step s /\
               Forall2 cmd_corr (commands_deep s) (commands_deep s').
Proof.
  intros s OK Y f Hf. destruct (step_roundtrip_yaml s OK Y f Hf) as (s' & w & E1 & E2).
  exists s', w. split; [exact E1|]. split; [exact E2|]. eapply step_reparse_yaml_corr; eassumption.
Qed.

(** the inversion principle: two steps satisfying [step_fix_ok] with the same JSON marshalling have
    corresponding command steps (both re-read to the same step; a command step and an unknown step
    cannot marshal alike because [type_selects] / [unknown_again] fix what the text re-reads to) *)
Lemma cmd_corr_join : forall a b r, cmd_corr a r -> cmd_corr b r -> cmd_corr a b.
Proof.
  intros a b r (E1 & S1 & G1) (E2 & S2 & G2). split; [congruence|]. split; [|congruence].
  eapply same_signed_content_trans; [exact S1|apply same_signed_content_sym; exact S2].
Qed.

Lemma Forall2_join : forall (l1 l2 lr : list command_step),
  Forall2 cmd_corr l1 lr -> Forall2 cmd_corr l2 lr -> Forall2 cmd_corr l1 l2.
Proof.
  intros l1 l2 lr F1. revert l2. induction F1 as [|a r l1 lr Har F1 IH]; intros l2 F2.
  - inversion F2; subst. constructor.
  - inversion F2 as [|b r' l2' lr' Hbr F2']; subst. constructor; [eapply cmd_corr_join; eassumption|apply IH; assumption].
Qed.

Corollary mj_step_eq_corresponds : forall s s', step_fix_ok s -> step_fix_ok s' ->
  mj_step s' = mj_step s -> Forall2 cmd_corr (commands_deep s) (commands_deep s').
Proof.
  intros s s' OK OK' E.
  destruct (step_roundtrip_corresponds s OK _ (le_n _)) as (r & w & E1 & _ & C1).
  pose proof (step_reparse_corr s' OK' (gv_depth (gv_of_json (mj_step s)))) as C2.
  rewrite E in C2. specialize (C2 (le_n _) r w E1).
  eapply Forall2_join; eassumption.
Qed.

(** ------------------------------------------------------------------ *)
(** * 5. The whole pipeline *)

Theorem reparse_json_corr : forall p, pipeline_fix_ok p ->
  forall p2 w2, reparse_json p = Ok p2 w2 -> Forall2 cmd_corr (commands (pp_steps p)) (commands (pp_steps p2)).
Proof.
  intros p (FS & R) p2 w2 H. unfold reparse_json in H. rewrite (mj_pipeline_ol p) in H.
  rewrite inline_friendly_members, gv_of_json_obj in H.
  pose proof (pp_reobj (JArr (map mj_step (pp_steps p))) (option_map mj_env_block (pp_env p)) _ R) as X.
  cbv zeta in X. fold (pp_ol p) in X. destruct X as (F1 & F2 & GSt & FL).
  set (m := gmap (members (inline_friendly (compact (pp_ol p)) (pp_rem p)))) in *.
  unfold parse_doc, parse in H. cbv zeta in H.
  set (P := partition_keys struct_Pipeline m) in *.
  set (d := gv_depth (GMap m)) in *.
  assert (D1 : gv_depth (GSeq (map gv_of_json (map mj_step (pp_steps p)))) < d).
  { apply (depth_in_map m "steps"). apply aget_some_in. rewrite GSt. reflexivity. }
  assert (DS : forall s, In s (pp_steps p) -> gv_depth (gv_of_json (mj_step s)) <= d).
  { intros s Hs.
    assert (D2 : gv_depth (gv_of_json (mj_step s)) < gv_depth (GSeq (map gv_of_json (map mj_step (pp_steps p))))).
    { apply depth_in_seq. apply in_map. apply in_map. exact Hs. }
    lia. }
  assert (FR : Forall (fun s => exists s' w, unm_step d (gv_of_json (mj_step s)) = Ok s' w /\ mj_step s' = mj_step s)
                      (pp_steps p)).
  { rewrite Forall_forall in FS |- *. intros s Hs. apply (step_roundtrip s (FS s Hs)). apply DS. exact Hs. }
  assert (FC : Forall (fun s => forall s' w, unm_step d (gv_of_json (mj_step s)) = Ok s' w ->
                                 Forall2 cmd_corr (commands_deep s) (commands_deep s')) (pp_steps p)).
  { rewrite Forall_forall in FS |- *. intros s Hs. apply (step_reparse_corr s (FS s Hs)). apply DS. exact Hs. }
  destruct (steps_mapM_roundtrip d _ FR) as (ss' & w & E1 & E2).
  assert (ES : unm_steps (S d) (gv_of_json (JArr (map mj_step (pp_steps p)))) = Ok ss' w).
  { rewrite gv_of_json_arr, unm_steps_S. exact E1. }
  rewrite (pp_steps_dec P (S d) _ ss' w F1 ES) in H.
  assert (EE : opt_field "Env" P None unm_env_block = Ok (pp_env p) 0).
  { destruct (pp_env p) as [e|]; cbn [option_map] in F2.
    - rewrite (opt_field_some _ _ _ _ _ F2). apply env_block_roundtrip.
    - rewrite (opt_field_none _ _ _ _ F2). reflexivity. }
  unfold bind at 1 in H. rewrite EE, bind_ret_l in H. unfold ret in H. inversion H; subst p2 w2.
  cbn [pp_steps]. rewrite map_map in E1.
  exact (steps_mapM_corr (fun s => gv_of_json (mj_step s)) d (pp_steps p) FC ss' w E1).
Qed.

(* re-parsing the JSON marshalling: same JSON again, and command steps in one-to-one correspondence *)
Theorem reparse_json_corresponds : forall p, pipeline_fix_ok p ->
  exists p2 w2, reparse_json p = Ok p2 w2 /\ mj_pipeline p2 = mj_pipeline p /\
                Forall2 cmd_corr (commands (pp_steps p)) (commands (pp_steps p2)).
Proof.
  intros p OK. destruct (reparse_fixpoint p OK) as (p2 & w2 & E1 & E2).
  exists p2, w2. split; [exact E1|]. split; [exact E2|]. eapply reparse_json_corr; eassumption.
Qed.

Theorem reparse_yaml_corr : forall p, pipeline_fix_ok p -> yaml_side_ok p ->
  forall p2 w2, reparse_yaml p = Ok p2 w2 -> Forall2 cmd_corr (commands (pp_steps p)) (commands (pp_steps p2)).
Proof.
  intros p (FS & R) (NE & YS & YR) p2 w2 H. unfold reparse_yaml in H. rewrite my_pipeline_eq in H.
  set (m := ycompact (pp_yol p) ++ sort_keys (ymap (pp_rem p))) in *.
  assert (Nol : NoDup (map fst (pp_yol p))) by (apply nodupb_sound; reflexivity).
  unfold parse_doc, parse in H. cbv zeta in H.
  set (P := partition_keys struct_Pipeline m) in *.
  set (d := gv_depth (GMap m)) in *.
  assert (GSt : aget "steps" m = Some (GSeq (map my_step (pp_steps p)))).
  { unfold m. rewrite (ystruct_schema_get _ _ pipeline_primary) by (first [assumption|unfold pipeline_primary; in_lit]).
    reflexivity. }
  assert (F1 : field "Steps" P = Some (GSeq (map my_step (pp_steps p)))).
  { unfold P. rewrite f_pp_steps. cbn [first_key]. rewrite GSt. reflexivity. }
  assert (F2 : field "Env" P = option_map my_env_block (pp_env p)).
  { unfold P. rewrite f_pp_env. cbn [first_key]. unfold m.
    rewrite (ystruct_schema_get _ _ pipeline_primary) by (first [assumption|unfold pipeline_primary; in_lit]).
    cbn [aget pp_yol String.eqb Ascii.eqb Bool.eqb].
    destruct (pp_env p) as [[|e0 r0]|]; [congruence|reflexivity|reflexivity]. }
  assert (D1 : gv_depth (GSeq (map my_step (pp_steps p))) < d).
  { apply (depth_in_map m "steps"). apply aget_some_in. exact GSt. }
  assert (DS : forall s, In s (pp_steps p) -> gv_depth (my_step s) <= d).
  { intros s Hs.
    assert (D2 : gv_depth (my_step s) < gv_depth (GSeq (map my_step (pp_steps p)))).
    { apply depth_in_seq. apply in_map. exact Hs. }
    lia. }
  assert (FR : Forall (fun s => exists s' w, unm_step d (my_step s) = Ok s' w /\ mj_step s' = mj_step s)
                      (pp_steps p)).
  { rewrite Forall_forall in FS, YS |- *. intros s Hs. apply (step_roundtrip_yaml s (FS s Hs) (YS s Hs)). apply DS. exact Hs. }
  assert (FC : Forall (fun s => forall s' w, unm_step d (my_step s) = Ok s' w ->
                                 Forall2 cmd_corr (commands_deep s) (commands_deep s')) (pp_steps p)).
  { rewrite Forall_forall in FS, YS |- *. intros s Hs. apply (step_reparse_yaml_corr s (FS s Hs) (YS s Hs)). apply DS. exact Hs. }
  destruct (steps_mapM_roundtrip_y d _ FR) as (ss' & w & E1 & E2).
  assert (ES : unm_steps (S d) (GSeq (map my_step (pp_steps p))) = Ok ss' w).
  { rewrite unm_steps_S. exact E1. }
  rewrite (pp_steps_dec P (S d) _ ss' w F1 ES) in H.
  assert (EE : opt_field "Env" P None unm_env_block = Ok (pp_env p) 0).
  { destruct (pp_env p) as [e|]; cbn [option_map] in F2.
    - rewrite (opt_field_some _ _ _ _ _ F2). apply env_block_roundtrip_y.
    - rewrite (opt_field_none _ _ _ _ F2). reflexivity. }
  unfold bind at 1 in H. rewrite EE, bind_ret_l in H. unfold ret in H. inversion H; subst p2 w2.
  cbn [pp_steps].
  exact (steps_mapM_corr my_step d (pp_steps p) FC ss' w E1).
Qed.

Theorem reparse_yaml_corresponds : forall p, pipeline_fix_ok p -> yaml_side_ok p ->
  exists p2 w2, reparse_yaml p = Ok p2 w2 /\ mj_pipeline p2 = mj_pipeline p /\
                Forall2 cmd_corr (commands (pp_steps p)) (commands (pp_steps p2)).
Proof.
  intros p OK Y. destruct (reparse_yaml_fixpoint p OK Y) as (p2 & w2 & E1 & E2).
  exists p2, w2. split; [exact E1|]. split; [exact E2|]. eapply reparse_yaml_corr; eassumption.
Qed.

(** ------------------------------------------------------------------ *)
(** * 6. SignSteps and the side conditions; the main theorems *)

(* the pipeline with its steps replaced (what SignSteps leaves behind) *)
Definition with_steps (p : pipeline) (ss : list step) : pipeline :=
  mkPipeline ss (pp_env p) (pp_rem p) (pp_nosteps p).

(* the pipeline-level env as SignSteps receives it *)
Definition pipeline_env (p : pipeline) : list (string * string) :=
  match pp_env p with Some e => e | None => [] end.

Lemma has_unknown_false_local : forall s, has_unknown s = false -> steps_all unknown_local s.
Proof.
  induction s as [c|sc ct|sc ct|ct|k g ss rem IHss|c] using step_ind'; intros H;
    try (split; exact I); [|discriminate H].
  apply steps_all_group. split; [exact I|]. cbn [has_unknown] in H.
  rewrite Forall_forall in IHss |- *. intros s Hs. apply (IHss s Hs).
  destruct (has_unknown s) eqn:E; [|reflexivity].
  rewrite <- H. symmetry. apply existsb_exists. exists s. split; assumption.
Qed.

Lemma mapM_env_keys : forall (l : list (string * gv)) e w,
  mapM (fun kv => do s <- unm_string (snd kv); ret (fst kv, s)) l = Ok e w -> map fst e = map fst l.
Proof.
  induction l as [|x r IH]; intros e w H.
  - cbn in H. inversion H; reflexivity.
  - apply mapM_cons_ok in H. destruct H as (y & w1 & ys & w2 & H1 & H2 & -> & _).
    apply bind_ok in H1. destruct H1 as (s & w3 & w4 & _ & H1 & _). unfold ret in H1. inversion H1; subst y.
    cbn [map fst]. f_equal. eapply IH. exact H2.
Qed.

(* the env block of a parsed well-formed document has distinct names *)
Lemma parsed_env_nodup : forall g p w, parse_doc g = Ok p w -> doc_ok g -> NoDup (map fst (pipeline_env p)).
Proof.
  intros g p w H W. unfold parse_doc, parse in H. unfold pipeline_env. destruct g; try discriminate H.
  - apply bind_ok in H. destruct H as (ss & w1 & w2 & _ & H & _). unfold ret in H. inversion H; subst p.
    cbn [pp_env]. constructor.
  - cbv zeta in H. apply bind_ok in H. destruct H as (oss & w1 & w2 & _ & H & _).
    apply bind_ok in H. destruct H as (e & w3 & w4 & HE & H & _). unfold ret in H. inversion H; subst p.
    cbn [pp_env]. unfold opt_field in HE.
    destruct (field "Env" (partition_keys struct_Pipeline l)) as [v|] eqn:F.
    + pose proof (gv_wf_field _ _ _ _ W F) as Wv. destruct v; try discriminate HE.
      * inversion HE; subst e. constructor.
      * cbn [unm_env_block] in HE. apply bind_ok in HE. destruct HE as (e0 & w5 & w6 & HM & HE & _).
        unfold ret in HE. inversion HE; subst e. rewrite (mapM_env_keys _ _ _ HM).
        apply gv_wf_map in Wv. apply Wv.
    + unfold ret in HE. inversion HE; subst e. constructor.
Qed.

Section Main.
  Variable K PK : Type.
  Variable pub : K -> PK.
  Variable alg_of : K -> string.
  Variable sgn : K -> string -> string.
  Variable vrf : PK -> string -> string -> bool.
  Hypothesis vrf_ideal : forall pk m s, vrf pk m s = true <-> exists k, pk = pub k /\ s = sgn k m.

  Lemma sign_steps_Forall_pres : forall (Q : step -> Prop) k repo penv ss,
    Forall (fun s => Q s -> forall s', sign_step K alg_of sgn k repo penv s = Some s' -> Q s') ss ->
    Forall Q ss -> forall ss', sign_steps K alg_of sgn k repo penv ss = Some ss' -> Forall Q ss'.
  Proof using.
    intros Q k repo penv ss F. induction F as [|x r Hx Fr IH]; intros FQ ss' H.
    - cbn in H. inversion H; subst. constructor.
    - apply sign_steps_cons_inv in H. destruct H as (x' & r' & -> & Sx & Sr).
      inversion FQ; subst. constructor; [eapply Hx; eassumption|apply IH; assumption].
  Qed.

  (** SignSteps only sets the `signature` member, which [step_fix_ok] does not constrain *)
  Lemma sign_step_preserves_fix_ok : forall k repo penv s s',
    step_fix_ok s -> sign_step K alg_of sgn k repo penv s = Some s' -> step_fix_ok s'.
  Proof using.
    intros k repo penv. induction s as [c|sc ct|sc ct|ct|key g ss rem IHss|c] using step_ind'; intros s' OK E;
      try (cbn in E; inversion E; subst; exact OK).
    - rewrite sign_step_group in E.
      destruct (sign_steps K alg_of sgn k repo penv ss) as [ss'|] eqn:S; [|discriminate E].
      inversion E; subst s'. apply step_fix_ok_group in OK. destruct OK as (R & AF & GS & FS).
      apply step_fix_ok_group. split; [exact R|]. split; [exact AF|]. split; [exact GS|].
      eapply (sign_steps_Forall_pres step_fix_ok); [|exact FS|exact S].
      eapply Forall_impl; [|exact IHss]. intros s IH OKs s2 Ss. eapply IH; eassumption.
  Qed.

  Theorem sign_steps_preserves_fix_ok : forall k repo penv p ss,
    sign_steps K alg_of sgn k repo penv (pp_steps p) = Some ss ->
    pipeline_fix_ok p -> pipeline_fix_ok (with_steps p ss).
  Proof using.
    intros k repo penv p ss S (FS & R). split; [|exact R]. cbn [with_steps pp_steps].
    eapply (sign_steps_Forall_pres step_fix_ok); [|exact FS|exact S].
    apply Forall_forall. intros s _ OK s' Ss. eapply sign_step_preserves_fix_ok; eassumption.
  Qed.

  (** and the signature it writes carries a signed_fields list, as the YAML leg needs *)
  Lemma sign_step_preserves_y_ok : forall k repo penv s s',
    step_y_ok s -> sign_step K alg_of sgn k repo penv s = Some s' -> step_y_ok s'.
  Proof using.
    intros k repo penv. induction s as [c|sc ct|sc ct|ct|key g ss rem IHss|c] using step_ind'; intros s' OK E;
      try (cbn in E; inversion E; subst; exact OK).
    - cbn [sign_step] in E. inversion E; subst s'. destruct OK as (YR & YP & _ & YM & YC).
      split; [exact YR|]. split; [exact YP|]. split; [|split; [exact YM|exact YC]].
      cbn [cs_sig sign sg_fields]. discriminate.
    - rewrite sign_step_group in E.
      destruct (sign_steps K alg_of sgn k repo penv ss) as [ss'|] eqn:S; [|discriminate E].
      inversion E; subst s'. apply step_y_ok_group in OK. destruct OK as (YR & YS).
      apply step_y_ok_group. split; [exact YR|].
      eapply (sign_steps_Forall_pres step_y_ok); [|exact YS|exact S].
      eapply Forall_impl; [|exact IHss]. intros s IH OKs s2 Ss. eapply IH; eassumption.
  Qed.

  Theorem sign_steps_preserves_yaml_side_ok : forall k repo penv p ss,
    sign_steps K alg_of sgn k repo penv (pp_steps p) = Some ss ->
    yaml_side_ok p -> yaml_side_ok (with_steps p ss).
  Proof using.
    intros k repo penv p ss S (NE & YS & YR). split; [exact NE|]. split; [|exact YR]. cbn [with_steps pp_steps].
    eapply (sign_steps_Forall_pres step_y_ok); [|exact YS|exact S].
    apply Forall_forall. intros s _ OK s' Ss. eapply sign_step_preserves_y_ok; eassumption.
  Qed.

  (** a pipeline that SignSteps accepts has no unknown step at all, in particular no fallback one *)
  Lemma signable_no_unknown : forall k repo penv p ss,
    sign_steps K alg_of sgn k repo penv (pp_steps p) = Some ss -> no_fallback_unknown p.
  Proof using.
    intros k repo penv p ss S. unfold no_fallback_unknown, pipeline_all.
    destruct (existsb has_unknown (pp_steps p)) eqn:E.
    - apply (sign_steps_refuses_iff K alg_of sgn k repo penv) in E. congruence.
    - apply Forall_forall. intros s Hs. apply has_unknown_false_local.
      destruct (has_unknown s) eqn:U; [|reflexivity].
      rewrite <- E. symmetry. apply existsb_exists. exists s. split; assumption.
  Qed.

  (** signed steps, re-read with corresponding command steps: every one verifies *)
  Lemma verify_of_corr : forall k repo penv penv' ss0 ss l2,
    sign_steps K alg_of sgn k repo penv ss0 = Some ss ->
    NoDup (map fst penv) -> NoDup (map fst penv') ->
    (forall n v, aget n penv = Some v -> aget n penv' = Some v) ->
    Forall2 cmd_corr (concat (map commands_deep ss)) l2 ->
    (forall c, In c l2 -> exists sg, cs_sig c = Some sg /\ verify PK vrf (pub k) sg c repo penv' = true) /\
    length l2 = length (concat (map commands_deep ss)) /\
    Forall2 (fun c c' => same_signed_content c c' /\ cs_sig c' = cs_sig c) (concat (map commands_deep ss)) l2.
  Proof using vrf_ideal.
    intros k repo penv penv' ss0 ss l2 S N N' Hs F. split; [|split].
    - intros c' I. destruct (Forall2_in_r _ _ _ _ F I) as (c & Ic & (_ & SC & SG)).
      pose proof (sign_steps_signs_all K alg_of sgn k repo penv ss0 ss S c Ic) as E.
      exists (sign K alg_of sgn k c repo penv). split; [congruence|].
      apply (signed_roundtrip K PK pub alg_of sgn vrf vrf_ideal); assumption.
    - eapply Forall2_length'. exact F.
    - eapply Forall2_impl; [|exact F]. intros x y (_ & A & B). split; assumption.
  Qed.

  (** MAIN, JSON leg.  [p] is any typed pipeline (parsed, or parsed and interpolated); the side
      condition is on the signed pipeline [p1], or equivalently on [p]
      ([signed_pipeline_survives_json_unsigned]); [penv] is the env handed to SignSteps. *)
  Theorem signed_pipeline_survives_json : forall k repo penv penv' p ss,
    sign_steps K alg_of sgn k repo penv (pp_steps p) = Some ss ->
    let p1 := with_steps p ss in
    pipeline_fix_ok p1 -> NoDup (map fst penv) -> NoDup (map fst penv') ->
    (forall n v, aget n penv = Some v -> aget n penv' = Some v) ->
    exists p2 w, reparse_json p1 = Ok p2 w /\
      (forall c, In c (concat (map commands_deep (pp_steps p2))) ->
         exists sg, cs_sig c = Some sg /\ verify PK vrf (pub k) sg c repo penv' = true) /\
      length (concat (map commands_deep (pp_steps p2))) = length (concat (map commands_deep ss)) /\
      Forall2 (fun c c' => same_signed_content c c' /\ cs_sig c' = cs_sig c)
              (concat (map commands_deep ss)) (concat (map commands_deep (pp_steps p2))).
  Proof using vrf_ideal.
    intros k repo penv penv' p ss S p1 OK N N' Hs.
    destruct (reparse_json_corresponds p1 OK) as (p2 & w & E & _ & F).
    exists p2, w. split; [exact E|].
    eapply verify_of_corr; eassumption.
  Qed.

  (** MAIN, YAML leg *)
  Theorem signed_pipeline_survives_yaml : forall k repo penv penv' p ss,
    sign_steps K alg_of sgn k repo penv (pp_steps p) = Some ss ->
    let p1 := with_steps p ss in
    pipeline_fix_ok p1 -> yaml_side_ok p1 -> NoDup (map fst penv) -> NoDup (map fst penv') ->
    (forall n v, aget n penv = Some v -> aget n penv' = Some v) ->
    exists p2 w, reparse_yaml p1 = Ok p2 w /\
      (forall c, In c (concat (map commands_deep (pp_steps p2))) ->
         exists sg, cs_sig c = Some sg /\ verify PK vrf (pub k) sg c repo penv' = true) /\
      length (concat (map commands_deep (pp_steps p2))) = length (concat (map commands_deep ss)) /\
      Forall2 (fun c c' => same_signed_content c c' /\ cs_sig c' = cs_sig c)
              (concat (map commands_deep ss)) (concat (map commands_deep (pp_steps p2))).
  Proof using vrf_ideal.
    intros k repo penv penv' p ss S p1 OK Y N N' Hs.
    destruct (reparse_yaml_corresponds p1 OK Y) as (p2 & w & E & _ & F).
    exists p2, w. split; [exact E|].
    eapply verify_of_corr; eassumption.
  Qed.

  (** the same with the hypotheses on the unsigned pipeline *)
  Corollary signed_pipeline_survives_json_unsigned : forall k repo penv penv' p ss,
    sign_steps K alg_of sgn k repo penv (pp_steps p) = Some ss ->
    pipeline_fix_ok p -> NoDup (map fst penv) -> NoDup (map fst penv') ->
    (forall n v, aget n penv = Some v -> aget n penv' = Some v) ->
    exists p2 w, reparse_json (with_steps p ss) = Ok p2 w /\
      (forall c, In c (concat (map commands_deep (pp_steps p2))) ->
         exists sg, cs_sig c = Some sg /\ verify PK vrf (pub k) sg c repo penv' = true) /\
      length (concat (map commands_deep (pp_steps p2))) = length (concat (map commands_deep ss)) /\
      Forall2 (fun c c' => same_signed_content c c' /\ cs_sig c' = cs_sig c)
              (concat (map commands_deep ss)) (concat (map commands_deep (pp_steps p2))).
  Proof using vrf_ideal.
    intros k repo penv penv' p ss S OK N N' Hs.
    apply (signed_pipeline_survives_json k repo penv penv' p ss S); try assumption.
    eapply sign_steps_preserves_fix_ok; eassumption.
  Qed.

  Corollary signed_pipeline_survives_yaml_unsigned : forall k repo penv penv' p ss,
    sign_steps K alg_of sgn k repo penv (pp_steps p) = Some ss ->
    pipeline_fix_ok p -> yaml_side_ok p -> NoDup (map fst penv) -> NoDup (map fst penv') ->
    (forall n v, aget n penv = Some v -> aget n penv' = Some v) ->
    exists p2 w, reparse_yaml (with_steps p ss) = Ok p2 w /\
      (forall c, In c (concat (map commands_deep (pp_steps p2))) ->
         exists sg, cs_sig c = Some sg /\ verify PK vrf (pub k) sg c repo penv' = true) /\
      length (concat (map commands_deep (pp_steps p2))) = length (concat (map commands_deep ss)) /\
      Forall2 (fun c c' => same_signed_content c c' /\ cs_sig c' = cs_sig c)
              (concat (map commands_deep ss)) (concat (map commands_deep (pp_steps p2))).
  Proof using vrf_ideal.
    intros k repo penv penv' p ss S OK Y N N' Hs.
    apply (signed_pipeline_survives_yaml k repo penv penv' p ss S); try assumption.
    - eapply sign_steps_preserves_fix_ok; eassumption.
    - eapply sign_steps_preserves_yaml_side_ok; eassumption.
  Qed.

  (** stated on the document: any well-formed document outside the named exclusion classes; the
      signing env is the pipeline's own env block; [no_fallback_unknown] is not needed because
      SignSteps refuses a pipeline with any unknown step *)
  Corollary signed_pipeline_survives_json_of_parsed : forall g p w k repo penv' ss,
    parse_doc g = Ok p w -> doc_ok g ->
    no_empty_primary_with_alias p -> plugin_sources_canonical p ->
    sign_steps K alg_of sgn k repo (pipeline_env p) (pp_steps p) = Some ss ->
    NoDup (map fst penv') ->
    (forall n v, aget n (pipeline_env p) = Some v -> aget n penv' = Some v) ->
    exists p2 w2, reparse_json (with_steps p ss) = Ok p2 w2 /\
      (forall c, In c (concat (map commands_deep (pp_steps p2))) ->
         exists sg, cs_sig c = Some sg /\ verify PK vrf (pub k) sg c repo penv' = true) /\
      length (concat (map commands_deep (pp_steps p2))) = length (concat (map commands_deep ss)) /\
      Forall2 (fun c c' => same_signed_content c c' /\ cs_sig c' = cs_sig c)
              (concat (map commands_deep ss)) (concat (map commands_deep (pp_steps p2))).
  Proof using vrf_ideal.
    intros g p w k repo penv' ss H W R1 R2 S N' Hs.
    apply (signed_pipeline_survives_json_unsigned k repo (pipeline_env p) penv' p ss S); try assumption.
    - eapply parse_result_fix_ok; try eassumption. eapply signable_no_unknown. exact S.
    - eapply parsed_env_nodup; eassumption.
  Qed.

  (* [signatures_list_fields p] (a signature already present in the document lists its fields) is
     kept only because [parse_result_yaml_side_ok] asks for it: SignSteps overwrites every
     signature, and [sign_step_preserves_y_ok] does not use that conjunct of [cmd_y_ok]. *)
  Corollary signed_pipeline_survives_yaml_of_parsed : forall g p w k repo penv' ss,
    parse_doc g = Ok p w -> doc_ok g ->
    no_empty_primary_with_alias p -> plugin_sources_canonical p ->
    float_tokens_coherent g -> signatures_list_fields p -> env_not_empty p ->
    sign_steps K alg_of sgn k repo (pipeline_env p) (pp_steps p) = Some ss ->
    NoDup (map fst penv') ->
    (forall n v, aget n (pipeline_env p) = Some v -> aget n penv' = Some v) ->
    exists p2 w2, reparse_yaml (with_steps p ss) = Ok p2 w2 /\
      (forall c, In c (concat (map commands_deep (pp_steps p2))) ->
         exists sg, cs_sig c = Some sg /\ verify PK vrf (pub k) sg c repo penv' = true) /\
      length (concat (map commands_deep (pp_steps p2))) = length (concat (map commands_deep ss)) /\
      Forall2 (fun c c' => same_signed_content c c' /\ cs_sig c' = cs_sig c)
              (concat (map commands_deep ss)) (concat (map commands_deep (pp_steps p2))).
  Proof using vrf_ideal.
    intros g p w k repo penv' ss H W R1 R2 C RS NE S N' Hs.
    pose proof (signable_no_unknown _ _ _ _ _ S) as R4.
    apply (signed_pipeline_survives_yaml_unsigned k repo (pipeline_env p) penv' p ss S); try assumption.
    - eapply parse_result_fix_ok; eassumption.
    - eapply parse_result_yaml_side_ok; eassumption.
    - eapply parsed_env_nodup; eassumption.
  Qed.
End Main.

(** ------------------------------------------------------------------ *)
(** * 7. Non-vacuity: a concrete scheme and document *)

(* a top-level command step, a wait step, a group holding a command step with env (one name
   shadowing the pipeline env), plugins and a matrix with an adjustment, and a nested group with
   a multi-line command; pipeline env with two variables *)
Definition sp_doc : gv :=
  GMap [("env", GMap [("A", GStr "b"); ("DEPLOY", GStr "1")]);
        ("steps", GSeq [
           GMap [("command", GStr "make"); ("key", GStr "build")];
           GStr "wait";
           GMap [("group", GStr "tests"); ("key", GStr "g");
                 ("steps", GSeq [
                    GMap [("label", GStr "unit"); ("command", GStr "go test ./...");
                          ("env", GMap [("A", GStr "shadowed"); ("GOFLAGS", GStr "-race")]);
                          ("plugins", GSeq [GMap [("docker#v5.0.0", GMap [("image", GStr "golang"); ("n", GInt 2)])]]);
                          ("matrix", GMap [("setup", GMap [("os", GSeq [GStr "linux"; GStr "darwin"]); ("arch", GStr "amd64")]);
                                           ("adjustments", GSeq [GMap [("with", GMap [("os", GStr "linux"); ("arch", GStr "arm64")]);
                                                                       ("skip", GBool true)]])])];
                    GMap [("group", GStr "inner"); ("steps", GSeq [GMap [("commands", GSeq [GStr "a"; GStr "b"])]])]])]])].

Definition sp_repo : string := "git@host:repo.git".
Definition sp_alg (k : bool) : string := "EdDSA".

(* the scheme of Props/C01.v ([C01.ideal_scheme_exists]): keys are booleans, pub is the identity *)
Definition sp_sign_steps (k : bool) (p : pipeline) : option (list step) :=
  sign_steps bool sp_alg C01.toy_sgn k sp_repo (pipeline_env p) (pp_steps p).

(* sign with key [k], marshal, re-parse, verify every command step with public key [vk] in the
   pipeline env extended with [extra]: (all verify, number of command steps after, before) *)
Definition sp_check_p (reparse : pipeline -> res pipeline) (k vk : bool) (extra : list (string * string)) (p : pipeline)
  : option (bool * nat * nat) :=
  match sp_sign_steps k p with
  | Some ss =>
      match reparse (with_steps p ss) with
      | Ok p2 _ =>
          let cs := concat (map commands_deep (pp_steps p2)) in
          Some (forallb (fun c => match cs_sig c with
                                  | Some sg => verify bool C01.toy_vrf vk sg c sp_repo (pipeline_env p ++ extra)
                                  | None => false
                                  end) cs,
                length cs, length (concat (map commands_deep ss)))
      | Err => None
      end
  | None => None
  end.
(* the same from a document *)
Definition sp_check_d (reparse : pipeline -> res pipeline) (k vk : bool) (extra : list (string * string)) (g : gv)
  : option (bool * nat * nat) :=
  match parse_doc g with Ok p _ => sp_check_p reparse k vk extra p | Err => None end.

Example demo_json_verifies : sp_check_d reparse_json true true [("UNRELATED", "x")] sp_doc = Some (true, 3, 3).
Proof. vm_compute. reflexivity. Qed.
Example demo_yaml_verifies : sp_check_d reparse_yaml true true [("UNRELATED", "x")] sp_doc = Some (true, 3, 3).
Proof. vm_compute. reflexivity. Qed.
(* and verification is not trivially true: another public key fails *)
Example demo_other_key_fails : sp_check_d reparse_json true false [] sp_doc = Some (false, 3, 3).
Proof. vm_compute. reflexivity. Qed.
Example demo_yaml_other_key_fails : sp_check_d reparse_yaml true false [] sp_doc = Some (false, 3, 3).
Proof. vm_compute. reflexivity. Qed.

(** The side conditions are not artefacts of the proof: outside them the whole-pipeline property
    itself fails (these are the classes already excluded by the fixpoint theorems; here with their
    effect on signatures). *)

(* [plugin_sources_canonical]: a PARSED document whose plugin source is not a fixpoint of
   canonicalisation ([ReparseProofs.d_src], `plugins: ["x#../.."]`).  The re-read step carries the
   canonicalised source, canonicalising again gives another string, the signed "plugins" value
   differs and the signature no longer verifies, on both legs. *)
Example plugin_source_signature_counterexample :
  sp_check_d reparse_json true true [] d_src = Some (false, 1, 1) /\
  sp_check_d reparse_yaml true true [] d_src = Some (false, 1, 1).
Proof. vm_compute. split; reflexivity. Qed.

(* [type_selects] in [step_fix_ok]: a command step value holding a `type: wait` extra field (not
   something Parse produces) is re-read as a wait step: no command step is left, so nothing is
   verified - the reason the theorems also state that the number of command steps is kept. *)
Definition p_type_wait : pipeline :=
  mkPipeline [SCommand (mkCmd "" "" "c" [] [] None None None [("type", GStr "wait")])] None [] false.
Example type_member_demotes_counterexample :
  sp_check_p reparse_json true true [] p_type_wait = Some (true, 0, 1) /\
  sp_check_p reparse_yaml true true [] p_type_wait = Some (true, 0, 1).
Proof. vm_compute. split; reflexivity. Qed.

(* [yaml_side_ok] (not produced by Parse either): an adjustment whose `skip` is an empty Go map
   ([YamlLegProofs.p_skip0]) used to change the signed matrix through YAML only; since the fix of finding F21
   (a skip that means "skip" is written by both marshallers) it verifies on both legs; a disabled cache with a
   colliding extra field ([p_cclash]) loses the command step through YAML only; a float whose two
   tokens disagree inside a plugin configuration changes the signed plugins through YAML only. *)
Definition p_plugin_float : pipeline :=
  mkPipeline [SCommand (mkCmd "" "" "c" [mkPlugin "github.com/x/y#v1" (GUMap [("n", GFloat "1e+06" "1000000")])]
                              [] None None None [])] None [] false.
Example yaml_side_signature_counterexamples :
  (sp_check_p reparse_json true true [] p_skip0 = Some (true, 1, 1) /\
   sp_check_p reparse_yaml true true [] p_skip0 = Some (true, 1, 1)) /\
  (sp_check_p reparse_json true true [] p_cclash = Some (true, 1, 1) /\
   sp_check_p reparse_yaml true true [] p_cclash = Some (true, 0, 1)) /\
  (sp_check_p reparse_json true true [] p_plugin_float = Some (true, 1, 1) /\
   sp_check_p reparse_yaml true true [] p_plugin_float = Some (false, 1, 1)).
Proof. vm_compute. repeat split; reflexivity. Qed.

(* the document satisfies every hypothesis of the [_of_parsed] corollaries *)
Example demo_hypotheses : exists p w ss,
  parse_doc sp_doc = Ok p w /\ doc_ok sp_doc /\
  no_empty_primary_with_alias p /\ plugin_sources_canonical p /\
  float_tokens_coherent sp_doc /\ signatures_list_fields p /\ env_not_empty p /\
  sp_sign_steps true p = Some ss /\ length (concat (map commands_deep ss)) = 3.
Proof.
  remember (parse_doc sp_doc) as r eqn:Er. vm_compute in Er.
  eexists. eexists.
  match type of Er with _ = Ok ?p _ =>
    remember (sp_sign_steps true p) as o eqn:Eo; vm_compute in Eo end.
  eexists. split; [rewrite Er; reflexivity|].
  split; [unfold sp_doc; dc_doc|]. split; [dc_alias|]. split; [dc_src|].
  split. { unfold float_tokens_coherent, sp_doc. cbn [gv_floats map fst snd]. ypred. }
  split. { unfold signatures_list_fields, pipeline_all. cbn [pp_steps].
           repeat constructor; cbn [sig_local cs_sig sg_fields]; ypred. }
  split. { unfold env_not_empty. cbn [pp_env]. discriminate. }
  split; [rewrite Eo; reflexivity|reflexivity].
Qed.

(* hence the two theorems apply to it, with the toy scheme, for every verification env extending
   the pipeline env *)
Example demo_theorems_apply : exists p w ss,
  parse_doc sp_doc = Ok p w /\ sp_sign_steps true p = Some ss /\
  forall penv', NoDup (map fst penv') ->
    (forall n v, aget n (pipeline_env p) = Some v -> aget n penv' = Some v) ->
    (exists p2 w2, reparse_json (with_steps p ss) = Ok p2 w2 /\
       length (concat (map commands_deep (pp_steps p2))) = 3 /\
       forall c, In c (concat (map commands_deep (pp_steps p2))) ->
         exists sg, cs_sig c = Some sg /\ verify bool C01.toy_vrf true sg c sp_repo penv' = true) /\
    (exists p2 w2, reparse_yaml (with_steps p ss) = Ok p2 w2 /\
       length (concat (map commands_deep (pp_steps p2))) = 3 /\
       forall c, In c (concat (map commands_deep (pp_steps p2))) ->
         exists sg, cs_sig c = Some sg /\ verify bool C01.toy_vrf true sg c sp_repo penv' = true).
Proof.
  destruct demo_hypotheses as (p & w & ss & H & W & R1 & R2 & C & RS & NE & S & L).
  exists p, w, ss. split; [exact H|]. split; [exact S|]. intros penv' N' Hs.
  pose proof (proj1 C01.ideal_scheme_exists) as ID. split.
  - destruct (signed_pipeline_survives_json_of_parsed bool bool (fun x => x) sp_alg C01.toy_sgn C01.toy_vrf ID
                sp_doc p w true sp_repo penv' ss H W R1 R2 S N' Hs) as (p2 & w2 & E & V & Ln & _).
    exists p2, w2. split; [exact E|]. split; [congruence|exact V].
  - destruct (signed_pipeline_survives_yaml_of_parsed bool bool (fun x => x) sp_alg C01.toy_sgn C01.toy_vrf ID
                sp_doc p w true sp_repo penv' ss H W R1 R2 C RS NE S N' Hs) as (p2 & w2 & E & V & Ln & _).
    exists p2, w2. split; [exact E|]. split; [congruence|exact V].
Qed.

Print Assumptions step_roundtrip_corresponds.
Print Assumptions step_roundtrip_yaml_corresponds.
Print Assumptions sign_steps_preserves_fix_ok.
Print Assumptions sign_steps_preserves_yaml_side_ok.
Print Assumptions signed_pipeline_survives_json.
Print Assumptions signed_pipeline_survives_yaml.
Print Assumptions signed_pipeline_survives_json_of_parsed.
Print Assumptions signed_pipeline_survives_yaml_of_parsed.
Print Assumptions demo_theorems_apply.
