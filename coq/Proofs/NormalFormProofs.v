(** C03 — the documented normal form ([Model/NormalForm.nf], written from the
    property text, straight from the document tree to JSON) IS what Parse
    followed by json.Marshal computes ([parse_doc] ; [marshal_json], the model
    validated against the library), on every document whose mappings have
    distinct keys.

      parse_marshal_nf        the equality (MAIN)
      nf_keeps_unknown_keys   nothing the schema does not name is lost
      nf_agrees_on_samples    the sanity run made before proving
      nf_demo                 non-vacuity: a document exercising every clause
      distinct_keys_needed_*  why [wf_doc] asks for distinct keys *)
From Coq Require Import String List Ascii Bool Arith Lia ZArith Permutation Sorted.
From GP Require Import Base.Sexp Model.Gv Model.Decode Model.Kinds Model.Plugin Model.Pipeline Model.Marshal
     Model.NormalForm Gen.Structs
     Proofs.DecodeProofs Proofs.MarshalProofs Proofs.PipelineProofs Proofs.JcsProofs Proofs.ReparseProofs.
Import ListNotations.
Local Open Scope string_scope.
Local Open Scope list_scope.

(** Parse, then json.Marshal *)
Definition composite (d : gv) : option json :=
  match parse_doc d with Ok p _ => marshal_json p | Err => None end.

(** ------------------------------------------------------------------ *)
(** * 0. Generic facts *)

Definition ro {T U} (f : T -> U) (r : res T) : option U :=
  match r with Ok x _ => Some (f x) | Err => None end.

Lemma ro_bind : forall {T U V} (f : U -> V) (r : res T) (k : T -> res U),
  ro f (bind r k) = match r with Ok x _ => ro f (k x) | Err => None end.
Proof. intros. destruct r as [x w|]; [|reflexivity]. cbn [bind ro]. destruct (k x); reflexivity. Qed.

Lemma ro_ret : forall {T U} (f : T -> U) x, ro f (ret x) = Some (f x).
Proof. reflexivity. Qed.

Lemma all_some_mapM : forall {A T U} (f : A -> option U) (g : A -> res T) (h : T -> U) l,
  (forall x, In x l -> f x = ro h (g x)) -> all_some f l = ro (map h) (mapM g l).
Proof.
  intros A T U f g h l. induction l as [|x r IH]; intros H; [reflexivity|].
  cbn [all_some mapM]. rewrite ro_bind. rewrite (H x (or_introl eq_refl)).
  destruct (g x) as [y w|]; cbn [ro obind]; [|reflexivity].
  rewrite ro_bind. rewrite IH by (intros z Hz; apply H; right; exact Hz).
  destruct (mapM g r); reflexivity.
Qed.

Lemma all_some_Forall2 : forall {A U} (f : A -> option U) l ys,
  all_some f l = Some ys -> Forall2 (fun x y => f x = Some y) l ys.
Proof.
  intros A U f l. induction l as [|x r IH]; intros ys H; cbn [all_some] in H.
  - inversion H. constructor.
  - destruct (f x) as [y|] eqn:E; cbn [obind] in H; [|discriminate].
    destruct (all_some f r) as [ys'|]; cbn [obind] in H; [|discriminate].
    inversion H; subst. constructor; [exact E|apply IH; reflexivity].
Qed.

Lemma aget_app' : forall {T} k (a b : list (string * T)),
  aget k (a ++ b) = match aget k a with Some v => Some v | None => aget k b end.
Proof.
  intros T k a b. induction a as [|[k0 v0] r IH]; [reflexivity|].
  cbn [app aget]. destruct (String.eqb k k0); [reflexivity|exact IH].
Qed.

Lemma mem_In : forall k ks, Kinds.mem k ks = true <-> In k ks.
Proof. intros. unfold Kinds.mem. apply existsb_eqb_In. Qed.

Lemma mem_app : forall k a b, Kinds.mem k (a ++ b) = Kinds.mem k a || Kinds.mem k b.
Proof. intros. unfold Kinds.mem. apply existsb_app. Qed.

Lemma aget_drop : forall ks k (m : list (string * gv)), aget k (drop ks m) = if Kinds.mem k ks then None else aget k m.
Proof.
  intros ks k m. unfold drop.
  rewrite (aget_filter (fun k => negb (Kinds.mem k ks))). destruct (Kinds.mem k ks); reflexivity.
Qed.

Lemma drop_nodup : forall ks m, NoDup (map fst m) -> NoDup (map fst (drop ks m)).
Proof. intros. unfold drop. apply nodup_map_filter. assumption. Qed.

Lemma drop_incl : forall ks m kv, In kv (drop ks m) -> In kv m.
Proof. intros ks m kv H. unfold drop in H. apply filter_In in H. apply H. Qed.

Lemma drop_ext : forall ks ks' (m : list (string * gv)),
  (forall k, In k (map fst m) -> Kinds.mem k ks = Kinds.mem k ks') -> drop ks m = drop ks' m.
Proof.
  intros ks ks' m H. unfold drop. apply filter_ext_in. intros [k v] I. cbn [fst].
  rewrite (H k); [reflexivity|]. apply in_map_iff. exists (k, v). split; [reflexivity|exact I].
Qed.

Lemma drop_nil : forall m, drop [] m = m.
Proof.
  intros m. unfold drop. induction m as [|x r IH]; [reflexivity|].
  cbn [filter]. change (Kinds.mem (fst x) []) with false. cbn [negb]. f_equal. exact IH.
Qed.

Lemma NoDup_app_disj : forall {A} (a b : list A),
  NoDup a -> NoDup b -> (forall x, In x a -> ~ In x b) -> NoDup (a ++ b).
Proof.
  intros A a b Na Nb D. induction a as [|x r IH]; [exact Nb|].
  inversion Na; subst. cbn [app]. constructor.
  - rewrite in_app_iff. intros [I|I]; [contradiction|]. apply (D x (or_introl eq_refl) I).
  - apply IH; [assumption|]. intros y Hy. apply D. right. exact Hy.
Qed.

(** the object builder of the normal form is inlineFriendlyMarshalJSON *)
Lemma nf_obj_members : forall ol rest k,
  NoDup (map fst ol) -> NoDup (map fst rest) ->
  aget k (members (nf_obj ol rest)) =
    match aget k (compact ol) with
    | Some j => Some j
    | None => option_map gv_json (aget k rest)
    end.
Proof.
  intros ol rest k No Nr. unfold nf_obj. fold (compact ol). cbn [members].
  assert (Nd : NoDup (map fst (compact ol ++ map (fun kv => (fst kv, gv_json (snd kv))) (drop (map fst (compact ol)) rest)))).
  { rewrite map_app, map_fst_map. apply NoDup_app_disj.
    - apply compact_nodup. exact No.
    - apply drop_nodup. exact Nr.
    - intros x Hx Hy. apply in_map_iff in Hy. destruct Hy as ([k' v'] & E & Hy). cbn [fst] in E. subst k'.
      unfold drop in Hy. apply filter_In in Hy. destruct Hy as [_ Hy]. cbn [fst] in Hy.
      apply mem_In in Hx. rewrite Hx in Hy. discriminate. }
  rewrite aget_sort_keys by exact Nd. rewrite aget_app'.
  destruct (aget k (compact ol)) eqn:E; [reflexivity|].
  rewrite aget_map, aget_drop.
  destruct (Kinds.mem k (map fst (compact ol))) eqn:M; [|reflexivity].
  exfalso. apply mem_In in M. revert M. apply aget_none_iff. exact E.
Qed.

Lemma nf_obj_sorted : forall ol rest, StronglySorted sle (map fst (members (nf_obj ol rest))).
Proof. intros. unfold nf_obj. cbn [members]. apply sort_keys_sorted. Qed.

Lemma nf_obj_nodup : forall ol rest,
  NoDup (map fst ol) -> NoDup (map fst rest) -> NoDup (map fst (members (nf_obj ol rest))).
Proof.
  intros ol rest No Nr. unfold nf_obj. fold (compact ol). cbn [members]. apply sort_keys_nodup.
  rewrite map_app, map_fst_map. apply NoDup_app_disj.
  - apply compact_nodup. exact No.
  - apply drop_nodup. exact Nr.
  - intros x Hx Hy. apply in_map_iff in Hy. destruct Hy as ([k' v'] & E & Hy). cbn [fst] in E. subst k'.
    unfold drop in Hy. apply filter_In in Hy. destruct Hy as [_ Hy]. cbn [fst] in Hy.
    apply mem_In in Hx. rewrite Hx in Hy. discriminate.
Qed.

Theorem nf_obj_eq : forall ol rest,
  NoDup (map fst ol) -> NoDup (map fst rest) ->
  nf_obj ol rest = inline_friendly (compact ol) rest.
Proof.
  intros ol rest No Nr.
  rewrite (inline_friendly_members (compact ol) rest).
  change (nf_obj ol rest) with (JObj (members (nf_obj ol rest))). f_equal.
  apply alist_sorted_ext.
  - apply nf_obj_sorted.
  - apply inline_friendly_sorted.
  - apply nf_obj_nodup; assumption.
  - apply inline_friendly_nodup.
  - intros k. rewrite nf_obj_members by assumption.
    rewrite inline_friendly_lookup; [reflexivity|apply compact_nodup; exact No|exact Nr].
Qed.

(** which keys a struct descriptor consumes, in closed form *)
Lemma consumed_closed : forall fields m,
  DecodeProofs.consumed (partition_keys fields m) =
  flat_map (fun r => match classify r with
                     | FKeyed => picked_key (field_lookup r m)
                     | _ => []
                     end) fields.
Proof.
  intros fields m. unfold DecodeProofs.consumed. rewrite partition_assigned.
  induction fields as [|r rest IH]; [reflexivity|].
  rewrite asg_cons. cbn [flat_map]. destruct (classify r); try exact IH.
  destruct (field_lookup r m) as [[k v]|]; cbn [picked_key map fst snd app]; [f_equal|]; exact IH.
Qed.

Lemma leftover_drop : forall fields m,
  leftover (partition_keys fields m) = drop (DecodeProofs.consumed (partition_keys fields m)) m.
Proof. intros. rewrite leftover_spec. reflexivity. Qed.

Lemma pick_first_key : forall pk al m,
  option_map snd (pick pk al m) = first_key (pk :: filter nonempty al) m.
Proof.
  intros pk al m. unfold pick. cbn [first_key]. destruct (aget pk m); [reflexivity|].
  apply first_alias_first_key.
Qed.

(** a field without aliases consumes its key exactly when the mapping has it *)
Lemma mem_plain : forall pk (m : list (string * gv)) k,
  In k (map fst m) -> Kinds.mem k (picked_key (pick pk [""] m)) = String.eqb k pk.
Proof.
  intros pk m k I. unfold pick. cbn [first_alias]. change (String.eqb "" "") with true. cbv iota.
  destruct (aget pk m) eqn:E; cbn [picked_key Kinds.mem existsb].
  - rewrite orb_false_r. reflexivity.
  - destruct (String.eqb_spec k pk) as [->|N]; [|reflexivity].
    exfalso. revert I. apply aget_none_iff. exact E.
Qed.

(** ------------------------------------------------------------------ *)
(** * 1. Leaf decoders *)

Lemma str_of_sim : forall v, str_of v = ro (fun s => s) (unm_string v).
Proof. intros v. destruct v; try reflexivity; cbn [str_of unm_string]; destruct (sprint _); reflexivity. Qed.

Lemma map_id' : forall {A} (l : list A), map (fun s => s) l = l.
Proof. intros. apply map_id. Qed.

Lemma strs_seq_sim : forall l, all_some str_of l = ro (fun s => s) (mapM unm_string l).
Proof.
  intros l. rewrite (all_some_mapM str_of unm_string (fun s => s)) by (intros; apply str_of_sim).
  destruct (mapM unm_string l); cbn [ro]; [rewrite map_id'|]; reflexivity.
Qed.

Lemma strs_of_sim : forall v, strs_of v = ro strings_or_nil (unm_strings v).
Proof.
  intros v. destruct v; try reflexivity.
  cbn [strs_of unm_strings]. rewrite ro_bind, strs_seq_sim. destruct (mapM unm_string l); reflexivity.
Qed.

Lemma str_at_sim : forall name p, str_at (field name p) = ro (fun s => s) (opt_field name p "" unm_string).
Proof. intros. unfold str_at, opt_field. destruct (field name p); [apply str_of_sim|reflexivity]. Qed.

Lemma strs_at_sim : forall name p, strs_at (field name p) = ro strings_or_nil (opt_field name p None unm_strings).
Proof. intros. unfold strs_at, opt_field. destruct (field name p); [apply strs_of_sim|reflexivity]. Qed.

Lemma join_newline : forall l, join newline l = join_nl l.
Proof.
  induction l as [|x r IH]; [reflexivity|]. cbn [join join_nl]. destruct r; [reflexivity|].
  rewrite IH. reflexivity.
Qed.

(** plugins *)
Lemma config_json_tmr : forall g, config_json g = gv_json (to_map_recursive g).
Proof.
  induction g using gv_ind'; try reflexivity.
  - cbn [config_json to_map_recursive gv_json]. rewrite map_map. f_equal.
    apply map_ext_in. intros x Hx. rewrite Forall_forall in H. apply H. exact Hx.
  - cbn [config_json to_map_recursive gv_json]. rewrite map_map. f_equal. f_equal.
    apply map_ext_in. intros x Hx. rewrite Forall_forall in H. cbn [fst snd]. rewrite (H x Hx). reflexivity.
Qed.

Lemma plugin_json_sim : forall k v, plugin_json k v = mj_plugin (mkPlugin k (to_map_recursive v)).
Proof.
  intros k v. unfold plugin_json, mj_plugin. cbn [pl_source pl_config].
  destruct v as [| | | | | |[|x r]|[|x r]|[|x r]]; try reflexivity.
  - rewrite config_json_tmr. reflexivity.
  - rewrite config_json_tmr. reflexivity.
Qed.

Lemma plugins_of_mapping_sim : forall m, plugins_of_mapping m = map mj_plugin (plugins_of_map m).
Proof.
  intros m. unfold plugins_of_mapping, plugins_of_map. rewrite map_map. apply map_ext.
  intros [k v]. apply plugin_json_sim.
Qed.

Lemma nf_plugins_sim : forall v, nf_plugins v = ro (map mj_plugin) (unm_plugins v).
Proof.
  intros v. destruct v; try reflexivity.
  - cbn [nf_plugins unm_plugins]. rewrite ro_bind.
    rewrite (all_some_mapM _ (fun c => match c with
                              | GMap m => ret (plugins_of_map m)
                              | GStr s => ret [mkPlugin s GNull]
                              | _ => Err
                              end) (map mj_plugin)).
    + destruct (mapM _ l) as [ps w|]; cbn [ro obind ret]; [|reflexivity]. rewrite concat_map. reflexivity.
    + intros x _. destruct x; try reflexivity. cbn [ro ret map]. rewrite plugins_of_mapping_sim. reflexivity.
  - cbn [nf_plugins unm_plugins ro ret]. rewrite plugins_of_mapping_sim. reflexivity.
Qed.

(** env *)
Lemma nf_env_sim : forall v, nf_env v = ro (fun e => e) (unm_map_ss v).
Proof.
  intros v. destruct v; try reflexivity. cbn [nf_env unm_map_ss].
  rewrite (all_some_mapM _ (fun kv : string * gv => do s <- unm_string (snd kv); ret (fst kv, s)) (fun e => e)).
  - destruct (mapM _ l); cbn [ro]; [rewrite map_id'|]; reflexivity.
  - intros [k x] _. cbn [fst snd]. rewrite ro_bind, str_of_sim. destruct (unm_string x); reflexivity.
Qed.

(** signature *)
Lemma f_sig_alg : forall m, field "Algorithm" (partition_keys struct_Signature m) = first_key ["algorithm"] m.
Proof. intros; fk. Qed.
Lemma f_sig_fields : forall m, field "SignedFields" (partition_keys struct_Signature m) = first_key ["signed_fields"] m.
Proof. intros; fk. Qed.
Lemma f_sig_value : forall m, field "Value" (partition_keys struct_Signature m) = first_key ["value"] m.
Proof. intros; fk. Qed.

Lemma first_key_1 : forall k m, first_key [k] m = aget k m.
Proof. intros. cbn [first_key]. destruct (aget k m); reflexivity. Qed.

Lemma nf_signature_sim : forall v, nf_signature v = ro (option_map mj_sig) (unm_sig v).
Proof.
  intros v. destruct v; try reflexivity. cbn [nf_signature unm_sig]. cbv zeta.
  set (p := partition_keys struct_Signature l).
  rewrite ro_bind. rewrite <- (first_key_1 "algorithm"), <- f_sig_alg. fold p. rewrite str_at_sim.
  destruct (opt_field "Algorithm" p "" unm_string) as [a wa|]; cbn [ro obind]; [|reflexivity].
  rewrite ro_bind. rewrite <- (first_key_1 "signed_fields"), <- f_sig_fields. fold p.
  unfold opt_field at 1.
  destruct (field "SignedFields" p) as [x|].
  - assert (E : match x with
                | GNull => Some JNull
                | _ => obind (strs_of x) (fun l0 => Some (strs_json l0))
                end = ro (fun f => match f with Some l => jstrs l | None => JNull end) (unm_strings x)).
    { destruct x; try reflexivity.
      cbn [strs_of unm_strings]. rewrite ro_bind, strs_seq_sim. destruct (mapM unm_string l0); reflexivity. }
    rewrite E. destruct (unm_strings x) as [f wf|]; cbn [ro obind]; [|reflexivity].
    rewrite ro_bind. rewrite <- (first_key_1 "value"), <- f_sig_value. fold p. rewrite str_at_sim.
    destruct (opt_field "Value" p "" unm_string) as [s ws|]; reflexivity.
  - cbn [ret ro obind]. rewrite ro_bind. rewrite <- (first_key_1 "value"), <- f_sig_value. fold p. rewrite str_at_sim.
    destruct (opt_field "Value" p "" unm_string) as [s ws|]; reflexivity.
Qed.

(** ------------------------------------------------------------------ *)
(** * 2. The side condition: every mapping of the document has distinct keys
    (yaml.v3 rejects duplicate mapping keys, so every decoded document has them) *)

Fixpoint distinct_keys (g : gv) : Prop :=
  match g with
  | GSeq l => (fix go (l : list gv) : Prop := match l with [] => True | x :: r => distinct_keys x /\ go r end) l
  | GMap l => NoDup (map fst l) /\
              (fix go (l : list (string * gv)) : Prop :=
                 match l with [] => True | kv :: r => distinct_keys (snd kv) /\ go r end) l
  | _ => True
  end.

Definition wf_doc (d : gv) : Prop := distinct_keys d.

Lemma dk_seq : forall l, distinct_keys (GSeq l) <-> Forall distinct_keys l.
Proof.
  induction l as [|x r IH]; [split; intros; [constructor|exact I]|].
  change (distinct_keys (GSeq (x :: r))) with (distinct_keys x /\ distinct_keys (GSeq r)). rewrite IH. split.
  - intros [A B]. constructor; assumption.
  - intros H. inversion H; subst. split; assumption.
Qed.
Lemma dk_map : forall l, distinct_keys (GMap l) <-> NoDup (map fst l) /\ Forall (fun kv => distinct_keys (snd kv)) l.
Proof.
  intros l. cbn [distinct_keys].
  assert (E : (fix go (l : list (string * gv)) : Prop :=
                 match l with [] => True | kv :: r => distinct_keys (snd kv) /\ go r end) l
              <-> Forall (fun kv => distinct_keys (snd kv)) l).
  { induction l as [|x r IH]; [split; intros; [constructor|exact I]|].
    rewrite IH. split; [intros [A B]; constructor; assumption|intros H; inversion H; subst; split; assumption]. }
  rewrite E. reflexivity.
Qed.
Lemma dk_nodup : forall m, distinct_keys (GMap m) -> NoDup (map fst m).
Proof. intros m H. apply dk_map in H. apply H. Qed.
Lemma dk_in : forall m k v, distinct_keys (GMap m) -> In (k, v) m -> distinct_keys v.
Proof. intros m k v H I. apply dk_map in H. destruct H as [_ H]. rewrite Forall_forall in H. apply (H (k, v) I). Qed.
Lemma dk_aget : forall m k v, distinct_keys (GMap m) -> aget k m = Some v -> distinct_keys v.
Proof. intros m k v H G. eapply dk_in; [exact H|]. apply aget_some_in. exact G. Qed.
Lemma dk_seq_in : forall l x, distinct_keys (GSeq l) -> In x l -> distinct_keys x.
Proof. intros l x H I. apply dk_seq in H. rewrite Forall_forall in H. auto. Qed.
Lemma dk_drop : forall ks m, distinct_keys (GMap m) -> distinct_keys (GMap (drop ks m)).
Proof.
  intros ks m H. apply dk_map in H. destruct H as [N F]. apply dk_map. split.
  - apply drop_nodup. exact N.
  - rewrite Forall_forall in *. intros kv I. apply F. eapply drop_incl. exact I.
Qed.

(** the stronger side condition of the re-parse theorems implies this one *)
Lemma gv_wf_distinct_keys : forall g, gv_wf g -> distinct_keys g.
Proof.
  induction g using gv_ind'; intros W; try exact I.
  - apply dk_seq. apply gv_wf_seq in W. rewrite Forall_forall in *. auto.
  - apply dk_map. apply gv_wf_map in W. destruct W as [N W]. split; [exact N|]. rewrite Forall_forall in *. auto.
Qed.

(** ------------------------------------------------------------------ *)
(** * 3. Matrix and cache *)

Ltac plain_keys :=
  let k := fresh "k" in let I := fresh "I" in
  intros k I; rewrite ?mem_app, ?(mem_plain _ _ _ I); cbn [Kinds.mem existsb];
  rewrite ?orb_false_r, ?orb_assoc; reflexivity.

Lemma is_empty_eq : forall g, is_empty g = is_empty_any g.
Proof. intros g. destruct g; reflexivity. Qed.

Lemma nf_with_sim : forall v, nf_with v = ro (fun w => mj_with (Some w)) (unm_with v).
Proof.
  intros v.
  assert (D : forall g, (obind (matrix_scalar g) (fun s => Some (JStr s))) =
                        ro (fun w => mj_with (Some w)) (match with_scalar g with Some s => ret [("", s)] | None => Err end)).
  { intros g. change (matrix_scalar g) with (with_scalar g). destruct (with_scalar g); reflexivity. }
  destruct v; try apply D.
  cbn [nf_with unm_with].
  rewrite (all_some_mapM _ (fun kv : string * gv => match with_scalar (snd kv) with Some s => ret (fst kv, s) | None => Err end)
             (fun e => e)).
  - destruct (mapM _ l) as [w ?|]; cbn [ro obind]; [|reflexivity]. rewrite map_id'. reflexivity.
  - intros [k x] _. cbn [fst snd]. change (matrix_scalar x) with (with_scalar x). destruct (with_scalar x); reflexivity.
Qed.

Lemma consumed_adj : forall m,
  DecodeProofs.consumed (partition_keys struct_MatrixAdjustment m) =
  picked_key (pick "with" [""] m) ++ picked_key (pick "skip" [""] m) ++ [].
Proof. intros. rewrite consumed_closed. reflexivity. Qed.

Lemma nf_adjustment_sim : forall v, distinct_keys v -> nf_adjustment v = ro mj_adj (unm_adj v).
Proof.
  intros v D. destruct v; try reflexivity. cbn [nf_adjustment unm_adj]. cbv zeta.
  pose proof (dk_nodup _ D) as N.
  set (p := partition_keys struct_MatrixAdjustment l).
  rewrite ro_bind. rewrite <- (first_key_1 "with"), <- f_adj_with. fold p.
  assert (E : match field "With" p with Some x => nf_with x | None => Some (JObj []) end =
              ro mj_with (match field "With" p with Some v => do x <- unm_with v; ret (Some x) | None => ret None end)).
  { destruct (field "With" p) as [x|]; [|reflexivity]. rewrite ro_bind, nf_with_sim. destruct (unm_with x); reflexivity. }
  rewrite E. clear E.
  destruct (match field "With" p with Some v => _ | None => _ end) as [w ?|]; cbn [ro obind ret]; [|reflexivity].
  f_equal. rewrite mj_adj_eq. cbn [ma_with ma_skip ma_rem].
  rewrite <- (first_key_1 "skip"), <- f_adj_skip. fold p.
  rewrite nf_obj_eq.
  - f_equal.
    + unfold adj_ol. destruct (field "Skip" p) as [s|]; [rewrite is_empty_eq|]; reflexivity.
    + unfold p. rewrite leftover_drop, consumed_adj. apply drop_ext. plain_keys.
  - apply nodupb_sound. reflexivity.
  - apply drop_nodup. exact N.
Qed.

Lemma nf_adjustments_sim : forall v, distinct_keys v ->
  match v with
  | GNull => Some []
  | GSeq l => all_some nf_adjustment l
  | _ => None
  end = ro (map mj_adj) (unm_adjs v).
Proof.
  intros v D. destruct v; try reflexivity. cbn [unm_adjs].
  apply all_some_mapM. intros x Hx. apply nf_adjustment_sim. eapply dk_seq_in; eassumption.
Qed.

(** the setup: the model keeps an option per dimension, always [Some] after a decode *)
Definition unlift (su : option (list (string * option (list string)))) : option (list (string * list string)) :=
  option_map (map (fun kv => (fst kv, strings_or_nil (snd kv)))) su.

Lemma nf_setup_sim : forall v, nf_setup v = ro unlift (unm_setup v).
Proof.
  intros v. destruct v; try reflexivity.
  - cbn [nf_setup unm_setup]. rewrite ro_bind, strs_seq_sim. destruct (mapM unm_string l); reflexivity.
  - cbn [nf_setup unm_setup]. rewrite ro_bind.
    rewrite (all_some_mapM _ (fun kv : string * gv => do s <- unm_strings (snd kv); ret (fst kv, Some (strings_or_nil s)))
               (fun kv => (fst kv, strings_or_nil (snd kv)))).
    + destruct (mapM _ l); reflexivity.
    + intros [k x] _. cbn [fst snd]. rewrite ro_bind, strs_of_sim. destruct (unm_strings x); reflexivity.
Qed.

Lemma setup_anon_unlift : forall l,
  setup_anon l = anonymous_dimension (map (fun kv => (fst kv, strings_or_nil (snd kv))) l).
Proof. intros l. destruct l as [|[k [[|x r]|]] [|y t]]; reflexivity. Qed.

Lemma setup_json_cons : forall l, l <> [] ->
  setup_json (Some l) = match anonymous_dimension l with
                        | Some vs => strs_json vs
                        | None => JObj (sort_keys (map (fun kv => (fst kv, strs_json (snd kv))) l))
                        end.
Proof. intros [|e r] H; [congruence|reflexivity]. Qed.

Lemma mj_setup_unlift : forall su, setup_fix_ok su -> mj_setup su = setup_json (unlift su).
Proof.
  intros [l|] F; [|reflexivity]. destruct l as [|e r]; [reflexivity|].
  set (u := fun kv : string * option (list string) => (fst kv, strings_or_nil (snd kv))).
  change (unlift (Some (e :: r))) with (Some (map u (e :: r))).
  rewrite setup_json_cons by discriminate.
  unfold mj_setup. rewrite setup_anon_unlift. fold u.
  destruct (anonymous_dimension (map u (e :: r))); [reflexivity|]. f_equal. f_equal.
  rewrite map_map. apply map_ext_in. intros [k o] Hk.
  unfold u. cbn [fst snd].
  cbn [setup_fix_ok] in F. rewrite Forall_forall in F. specialize (F _ Hk). cbn [snd] in F.
  destruct o; [reflexivity|congruence].
Qed.

Lemma matrix_json_eq : forall su ad rem, setup_fix_ok su -> NoDup (map fst rem) ->
  mj_matrix (mkMx su ad rem) = matrix_json (unlift su) (map mj_adj ad) rem.
Proof.
  intros su ad rem F N. unfold mj_matrix, matrix_json. rewrite mx_simple_eq. cbn [mx_adj mx_rem mx_setup].
  assert (Long : inline_friendly ([("setup", mj_setup su)] ++
                    oe match ad with [] => true | _ :: _ => false end "adjustments" (JArr (map mj_adj ad))) rem =
                 nf_obj [("setup", Some (setup_json (unlift su)));
                         ("adjustments", list_entry (map mj_adj ad) (JArr (map mj_adj ad)))] rem).
  { rewrite nf_obj_eq; [|apply nodupb_sound; reflexivity|exact N]. rewrite mj_setup_unlift by exact F.
    destruct ad; reflexivity. }
  destruct ad as [|a ad']; [|rewrite Long; cbn [map]; destruct (unlift su); reflexivity].
  destruct rem as [|e rem']; [|rewrite Long; cbn [map]; destruct (unlift su); reflexivity].
  cbn [map]. destruct su as [l|]; [|exact Long]. cbn [su_anon unlift option_map].
  rewrite setup_anon_unlift. destruct (anonymous_dimension _); [reflexivity|exact Long].
Qed.

Lemma consumed_matrix : forall m,
  DecodeProofs.consumed (partition_keys struct_Matrix m) =
  picked_key (pick "setup" [""] m) ++ picked_key (pick "adjustments" [""] m) ++ [].
Proof. intros. rewrite consumed_closed. reflexivity. Qed.

Lemma nf_matrix_sim : forall v, distinct_keys v -> nf_matrix v = ro (option_map mj_matrix) (unm_matrix v).
Proof.
  intros v D. destruct v; try reflexivity.
  - cbn [nf_matrix unm_matrix]. rewrite ro_bind, strs_seq_sim.
    destruct (mapM unm_string l) as [ss ?|]; cbn [ro obind ret option_map]; [|reflexivity].
    rewrite matrix_json_eq; [reflexivity| |constructor].
    cbn [setup_fix_ok]. constructor; [discriminate|constructor].
  - cbn [nf_matrix unm_matrix]. cbv zeta. pose proof (dk_nodup _ D) as N.
    set (p := partition_keys struct_Matrix l).
    rewrite ro_bind. rewrite <- (first_key_1 "setup"), <- f_mx_setup. fold p.
    assert (E : match field "Setup" p with Some x => nf_setup x | None => Some None end =
                ro unlift (match field "Setup" p with Some v => unm_setup v | None => ret None end)).
    { destruct (field "Setup" p); [apply nf_setup_sim|reflexivity]. }
    rewrite E. clear E.
    assert (F : res_all setup_fix_ok (match field "Setup" p with Some v => unm_setup v | None => ret None end)).
    { destruct (field "Setup" p); [apply wf_unm_setup|exact I]. }
    destruct (match field "Setup" p with Some v => _ | None => _ end) as [su ?|]; cbn [ro obind]; [|reflexivity].
    cbn [res_all] in F.
    rewrite ro_bind. rewrite <- (first_key_1 "adjustments"), <- f_mx_adj. fold p.
    assert (E : match field "Adjustments" p with
                | Some GNull | None => Some []
                | Some (GSeq l0) => all_some nf_adjustment l0
                | Some _ => None
                end = ro (map mj_adj) (opt_field "Adjustments" p [] unm_adjs)).
    { unfold opt_field. destruct (field "Adjustments" p) as [x|] eqn:Fx; [|reflexivity].
      rewrite <- nf_adjustments_sim; [destruct x; reflexivity|].
      apply field_in in Fx. destruct Fx as [k Fx]. eapply dk_in; eassumption. }
    rewrite E. clear E.
    destruct (opt_field "Adjustments" p [] unm_adjs) as [ad ?|]; cbn [ro obind ret option_map]; [|reflexivity].
    rewrite matrix_json_eq; [|exact F|apply leftover_nodup; exact N].
    f_equal. f_equal. f_equal. unfold p. rewrite leftover_drop, consumed_matrix. apply drop_ext. plain_keys.
Qed.

Lemma cache_json_eq : forall d n ps sz rem, NoDup (map fst rem) ->
  mj_cache (mkCache d n ps sz rem) = if d then JBool false else cache_json n ps sz rem.
Proof.
  intros d n ps sz rem N. destruct d; [reflexivity|].
  rewrite mj_cache_eq by reflexivity. unfold cache_json. rewrite nf_obj_eq; [|apply nodupb_sound; reflexivity|exact N].
  reflexivity.
Qed.

Lemma consumed_cache : forall m,
  DecodeProofs.consumed (partition_keys struct_Cache m) =
  picked_key (pick "disabled" [""] m) ++ picked_key (pick "name" [""] m) ++ picked_key (pick "paths" [""] m)
    ++ picked_key (pick "size" [""] m) ++ [].
Proof. intros. rewrite consumed_closed. reflexivity. Qed.

Lemma nf_cache_sim : forall v, distinct_keys v -> nf_cache v = ro (option_map mj_cache) (unm_cache v).
Proof.
  intros v D. destruct v; try reflexivity.
  - cbn [nf_cache unm_cache ro ret option_map]. rewrite (cache_json_eq (negb b) "" [] "" []) by constructor. destruct b; reflexivity.
  - cbn [nf_cache unm_cache]. rewrite ro_bind, strs_seq_sim.
    destruct (mapM unm_string l) as [ss ?|]; cbn [ro obind ret option_map]; [|reflexivity].
    rewrite cache_json_eq by constructor. reflexivity.
  - cbn [nf_cache unm_cache]. cbv zeta. pose proof (dk_nodup _ D) as N.
    set (p := partition_keys struct_Cache l).
    rewrite ro_bind. rewrite <- (first_key_1 "disabled"), <- f_cache_disabled. fold p.
    assert (E : match field "Disabled" p with
                | Some GNull | None => Some false
                | Some (GBool b) => Some b
                | Some _ => None
                end = ro (fun b => b) (opt_field "Disabled" p false unm_bool)).
    { unfold opt_field. destruct (field "Disabled" p) as [x|]; [destruct x|]; reflexivity. }
    rewrite E. clear E.
    destruct (opt_field "Disabled" p false unm_bool) as [d ?|]; cbn [ro obind]; [|reflexivity].
    rewrite ro_bind. rewrite <- (first_key_1 "name"), <- f_cache_name. fold p. rewrite str_at_sim.
    destruct (opt_field "Name" p "" unm_string) as [n ?|]; cbn [ro obind]; [|reflexivity].
    rewrite ro_bind. rewrite <- (first_key_1 "paths"), <- f_cache_paths. fold p. rewrite strs_at_sim.
    destruct (opt_field "Paths" p None unm_strings) as [ps ?|]; cbn [ro obind]; [|reflexivity].
    rewrite ro_bind. rewrite <- (first_key_1 "size"), <- f_cache_size. fold p. rewrite str_at_sim.
    destruct (opt_field "Size" p "" unm_string) as [sz ?|]; cbn [ro obind ret option_map]; [|reflexivity].
    rewrite cache_json_eq by (apply leftover_nodup; exact N).
    f_equal. f_equal. destruct d; [reflexivity|]. f_equal.
    unfold p. rewrite leftover_drop, consumed_cache. apply drop_ext. plain_keys.
Qed.

(** ------------------------------------------------------------------ *)
(** * 4. Command steps *)

Lemma entry_at_sim : forall {T U} (f : gv -> option U) (g : gv -> res T) (h : T -> U) d name p,
  (forall v, field name p = Some v -> f v = ro h (g v)) ->
  entry_at f (h d) (field name p) = ro h (opt_field name p d g).
Proof.
  intros T U f g h d name p H. unfold entry_at, opt_field.
  destruct (field name p) as [v|]; [apply H; reflexivity|reflexivity].
Qed.

Lemma consumed_outer : forall m,
  DecodeProofs.consumed (partition_keys struct_CommandStep_UnmarshalOrdered_anon0 m) =
  picked_key (pick "commands" ["command"] m).
Proof.
  intros. rewrite consumed_closed.
  transitivity (picked_key (pick "commands" ["command"] m) ++ []); [reflexivity|apply app_nil_r].
Qed.

Lemma consumed_cmd : forall m,
  DecodeProofs.consumed (partition_keys struct_CommandStep m) =
  picked_key (pick "key" ["id"; "identifier"] m) ++ picked_key (pick "label" ["name"] m) ++
  picked_key (pick "command" [""] m) ++ picked_key (pick "plugins" [""] m) ++ picked_key (pick "env" [""] m) ++
  picked_key (pick "signature" [""] m) ++ picked_key (pick "matrix" [""] m) ++ picked_key (pick "cache" [""] m) ++ [].
Proof. intros. rewrite consumed_closed. reflexivity. Qed.

Lemma field_dk : forall name fields m v,
  distinct_keys (GMap m) -> field name (partition_keys fields m) = Some v -> distinct_keys v.
Proof. intros name fields m v D F. apply field_in in F. destruct F as [k F]. eapply dk_in; eassumption. Qed.

Theorem nf_command_sim : forall m, distinct_keys (GMap m) -> nf_command m = ro mj_command (unm_command m).
Proof.
  intros m D. unfold nf_command, unm_command. cbv zeta.
  set (outer := partition_keys struct_CommandStep_UnmarshalOrdered_anon0 m).
  assert (E1 : drop (picked_key (pick "commands" ["command"] m)) m = leftover outer).
  { unfold outer. rewrite leftover_drop, consumed_outer. reflexivity. }
  rewrite E1.
  assert (D1 : distinct_keys (GMap (leftover outer))) by (rewrite <- E1; apply dk_drop; exact D).
  pose proof (dk_nodup _ D1) as N1.
  set (m1 := leftover outer) in *.
  set (p := partition_keys struct_CommandStep m1).
  assert (E0 : option_map snd (pick "commands" ["command"] m) = field "Commands" outer).
  { rewrite pick_first_key. unfold outer. rewrite f_outer_commands. reflexivity. }
  assert (Ek : option_map snd (pick "key" ["id"; "identifier"] m1) = field "Key" p).
  { rewrite pick_first_key. unfold p. rewrite f_cmd_key. reflexivity. }
  assert (El : option_map snd (pick "label" ["name"] m1) = field "Label" p).
  { rewrite pick_first_key. unfold p. rewrite f_cmd_label. reflexivity. }
  assert (Ec : aget "command" m1 = field "Command" p) by (unfold p; rewrite f_cmd_command, first_key_1; reflexivity).
  assert (Ep : aget "plugins" m1 = field "Plugins" p) by (unfold p; rewrite f_cmd_plugins, first_key_1; reflexivity).
  assert (Ee : aget "env" m1 = field "Env" p) by (unfold p; rewrite f_cmd_env, first_key_1; reflexivity).
  assert (Es : aget "signature" m1 = field "Signature" p) by (unfold p; rewrite f_cmd_sig, first_key_1; reflexivity).
  assert (Em : aget "matrix" m1 = field "Matrix" p) by (unfold p; rewrite f_cmd_matrix, first_key_1; reflexivity).
  assert (Ea : aget "cache" m1 = field "Cache" p) by (unfold p; rewrite f_cmd_cache, first_key_1; reflexivity).
  rewrite E0, Ek, El, Ec, Ep, Ee, Es, Em, Ea.
  rewrite ro_bind, strs_at_sim.
  destruct (opt_field "Commands" outer None unm_strings) as [cmds ?|]; cbn [ro obind]; [|reflexivity].
  rewrite ro_bind, str_at_sim.
  destruct (opt_field "Key" p "" unm_string) as [k ?|]; cbn [ro obind]; [|reflexivity].
  rewrite ro_bind, str_at_sim.
  destruct (opt_field "Label" p "" unm_string) as [lb ?|]; cbn [ro obind]; [|reflexivity].
  rewrite ro_bind, str_at_sim.
  destruct (opt_field "Command" p "" unm_string) as [c0 ?|]; cbn [ro obind]; [|reflexivity].
  rewrite ro_bind.
  pose proof (entry_at_sim nf_plugins unm_plugins (map mj_plugin) [] "Plugins" p) as X; cbn [map option_map] in X; cbv beta in X;
    rewrite X by (intros; apply nf_plugins_sim); clear X.
  destruct (opt_field "Plugins" p [] unm_plugins) as [pl ?|]; cbn [ro obind]; [|reflexivity].
  rewrite ro_bind.
  pose proof (entry_at_sim nf_env unm_map_ss (fun e => e) [] "Env" p) as X; cbn [map option_map] in X; cbv beta in X;
    rewrite X by (intros; apply nf_env_sim); clear X.
  destruct (opt_field "Env" p [] unm_map_ss) as [e ?|]; cbn [ro obind]; [|reflexivity].
  rewrite ro_bind.
  pose proof (entry_at_sim nf_signature unm_sig (option_map mj_sig) None "Signature" p) as X; cbn [map option_map] in X; cbv beta in X;
    rewrite X by (intros; apply nf_signature_sim); clear X.
  destruct (opt_field "Signature" p None unm_sig) as [sg ?|]; cbn [ro obind]; [|reflexivity].
  rewrite ro_bind.
  pose proof (entry_at_sim nf_matrix unm_matrix (option_map mj_matrix) None "Matrix" p) as X; cbn [map option_map] in X; cbv beta in X;
    rewrite X by (intros v Fv; apply nf_matrix_sim; eapply field_dk; eassumption); clear X.
  destruct (opt_field "Matrix" p None unm_matrix) as [mx ?|]; cbn [ro obind]; [|reflexivity].
  rewrite ro_bind.
  pose proof (entry_at_sim nf_cache unm_cache (option_map mj_cache) None "Cache" p) as X; cbn [map option_map] in X; cbv beta in X;
    rewrite X by (intros v Fv; apply nf_cache_sim; eapply field_dk; eassumption); clear X.
  destruct (opt_field "Cache" p None unm_cache) as [ca ?|]; cbn [ro obind ret]; [|reflexivity].
  f_equal. rewrite mj_command_ol. cbn [cs_rem].
  rewrite nf_obj_eq; [|apply nodupb_sound; reflexivity|apply drop_nodup; exact N1].
  f_equal.
  - unfold cmd_ol. cbn [cs_key cs_label cs_command cs_plugins cs_env cs_sig cs_matrix cs_cache].
    rewrite join_newline. destruct pl; reflexivity.
  - unfold p. rewrite leftover_drop, consumed_cmd. apply drop_ext. plain_keys.
Qed.

(** ------------------------------------------------------------------ *)
(** * 5. Steps *)

Lemma consumed_group : forall m,
  DecodeProofs.consumed (partition_keys struct_GroupStep m) =
  picked_key (pick "key" ["id"; "identifier"] m) ++ picked_key (pick "group" ["label"; "name"] m) ++
  picked_key (pick "steps" [""] m) ++ [].
Proof. intros. rewrite consumed_closed. reflexivity. Qed.

Lemma group_sim : forall rec nfrec m,
  distinct_keys (GMap m) ->
  (forall v, distinct_keys v -> nfrec v = ro (map mj_step) (rec v)) ->
  (let key := pick "key" ["id"; "identifier"] m in
   let group := pick "group" ["label"; "name"] m in
   obind (str_at (option_map snd key)) (fun ks =>
   obind (match option_map snd group with
          | None | Some GNull => Some JNull
          | Some v => obind (str_of v) (fun s => Some (JStr s))
          end) (fun gr =>
   obind (entry_at nfrec [] (aget "steps" m)) (fun ss =>
   Some (nf_obj [("key", str_entry ks); ("group", Some gr); ("steps", Some (JArr ss))]
                (drop (picked_key key ++ picked_key group ++ ["steps"]) m))))))
  = ro mj_step (group_body rec m).
Proof.
  intros rec nfrec m D Hrec. cbv zeta. unfold group_body. cbv zeta.
  pose proof (dk_nodup _ D) as N.
  set (p := partition_keys struct_GroupStep m).
  assert (Ek : option_map snd (pick "key" ["id"; "identifier"] m) = field "Key" p).
  { rewrite pick_first_key. unfold p. rewrite f_grp_key. reflexivity. }
  assert (Eg : option_map snd (pick "group" ["label"; "name"] m) = field "Group" p).
  { rewrite pick_first_key. unfold p. rewrite f_grp_group. reflexivity. }
  assert (Es : aget "steps" m = field "Steps" p) by (unfold p; rewrite f_grp_steps, first_key_1; reflexivity).
  rewrite Ek, Eg, Es.
  rewrite ro_bind, str_at_sim.
  destruct (opt_field "Key" p "" unm_string) as [k ?|]; cbn [ro obind]; [|reflexivity].
  rewrite ro_bind.
  assert (E : match field "Group" p with
              | Some GNull | None => Some JNull
              | Some v => obind (str_of v) (fun s => Some (JStr s))
              end = ro (fun g => match g with Some x => JStr x | None => JNull end)
                       (match field "Group" p with
                        | Some GNull => ret None
                        | Some v => do s <- unm_string v; ret (Some s)
                        | None => ret None
                        end)).
  { destruct (field "Group" p) as [v|]; [|reflexivity].
    destruct v; try reflexivity; rewrite ro_bind, str_of_sim; destruct (unm_string _); reflexivity. }
  rewrite E. clear E.
  match goal with |- context [ro _ ?r] => destruct r as [gr ?|] end; cbn [ro obind]; [|reflexivity].
  rewrite ro_bind.
  pose proof (entry_at_sim nfrec rec (map mj_step) [] "Steps" p) as X; cbn [map] in X.
  rewrite X by (intros v Fv; apply Hrec; eapply field_dk; eassumption). clear X.
  destruct (opt_field "Steps" p [] rec) as [ss ?|]; cbn [ro obind ret]; [|reflexivity].
  f_equal. rewrite mj_group_ol.
  rewrite nf_obj_eq; [|apply nodupb_sound; reflexivity|apply drop_nodup; exact N].
  f_equal. unfold p. rewrite leftover_drop, consumed_group. apply drop_ext. plain_keys.
Qed.

Lemma kind_by_keys_nil : kind_by_keys [] = KUnknown ErrStepTypeInference.
Proof. reflexivity. Qed.

Lemma typed_sim : forall f m k,
  distinct_keys (GMap m) -> m <> [] ->
  (forall v, distinct_keys v -> nf_steps f v = ro (map mj_step) (unm_steps f v)) ->
  Some (match k with
        | KUnknown _ => gv_json (GMap m)
        | KCommand => match nf_command m with Some j => j | None => gv_json (GMap m) end
        | KWait | KInput | KTrigger => contents_json m
        | KGroup =>
            let key := pick "key" ["id"; "identifier"] m in
            let group := pick "group" ["label"; "name"] m in
            match (obind (str_at (option_map snd key)) (fun ks =>
                   obind (match option_map snd group with
                          | None | Some GNull => Some JNull
                          | Some v => obind (str_of v) (fun s => Some (JStr s))
                          end) (fun gr =>
                   obind (entry_at (nf_steps f) [] (aget "steps" m)) (fun ss =>
                   Some (nf_obj [("key", str_entry ks); ("group", Some gr); ("steps", Some (JArr ss))]
                                (drop (picked_key key ++ picked_key group ++ ["steps"]) m)))))) with
            | Some j => j
            | None => gv_json (GMap m)
            end
        end) = ro mj_step (typed_body (unm_steps f) m k).
Proof.
  intros f m k D Hne Hrec. destruct k; cbn [typed_body].
  - rewrite nf_command_sim by exact D. destruct (unm_command m); reflexivity.
  - destruct m; [congruence|reflexivity].
  - reflexivity.
  - destruct m; [congruence|reflexivity].
  - pose proof (group_sim (unm_steps f) (nf_steps f) m D Hrec) as G. cbv zeta in G. cbv zeta. rewrite G.
    destruct (group_body (unm_steps f) m); reflexivity.
  - reflexivity.
Qed.

Lemma scalar_step_sim : forall s,
  Some (JStr s) = ro mj_step (match kind_of_scalar s with
                              | KWait => ret (SWait s [])
                              | KInput => ret (SInput s [])
                              | _ => warn1 (SUnknown (GStr s))
                              end).
Proof.
  intros s. destruct (String.eqb_spec s "") as [->|N]; [reflexivity|].
  apply String.eqb_neq in N.
  destruct (kind_of_scalar s); cbn [ro ret warn1 mj_step gv_json]; rewrite ?N; reflexivity.
Qed.

Lemma steps_sim : forall f,
  (forall g, distinct_keys g -> nf_steps f g = ro (map mj_step) (unm_steps f g)) /\
  (forall g, distinct_keys g -> nf_step f g = ro mj_step (unm_step f g)).
Proof.
  induction f as [|f [IH1 IH2]]; [split; intros; reflexivity|].
  split; intros g D.
  - rewrite unm_steps_S. destruct g; try reflexivity. cbn [nf_steps].
    apply all_some_mapM. intros x Hx. apply IH2. eapply dk_seq_in; eassumption.
  - rewrite unm_step_S. destruct g; try reflexivity.
    + cbn [nf_step step_body]. apply scalar_step_sim.
    + cbn [nf_step step_body]. cbv zeta. unfold kind_of_mapping.
      destruct (aget "type" l) as [t|] eqn:T.
      * destruct t; try reflexivity. cbn [obind]. apply typed_sim; [exact D| |exact IH1].
        intros ->. discriminate T.
      * cbn [obind]. destruct l as [|e r].
        -- reflexivity.
        -- apply typed_sim; [exact D|discriminate|exact IH1].
Qed.

(** ------------------------------------------------------------------ *)
(** * 6. The document *)

Lemma consumed_pipeline : forall m,
  DecodeProofs.consumed (partition_keys struct_Pipeline m) =
  picked_key (pick "steps" [""] m) ++ picked_key (pick "env" [""] m) ++ [].
Proof. intros. rewrite consumed_closed. reflexivity. Qed.

Lemma nf_env_block_sim : forall v, nf_env_block v = ro (option_map mj_env_block) (unm_env_block v).
Proof.
  intros v. destruct v; try reflexivity. cbn [nf_env_block unm_env_block]. rewrite ro_bind.
  rewrite (all_some_mapM _ (fun kv : string * gv => do s <- unm_string (snd kv); ret (fst kv, s))
             (fun kv => (fst kv, JStr (snd kv)))).
  - destruct (mapM _ l); reflexivity.
  - intros [k x] _. cbn [fst snd]. rewrite ro_bind, str_of_sim. destruct (unm_string x); reflexivity.
Qed.

Theorem nf_doc_sim : forall f d, distinct_keys d -> nf_doc f d = ro mj_pipeline (parse f d).
Proof.
  intros f d D. destruct d; try reflexivity.
  - cbn [nf_doc parse]. rewrite ro_bind. rewrite (proj1 (steps_sim f) _ D).
    destruct (unm_steps f (GSeq l)); reflexivity.
  - cbn [nf_doc parse]. cbv zeta. pose proof (dk_nodup _ D) as N.
    set (p := partition_keys struct_Pipeline l).
    assert (Es : aget "steps" l = field "Steps" p) by (unfold p; rewrite f_pp_steps, first_key_1; reflexivity).
    assert (Ee : aget "env" l = field "Env" p) by (unfold p; rewrite f_pp_env, first_key_1; reflexivity).
    rewrite Es, Ee. rewrite ro_bind.
    assert (E : entry_at (nf_steps f) [] (field "Steps" p) =
                ro (fun ss => map mj_step (match ss with Some x => x | None => [] end))
                   (match field "Steps" p with Some v => do x <- unm_steps f v; ret (Some x) | None => ret None end)).
    { destruct (field "Steps" p) as [v|] eqn:Fv; [|reflexivity]. cbn [entry_at].
      rewrite ro_bind, (proj1 (steps_sim f) v) by (eapply field_dk; eassumption).
      destruct (unm_steps f v); reflexivity. }
    rewrite E. clear E.
    destruct (match field "Steps" p with Some v => _ | None => _ end) as [ss ?|]; cbn [ro obind]; [|reflexivity].
    rewrite ro_bind.
    pose proof (entry_at_sim nf_env_block unm_env_block (option_map mj_env_block) None "Env" p) as X;
      cbn [option_map] in X. rewrite X by (intros; apply nf_env_block_sim). clear X.
    destruct (opt_field "Env" p None unm_env_block) as [e ?|]; cbn [ro obind ret]; [|reflexivity].
    f_equal. rewrite mj_pipeline_ol. cbn [pp_rem].
    rewrite nf_obj_eq; [|apply nodupb_sound; reflexivity|apply drop_nodup; exact N].
    f_equal. unfold p. rewrite leftover_drop, consumed_pipeline. apply drop_ext. plain_keys.
Qed.

Lemma depth_eq : forall g, depth g = gv_depth g.
Proof.
  induction g using gv_ind'; try reflexivity; cbn [depth gv_depth]; f_equal.
  all: induction l as [|x r IH]; [reflexivity|]; inversion H; subst; cbn [fold_right];
       rewrite IH by assumption; match goal with E : _ = _ |- _ => rewrite E end; reflexivity.
Qed.

(** ------------------------------------------------------------------ *)
(** * 7. json.Marshal fails exactly when a non-finite float reaches the output *)

Lemma z_to_string_nonempty : forall z, String.eqb (z_to_string z) "" = false.
Proof.
  intros z. destruct (String.eqb_spec (z_to_string z) "") as [E|]; [|reflexivity].
  pose proof (int_token_z z) as T. rewrite E in T. discriminate T.
Qed.

Lemma forallb_perm : forall {A} (f : A -> bool) l l', Permutation l l' -> forallb f l = forallb f l'.
Proof.
  intros A f l l' P. induction P; cbn [forallb]; try congruence.
  destruct (f x), (f y); reflexivity.
Qed.

Lemma forallb_map : forall {A B} (f : B -> bool) (g : A -> B) l, forallb f (map g l) = forallb (fun x => f (g x)) l.
Proof. intros. induction l as [|x r IH]; [reflexivity|]. cbn [map forallb]. rewrite IH. reflexivity. Qed.

Lemma forallb_ext_in : forall {A} (f g : A -> bool) l, (forall x, In x l -> f x = g x) -> forallb f l = forallb g l.
Proof.
  intros A f g l H. induction l as [|x r IH]; [reflexivity|]. cbn [forallb].
  rewrite (H x (or_introl eq_refl)), IH; [reflexivity|]. intros y Hy. apply H. right. exact Hy.
Qed.

Lemma jf_sorted : forall l, json_finite (JObj (sort_keys l)) = forallb (fun kv => json_finite (snd kv)) l.
Proof. intros l. cbn [json_finite]. apply forallb_perm. apply sort_keys_perm. Qed.

Lemma jf_gv : forall g, json_finite (gv_json g) = gv_finite g.
Proof.
  induction g using gv_ind'; try reflexivity.
  - cbn [gv_json json_finite gv_finite]. rewrite z_to_string_nonempty. reflexivity.
  - cbn [gv_json json_finite gv_finite]. rewrite forallb_map. apply forallb_ext_in.
    intros x Hx. rewrite Forall_forall in H. apply H. exact Hx.
  - cbn [gv_json json_finite gv_finite]. rewrite forallb_map. apply forallb_ext_in.
    intros x Hx. rewrite Forall_forall in H. cbn [snd]. apply H. exact Hx.
  - cbn [gv_json gv_finite]. rewrite jf_sorted, forallb_map. apply forallb_ext_in.
    intros x Hx. rewrite Forall_forall in H. cbn [snd]. apply H. exact Hx.
Qed.

Definition entry_finite (e : string * option json) : bool :=
  match snd e with Some j => json_finite j | None => true end.

Lemma drop_disjoint : forall ks (m : list (string * gv)),
  (forall k, In k ks -> ~ In k (map fst m)) -> drop ks m = m.
Proof.
  intros ks m H. rewrite <- (drop_nil m) at 2. apply drop_ext. intros k I.
  destruct (Kinds.mem k ks) eqn:M; [|reflexivity]. apply mem_In in M. exfalso. exact (H k M I).
Qed.

(** an object with typed members: finite iff the typed members and the catch-all are *)
Lemma jf_inline : forall ol rem,
  NoDup (map fst ol) -> NoDup (map fst rem) -> (forall k, In k (map fst ol) -> ~ In k (map fst rem)) ->
  json_finite (inline_friendly (compact ol) rem) = forallb entry_finite ol && rem_finite rem.
Proof.
  intros ol rem No Nr Dj. rewrite <- nf_obj_eq by assumption. unfold nf_obj. fold (compact ol).
  rewrite jf_sorted, forallb_app. rewrite drop_disjoint by (intros k I; apply Dj; apply compact_keys; exact I).
  f_equal.
  - clear. induction ol as [|[k [j|]] r IH]; [reflexivity| |]; cbn [compact flat_map snd fst app forallb entry_finite];
      fold (compact r); rewrite IH; reflexivity.
  - rewrite forallb_map. unfold rem_finite. apply forallb_ext_in. intros x _. apply jf_gv.
Qed.

(** what a decoded struct leaves for the catch-all: distinct keys, none of the primary keys *)
Definition rem_lt (schema : list string) (rem : list (string * gv)) : Prop :=
  NoDup (map fst rem) /\ forall k, In k schema -> ~ In k (map fst rem).

Lemma leftover_rem_lt : forall fields m schema,
  NoDup (map fst m) -> (forall k, In k schema -> exists al, In (k, al) (ktab fields)) ->
  rem_lt schema (leftover (partition_keys fields m)).
Proof.
  intros fields m schema N HS. split.
  - apply leftover_nodup. exact N.
  - intros k Hk. destruct (HS k Hk) as [al Hal]. eapply primary_not_leftover. exact Hal.
Qed.

Lemma jf_jstrs : forall l, json_finite (jstrs l) = true.
Proof. intros l. unfold jstrs. cbn [json_finite]. rewrite forallb_map. apply forallb_forall. reflexivity. Qed.

Lemma jf_map_ss : forall l, json_finite (mj_map_ss l) = true.
Proof. intros l. unfold mj_map_ss. rewrite jf_sorted, forallb_map. apply forallb_forall. reflexivity. Qed.

Lemma jf_plugin : forall p, json_finite (mj_plugin p) = gv_finite (pl_config p).
Proof.
  intros p. rewrite mj_plugin_eq. cbn [json_finite forallb snd]. rewrite andb_true_r.
  destruct (plugin_cfg_spec (pl_config p)) as [E|[E [C|C]]]; rewrite E; [apply jf_gv| |]; rewrite C; reflexivity.
Qed.

Lemma jf_sig : forall s, json_finite (mj_sig s) = true.
Proof.
  intros s. unfold mj_sig. cbn [json_finite forallb snd]. destruct (sg_fields s); [rewrite jf_jstrs|]; reflexivity.
Qed.

Lemma jf_with : forall w, json_finite (mj_with w) = true.
Proof.
  intros [l|]; [|apply jf_map_ss]. unfold mj_with. destruct l as [|[k v] [|]]; try apply jf_map_ss.
  destruct (String.eqb k ""); [reflexivity|apply jf_map_ss].
Qed.

Lemma jf_setup : forall su, json_finite (mj_setup su) = true.
Proof.
  intros [l|]; [|reflexivity]. unfold mj_setup. destruct l as [|e r]; [reflexivity|].
  destruct (setup_anon (e :: r)); [apply jf_jstrs|].
  rewrite jf_sorted, forallb_map. apply forallb_forall. intros [k o] _. cbn [snd].
  destruct o; [apply jf_jstrs|reflexivity].
Qed.

Lemma empty_finite : forall g, is_empty_any g = true -> gv_finite g = true.
Proof.
  intros g H. destruct g; try reflexivity; discriminate H.
Qed.

Lemma jf_adj : forall a, match a with Some a => rem_lt adj_schema (ma_rem a) | None => True end ->
  json_finite (mj_adj a) = adj_ok a.
Proof.
  intros [a|] H; [|reflexivity]. destruct H as [N Dj]. rewrite mj_adj_eq.
  rewrite jf_inline; [|apply nodupb_sound; reflexivity|exact N|exact Dj].
  unfold adj_ol, adj_ok. cbn [forallb entry_finite snd]. rewrite jf_with, andb_true_r. cbn [andb].
  f_equal. destruct (is_empty_any (ma_skip a)) eqn:E; [symmetry; apply empty_finite; exact E|apply jf_gv].
Qed.

Definition matrix_lt (m : matrix) : Prop :=
  Forall (fun a => match a with Some a => rem_lt adj_schema (ma_rem a) | None => True end) (mx_adj m) /\
  rem_lt matrix_schema (mx_rem m).

Lemma jf_matrix : forall m, matrix_lt m -> json_finite (mj_matrix m) = matrix_ok m.
Proof.
  intros m [Ha [N Dj]]. unfold matrix_ok.
  assert (A : forallb json_finite (map mj_adj (mx_adj m)) =
              forallb (fun a => match a with
                                | Some a => gv_finite (ma_skip a) && rem_finite (ma_rem a)
                                | None => true end) (mx_adj m)).
  { rewrite forallb_map. apply forallb_ext_in. intros a Hin. rewrite Forall_forall in Ha.
    rewrite (jf_adj a (Ha a Hin)). reflexivity. }
  destruct (mx_simple m) as [vs|] eqn:S.
  - unfold mj_matrix. rewrite S. rewrite mx_simple_eq in S.
    destruct (mx_adj m); [|discriminate S]. destruct (mx_rem m); [|discriminate S]. apply jf_jstrs.
  - rewrite mj_matrix_eq by exact S.
    rewrite jf_inline; [|apply nodupb_sound; reflexivity|exact N|exact Dj].
    unfold matrix_ol. cbn [forallb entry_finite snd]. rewrite jf_setup, andb_true_r. cbn [andb].
    rewrite andb_comm. f_equal. rewrite <- A. destruct (mx_adj m); reflexivity.
Qed.

Definition cache_lt (c : cache) : Prop := rem_lt cache_primary (ca_rem c).

Lemma jf_cache : forall c, cache_lt c -> json_finite (mj_cache c) = ca_disabled c || rem_finite (ca_rem c).
Proof.
  intros c [N Dj]. destruct (ca_disabled c) eqn:Dd; [unfold mj_cache; rewrite Dd; reflexivity|].
  rewrite mj_cache_eq by exact Dd.
  rewrite jf_inline; [|apply nodupb_sound; reflexivity|exact N|].
  - unfold cache_ol. cbn [forallb entry_finite snd].
    destruct (String.eqb (ca_name c) ""), (ca_paths c) eqn:P, (String.eqb (ca_size c) "");
      unfold entry_finite; cbn [forallb snd json_finite andb orb]; rewrite ?jf_jstrs; reflexivity.
  - intros k Hk. apply Dj. unfold cache_ol in Hk. cbn [map fst In] in Hk. unfold cache_primary.
    destruct Hk as [<-|[<-|[<-|[]]]]; in_lit.
Qed.

Definition adj_lt (a : option madj) : Prop :=
  match a with Some a => rem_lt adj_schema (ma_rem a) | None => True end.
Definition omatrix_lt (o : option matrix) : Prop := match o with Some m => matrix_lt m | None => True end.
Definition ocache_lt (o : option cache) : Prop := match o with Some c => cache_lt c | None => True end.
Definition cmd_lt (c : command_step) : Prop :=
  rem_lt cmd_primary (cs_rem c) /\ omatrix_lt (cs_matrix c) /\ ocache_lt (cs_cache c).

Lemma rem_lt_nil : forall schema, rem_lt schema [].
Proof. intros. split; [constructor|intros k _ []]. Qed.

Lemma lt_unm_adj : forall g, distinct_keys g -> res_all adj_lt (unm_adj g).
Proof.
  intros g D. unfold unm_adj. destruct g; try all_err; [exact I|].
  cbv zeta. skipb. apply all_ret. cbn [adj_lt ma_rem].
  apply leftover_rem_lt; [apply dk_nodup; exact D|]. intros k Hk. rewrite kt_adj. unfold adj_schema in Hk. cbn [In] in Hk.
  destruct Hk as [<-|[<-|[]]]; eexists; in_lit.
Qed.

Lemma lt_unm_adjs : forall g, distinct_keys g -> res_all (Forall adj_lt) (unm_adjs g).
Proof.
  intros g D. unfold unm_adjs. destruct g; try all_err; [constructor|].
  apply all_mapM_P. intros x Hx. apply lt_unm_adj. eapply dk_seq_in; eassumption.
Qed.

Lemma lt_unm_matrix : forall g, distinct_keys g -> res_all omatrix_lt (unm_matrix g).
Proof.
  intros g D. unfold unm_matrix. destruct g; try all_err; [exact I| |].
  - skipb. apply all_ret. split; [constructor|apply rem_lt_nil].
  - cbv zeta. skipb.
    apply all_bind with (P := Forall adj_lt).
    { apply all_opt_field; [constructor|]. intros v F. apply lt_unm_adjs. eapply field_dk; eassumption. }
    intros ad Had. apply all_ret. split; [exact Had|]. cbn [mx_rem].
    apply leftover_rem_lt; [apply dk_nodup; exact D|]. intros k Hk. rewrite kt_matrix. unfold matrix_schema in Hk. cbn [In] in Hk.
    destruct Hk as [<-|[<-|[]]]; eexists; in_lit.
Qed.

Lemma lt_unm_cache : forall g, distinct_keys g -> res_all ocache_lt (unm_cache g).
Proof.
  intros g D. unfold unm_cache. destruct g; try all_err; [exact I| | | |].
  - apply all_ret. apply rem_lt_nil.
  - apply all_ret. apply rem_lt_nil.
  - skipb. apply all_ret. apply rem_lt_nil.
  - cbv zeta. skipb. skipb. skipb. skipb. apply all_ret. cbn [ocache_lt cache_lt ca_rem].
    apply leftover_rem_lt; [apply dk_nodup; exact D|]. intros k Hk. rewrite kt_cache. unfold cache_primary in Hk. cbn [In] in Hk.
    destruct Hk as [<-|[<-|[<-|[<-|[]]]]]; eexists; in_lit.
Qed.

Lemma lt_unm_command : forall m, distinct_keys (GMap m) -> res_all cmd_lt (unm_command m).
Proof.
  intros m D. unfold unm_command. cbv zeta.
  set (outer := partition_keys struct_CommandStep_UnmarshalOrdered_anon0 m).
  assert (Do : distinct_keys (GMap (leftover outer))).
  { unfold outer. rewrite leftover_drop. apply dk_drop. exact D. }
  set (p := partition_keys struct_CommandStep (leftover outer)).
  skipb. skipb. skipb. skipb. skipb. skipb. skipb.
  apply all_bind with (P := omatrix_lt).
  { apply all_opt_field; [exact I|]. intros v F. apply lt_unm_matrix. eapply field_dk; eassumption. }
  intros mx Hmx.
  apply all_bind with (P := ocache_lt).
  { apply all_opt_field; [exact I|]. intros v F. apply lt_unm_cache. eapply field_dk; eassumption. }
  intros ca Hca. apply all_ret.
  unfold cmd_lt. cbn [cs_rem cs_matrix cs_cache].
  split; [|split; [exact Hmx|exact Hca]].
  split.
  - apply leftover_nodup. apply dk_nodup. exact Do.
  - intros k Hk I. unfold cmd_primary in Hk. cbn [In] in Hk.
    destruct Hk as [<-|Hk].
    + assert (I' : In "commands" (map fst (leftover outer))).
      { apply in_map_iff in I. destruct I as (kv & E & I). apply leftover_incl in I.
        apply in_map_iff. exists kv. split; assumption. }
      revert I'. apply (primary_not_leftover _ m "commands" ["command"]). rewrite kt_outer. in_lit.
    + revert I. unfold p.
      repeat (destruct Hk as [<-|Hk];
              [eapply primary_not_leftover; rewrite kt_cmd; in_lit|]). destruct Hk.
Qed.

Lemma jf_command : forall c, cmd_lt c -> json_finite (mj_command c) = command_ok c.
Proof.
  intros c ([N Dj] & Hm & Hc). rewrite mj_command_ol.
  rewrite jf_inline; [|apply nodupb_sound; reflexivity|exact N|].
  2:{ intros k Hk. apply Dj. unfold cmd_ol in Hk. cbn [map fst In] in Hk. unfold cmd_primary.
      repeat (destruct Hk as [<-|Hk]; [in_lit|]). destruct Hk. }
  unfold command_ok.
  assert (P : entry_finite ("plugins", ne_opt (cs_plugins c) (JArr (map mj_plugin (cs_plugins c)))) =
              forallb (fun p => gv_finite (pl_config p)) (cs_plugins c)).
  { unfold entry_finite, ne_opt. cbn [snd]. destruct (cs_plugins c) as [|x r] eqn:E; [reflexivity|].
    cbn [json_finite]. rewrite forallb_map. apply forallb_ext_in. intros y _. apply jf_plugin. }
  assert (M : entry_finite ("matrix", option_map mj_matrix (cs_matrix c)) =
              match cs_matrix c with Some m => matrix_ok m | None => true end).
  { unfold entry_finite. cbn [snd]. destruct (cs_matrix c) as [m|]; [apply jf_matrix; exact Hm|reflexivity]. }
  assert (C : entry_finite ("cache", option_map mj_cache (cs_cache c)) =
              match cs_cache c with Some x => ca_disabled x || rem_finite (ca_rem x) | None => true end).
  { unfold entry_finite. cbn [snd]. destruct (cs_cache c) as [x|]; [apply jf_cache; exact Hc|reflexivity]. }
  assert (K : forall k s, entry_finite (k, str_opt s) = true).
  { intros k s. unfold entry_finite, str_opt. cbn [snd]. destruct (String.eqb s ""); reflexivity. }
  assert (E : entry_finite ("env", ne_opt (cs_env c) (mj_map_ss (cs_env c))) = true).
  { unfold entry_finite, ne_opt. cbn [snd]. destruct (cs_env c); [reflexivity|apply jf_map_ss]. }
  assert (S : entry_finite ("signature", option_map mj_sig (cs_sig c)) = true).
  { unfold entry_finite. cbn [snd]. destruct (cs_sig c); [apply jf_sig|reflexivity]. }
  unfold cmd_ol. cbn [forallb]. rewrite !K, P, E, S, M, C.
  change (entry_finite ("command", Some (JStr (cs_command c)))) with true.
  cbn [andb]. rewrite andb_true_r.
  destruct (forallb _ (cs_plugins c)), (rem_finite (cs_rem c)),
    (match cs_matrix c with Some m => matrix_ok m | None => true end),
    (match cs_cache c with Some x => ca_disabled x || rem_finite (ca_rem x) | None => true end); reflexivity.
Qed.

Lemma fin_command : forall m, distinct_keys (GMap m) ->
  res_all (fun c => json_finite (mj_command c) = command_ok c) (unm_command m).
Proof.
  intros m D. pose proof (lt_unm_command m D) as H. destruct (unm_command m); [|exact I].
  apply jf_command. exact H.
Qed.

Lemma jf_contents : forall m, json_finite (mj_contents m) = rem_finite m.
Proof. intros m. unfold mj_contents. rewrite jf_gv. reflexivity. Qed.

Lemma jf_group : forall key gr ss rem, rem_lt group_primary rem ->
  json_finite (mj_step (SGroup key gr ss rem)) = forallb json_finite (map mj_step ss) && rem_finite rem.
Proof.
  intros key gr ss rem [N Dj]. rewrite mj_group_ol.
  rewrite jf_inline; [|apply nodupb_sound; reflexivity|exact N|exact Dj].
  f_equal. unfold group_ol, entry_finite, str_opt. cbn [forallb snd].
  destruct (String.eqb key ""), gr; cbn [json_finite andb]; rewrite andb_true_r; reflexivity.
Qed.

Lemma fin_step_body : forall rec g,
  distinct_keys g ->
  (forall v, distinct_keys v -> res_all (fun ss => forallb json_finite (map mj_step ss) = forallb step_ok ss) (rec v)) ->
  res_all (fun s => json_finite (mj_step s) = step_ok s) (step_body rec g).
Proof.
  intros rec g D Hrec. destruct (step_body rec g) as [s w|] eqn:E; [|exact I].
  cbn [res_all]. apply step_body_inv in E.
  assert (T : forall m k, g = GMap m -> (k = KInput -> m <> []) -> typed_shape rec m k s w ->
                          json_finite (mj_step s) = step_ok s).
  { intros m k Hm Hne Hs. subst g.
    destruct Hs as [Hs ?|c ? Hc Hs ?|? Hs ?|Hk Hs ?|? Hs ?|key gr ss Hk Hs Hf]; subst s.
    - apply jf_gv.
    - cbn [mj_step step_ok]. exact (all_ok _ _ _ _ (fin_command m D) Hc).
    - cbn [mj_step step_ok negb orb]. change (String.eqb "" "") with true. cbn [negb orb].
      destruct m; [reflexivity|apply jf_contents].
    - cbn [mj_step step_ok]. change (String.eqb "" "") with true. cbn [negb orb].
      rewrite jf_contents. specialize (Hne Hk). destruct m; [congruence|reflexivity].
    - cbn [mj_step step_ok]. destruct m; [reflexivity|apply jf_contents].
    - rewrite jf_group.
      + cbn [step_ok]. f_equal.
        destruct (field "Steps" (partition_keys struct_GroupStep m)) as [v|] eqn:F.
        * exact (all_ok _ _ _ _ (Hrec v (field_dk _ _ _ _ D F)) Hf).
        * destruct Hf; subst; reflexivity.
      + apply leftover_rem_lt; [apply dk_nodup; exact D|]. intros k0 Hk0. rewrite kt_group.
        unfold group_primary in Hk0. cbn [In] in Hk0. destruct Hk0 as [<-|[<-|[<-|[]]]]; eexists; in_lit. }
  destruct E as [str Hs Hk Hst Hw|str Hs Hk Hst Hw|str Hs Hst Hw|m t Hm Ht Hs|m Hm Ht Hs].
  - subst. cbn [mj_step step_ok rem_finite forallb]. rewrite orb_true_r.
    destruct (negb (String.eqb str "")); reflexivity.
  - subst. cbn [mj_step step_ok]. rewrite (scalar_input_nonempty _ Hk). reflexivity.
  - subst. apply jf_gv.
  - eapply T; [exact Hm| |exact Hs]. intros _ Hn. subst m. discriminate.
  - eapply T; [exact Hm| |exact Hs]. intros Hk Hn. subst m. vm_compute in Hk. discriminate.
Qed.

Lemma all_mapM_fin : forall {T} (f : T -> res step) l,
  (forall x, In x l -> res_all (fun s => json_finite (mj_step s) = step_ok s) (f x)) ->
  res_all (fun ss => forallb json_finite (map mj_step ss) = forallb step_ok ss) (mapM f l).
Proof.
  intros T f l. induction l as [|x r IH]; intros H; cbn [mapM]; [reflexivity|].
  eapply all_bind; [apply H; left; reflexivity|intros y Hy].
  eapply all_bind; [apply IH; intros z Hz; apply H; right; exact Hz|intros ys Hys].
  apply all_ret. cbn [map forallb]. rewrite Hy, Hys. reflexivity.
Qed.

Lemma fin_steps : forall f,
  (forall g, distinct_keys g ->
     res_all (fun ss => forallb json_finite (map mj_step ss) = forallb step_ok ss) (unm_steps f g)) /\
  (forall g, distinct_keys g -> res_all (fun s => json_finite (mj_step s) = step_ok s) (unm_step f g)).
Proof.
  induction f as [|f [IH1 IH2]]; [split; intros; exact I|].
  split; intros g D.
  - rewrite unm_steps_S. destruct g; try all_err.
    + reflexivity.
    + apply all_mapM_fin. intros x Hx. apply IH2. eapply dk_seq_in; eassumption.
  - rewrite unm_step_S. apply fin_step_body; assumption.
Qed.

Lemma jf_env_block : forall e, json_finite (mj_env_block e) = true.
Proof. intros e. unfold mj_env_block. cbn [json_finite]. rewrite forallb_map. apply forallb_forall. reflexivity. Qed.

Lemma jf_pipeline : forall p, rem_lt pipeline_primary (pp_rem p) ->
  json_finite (mj_pipeline p) = forallb json_finite (map mj_step (pp_steps p)) && rem_finite (pp_rem p).
Proof.
  intros p [N Dj]. rewrite mj_pipeline_ol.
  rewrite jf_inline; [|apply nodupb_sound; reflexivity|exact N|exact Dj].
  f_equal. unfold pp_ol, entry_finite. cbn [forallb snd json_finite].
  destruct (pp_env p); cbn [option_map]; rewrite ?jf_env_block, !andb_true_r; reflexivity.
Qed.

Theorem fin_parse : forall f d p w, distinct_keys d -> parse f d = Ok p w ->
  json_finite (mj_pipeline p) = pipeline_ok p.
Proof.
  intros f d p w D H. apply parse_inv in H. unfold pipeline_ok.
  destruct H as [[l [ss [Hl [H Hp]]]]|[m [Hm [Hr H]]]]; subst d.
  - subst p. rewrite jf_pipeline by apply rem_lt_nil. cbn [pp_steps pp_rem]. f_equal.
    exact (all_ok _ _ _ _ (proj1 (fin_steps f) _ D) H).
  - rewrite jf_pipeline.
    + f_equal. destruct (field "Steps" (partition_keys struct_Pipeline m)) as [v|] eqn:F.
      * exact (all_ok _ _ _ _ (proj1 (fin_steps f) v (field_dk _ _ _ _ D F)) H).
      * destruct H as [H _]. rewrite H. reflexivity.
    + rewrite Hr. apply leftover_rem_lt; [apply dk_nodup; exact D|]. intros k Hk. rewrite kt_pipeline.
      unfold pipeline_primary in Hk. cbn [In] in Hk. destruct Hk as [<-|[<-|[]]]; eexists; in_lit.
Qed.

(** ------------------------------------------------------------------ *)
(** * 8. MAIN: the normal form is what Parse ; Marshal computes *)

Theorem parse_marshal_nf : forall d, wf_doc d ->
  (match parse_doc d with Ok p _ => marshal_json p | Err => None end) = nf d.
Proof.
  intros d D. unfold nf, parse_doc. change (depth d) with (gv_depth d). rewrite nf_doc_sim by exact D.
  destruct (parse (S (gv_depth d)) d) as [p w|] eqn:E; cbn [ro obind]; [|reflexivity].
  unfold marshal_json. rewrite (fin_parse _ _ _ _ D E). reflexivity.
Qed.

Corollary parse_marshal_nf_doc_ok : forall d, doc_ok d -> composite d = nf d.
Proof. intros d W. apply parse_marshal_nf. apply gv_wf_distinct_keys. exact W. Qed.

(** ------------------------------------------------------------------ *)
(** * 9. Nothing the schema does not name is lost *)

Lemma nf_command_keeps : forall sm cj, distinct_keys (GMap sm) -> nf_command sm = Some cj ->
  forall k v, In (k, v) sm -> ~ In k command_schema_keys -> aget k (members cj) = Some (gv_json v).
Proof.
  intros sm cj D H k v I Hk. rewrite nf_command_sim in H by exact D.
  destruct (unm_command sm) as [c w|] eqn:E; [|discriminate H]. cbn [ro] in H. inversion H; subst cj.
  eapply command_unknown_keys_survive; [apply dk_nodup; exact D|exact E|exact I|exact Hk].
Qed.

Lemma verbatim_keeps : forall sm k v, NoDup (map fst sm) -> In (k, v) sm ->
  aget k (members (gv_json (GMap sm))) = Some (gv_json v).
Proof.
  intros sm k v N I. cbn [gv_json members]. rewrite aget_map. rewrite (in_aget k v sm N I). reflexivity.
Qed.

(** For a mapping document with distinct keys: every top-level key other than
    `steps` / `env` is in the normal form with its value verbatim; and for every
    command-step mapping of `steps`, every key that is not a command schema key
    or alias is in that step's object with its value verbatim. *)
Theorem nf_keeps_unknown_keys : forall m j,
  wf_doc (GMap m) -> nf (GMap m) = Some j ->
  (forall k v, In (k, v) m -> k <> "steps" -> k <> "env" ->
     aget k (members j) = Some (gv_json v)) /\
  (forall l, aget "steps" m = Some (GSeq l) ->
     exists js, aget "steps" (members j) = Some (JArr js) /\
       Forall2 (fun s sj => forall sm, s = GMap sm -> kind_of_mapping sm = Some KCommand ->
                  forall k v, In (k, v) sm -> ~ In k command_schema_keys ->
                    aget k (members sj) = Some (gv_json v)) l js).
Proof.
  intros m j D H. pose proof (dk_nodup _ D) as N. split.
  - intros k v I K1 K2. rewrite <- parse_marshal_nf in H by exact D.
    destruct (parse_doc (GMap m)) as [p w|] eqn:E; [|discriminate H].
    unfold marshal_json in H. destruct (pipeline_ok p); [|discriminate H]. inversion H; subst j.
    eapply pipeline_unknown_keys_survive; [exact N|exact E|exact I|exact K1|exact K2].
  - intros l Hs. unfold nf in H.
    destruct (nf_doc (S (depth (GMap m))) (GMap m)) as [j'|] eqn:E; cbn [obind] in H; [|discriminate H].
    destruct (json_finite j'); [|discriminate H]. inversion H; subst j'. clear H.
    cbn [nf_doc] in E. rewrite Hs in E. cbn [entry_at nf_steps] in E.
    destruct (all_some (nf_step (depth (GMap m))) l) as [ss|] eqn:A; cbn [obind] in E; [|discriminate E].
    destruct (entry_at nf_env_block None (aget "env" m)) as [env|]; cbn [obind] in E; [|discriminate E].
    inversion E; subst j. clear E. exists ss. split.
    + rewrite nf_obj_members; [reflexivity|apply nodupb_sound; reflexivity|apply drop_nodup; exact N].
    + apply all_some_Forall2 in A.
      assert (Dl : distinct_keys (GSeq l)) by (eapply dk_aget; eassumption).
      apply dk_seq in Dl. clear Hs. induction A as [|x y l' ss' Hxy A IH]; [constructor|].
      inversion Dl; subst. constructor; [|apply IH; assumption].
      intros sm -> Kd k v I Hk.
      destruct (depth (GMap m)) as [|F]; [discriminate Hxy|].
      cbn [nf_step] in Hxy. cbv zeta in Hxy. rewrite Kd in Hxy. cbn [obind] in Hxy. inversion Hxy; subst y. clear Hxy.
      destruct (nf_command sm) as [cj|] eqn:C.
      * eapply nf_command_keeps; eassumption.
      * apply verbatim_keeps; [apply dk_nodup; assumption|exact I].
Qed.

(** ------------------------------------------------------------------ *)
(** * 10. Sanity run (made before proving), non-vacuity, and why distinct keys are required *)

Definition ojson_eqb (a b : option json) : bool :=
  match a, b with
  | Some x, Some y => sexp_eqb (json_sexp x) (json_sexp y)
  | None, None => true
  | _, _ => false
  end.
Definition agree (d : gv) : bool := ojson_eqb (composite d) (nf d).

Definition cmd (l : list (string * gv)) : gv := GMap (("command", GStr "x") :: l).
Definition samples : list gv :=
  [ GSeq [];
    GNull;
    GStr "x";
    GMap [];
    GMap [("steps", GNull)];
    GMap [("env", GMap [("A", GInt 1%Z); ("B", GNull); ("C", GBool true)]); ("zz", GSeq [GInt 1%Z]); ("aa", GMap [("b", GNull); ("a", GNull)])];
    GMap [("steps", GSeq [GStr "wait"; GStr "block"; GStr "foo"; GStr ""]); ("env", GNull)];
    GMap [("steps", GInt 3%Z)];
    GMap [("steps", GSeq [GInt 3%Z])];
    GMap [("steps", GSeq []); ("env", GSeq [])];
    GSeq [GMap [("commands", GSeq [GStr "a"; GInt 2%Z; GNull; GBool false]); ("name", GStr "N"); ("id", GStr "I"); ("identifier", GStr "J"); ("zzz", GBool true)]];
    GSeq [GMap [("commands", GStr "a"); ("command", GStr "b"); ("key", GNull); ("id", GStr "I"); ("label", GStr "L"); ("name", GStr "N")]];
    GSeq [GMap [("commands", GStr "a"); ("command", GSeq [GStr "b"])]];
    GSeq [GMap [("command", GSeq [GStr "b"; GSeq []])]];
    GSeq [cmd [("plugins", GMap [("docker#v1", GMap []); ("a/b#v2", GMap [("z", GInt 1%Z); ("a", GMap [("y", GNull); ("b", GSeq [GMap [("q", GNull); ("p", GNull)]])])]); ("./local", GSeq []); ("x", GNull)])]];
    GSeq [cmd [("plugins", GSeq [GStr "docker"; GMap [("ecr#v1", GMap [("k", GStr "v")]); ("two", GNull)]; GStr "https://x/y"])]];
    GSeq [cmd [("plugins", GSeq [GInt 1%Z])]];
    GSeq [cmd [("plugins", GStr "docker")]];
    GSeq [cmd [("plugins", GSeq [])]; cmd [("plugins", GNull)]; cmd [("plugins", GMap [])]];
    GSeq [cmd [("env", GMap [("B", GInt 1%Z); ("A", GFloat "1.5" "1.5"); ("C", GNull)])]; cmd [("env", GNull)]; cmd [("env", GMap [])]; cmd [("env", GSeq [])]; cmd [("env", GMap [("A", GSeq [])])]];
    GSeq [cmd [("signature", GMap [("value", GStr "v"); ("algorithm", GStr "a"); ("signed_fields", GSeq [GStr "command"]); ("extra", GInt 1%Z)])];
          cmd [("signature", GMap [])]; cmd [("signature", GMap [("signed_fields", GNull)])]; cmd [("signature", GMap [("signed_fields", GStr "x")])];
          cmd [("signature", GNull)]; cmd [("signature", GStr "x")]; cmd [("signature", GMap [("signed_fields", GMap [])])]];
    GSeq [cmd [("matrix", GSeq [GStr "a"; GStr "b"])]; cmd [("matrix", GSeq [GInt 1%Z; GBool true; GNull])]; cmd [("matrix", GSeq [])]; cmd [("matrix", GNull)]; cmd [("matrix", GStr "a")];
          cmd [("matrix", GMap [("setup", GSeq [GStr "a"])])]; cmd [("matrix", GMap [("setup", GSeq [GStr "a"]); ("zz", GInt 1%Z)])];
          cmd [("matrix", GMap [("setup", GMap [("os", GSeq [GStr "l"; GInt 2%Z]); ("arch", GStr "x"); ("n", GNull)]); ("adjustments", GSeq [GMap [("with", GMap [("os", GStr "l"); ("arch", GInt 3%Z)]); ("skip", GBool true); ("soft_fail", GBool true)]; GNull; GMap [("with", GStr "z"); ("skip", GBool false)]; GMap []; GMap [("with", GMap [("", GStr "q")])]; GMap [("with", GMap [])]])])];
          cmd [("matrix", GMap [("setup", GMap [("", GSeq [GStr "a"])])])]; cmd [("matrix", GMap [("setup", GMap [])])]; cmd [("matrix", GMap [("setup", GNull)])]; cmd [("matrix", GMap [])];
          cmd [("matrix", GMap [("adjustments", GSeq [GMap [("with", GMap [("a", GFloat "1.5" "1.5")])]])])]; cmd [("matrix", GMap [("adjustments", GNull)])]; cmd [("matrix", GMap [("adjustments", GInt 1%Z)])];
          cmd [("matrix", GMap [("setup", GSeq [GStr "a"]); ("adjustments", GSeq [])])]];
    GSeq [cmd [("cache", GStr "node_modules")]; cmd [("cache", GBool true)]; cmd [("cache", GBool false)]; cmd [("cache", GNull)]; cmd [("cache", GSeq [GStr "a"; GInt 1%Z])]; cmd [("cache", GSeq [])]; cmd [("cache", GInt 1%Z)];
          cmd [("cache", GMap [("paths", GStr "p"); ("name", GStr "n"); ("size", GInt 20%Z); ("zz", GNull); ("disabled", GNull)])];
          cmd [("cache", GMap [("paths", GSeq [GStr "p"]); ("disabled", GBool true); ("zz", GFloat "" "NaN")])];
          cmd [("cache", GMap [("disabled", GStr "yes")])]; cmd [("cache", GMap [])]];
    GSeq [GMap [("group", GStr "g"); ("steps", GSeq [GStr "wait"; GMap [("foo", GStr "bar")]; cmd []; GMap [("group", GNull); ("steps", GNull); ("id", GStr "k")]]); ("zz", GInt 1%Z); ("label", GStr "L")];
          GMap [("group", GStr "g"); ("steps", GInt 1%Z)]; GMap [("group", GStr "g"); ("steps", GSeq [GInt 1%Z])]; GMap [("group", GSeq [])]; GMap [("type", GStr "group"); ("name", GStr "n"); ("label", GStr "l")]; GMap [("group", GStr "g")]];
    GSeq [GMap [("wait", GNull); ("zz", GInt 1%Z); ("aa", GMap [("b", GNull); ("a", GNull)])]; GMap [("block", GStr "b")]; GMap [("trigger", GStr "t"); ("build", GMap [("z", GNull); ("a", GNull)])]; GMap [("type", GStr "wait")]; GMap [("type", GStr "nope")]; GMap [("foo", GNull)]; GMap []; GMap [("type", GStr "script"); ("label", GNull)]];
    GSeq [GMap [("type", GInt 1%Z)]];
    GSeq [cmd [("zz", GFloat "" "NaN")]];
    GSeq [cmd [("env", GMap [("A", GFloat "" "NaN")])]];
    GSeq [cmd [("plugins", GMap [("a", GMap [("k", GFloat "" "NaN")])])]];
    GSeq [cmd [("matrix", GMap [("adjustments", GSeq [GMap [("skip", GFloat "" "NaN")]])])]];
    GSeq [GMap [("wait", GFloat "" "NaN")]];
    GSeq [GMap [("key", GTime "2001-01-01T00:00:00Z"); ("command", GStr "x")]];
    GSeq [cmd [("zz", GUMap [("b", GMap [("z", GNull); ("a", GNull)]); ("a", GNull)]); ("plugins", GMap [("p", GUMap [("b", GMap [("z", GNull); ("a", GNull)]); ("a", GNull)]); ("q", GUMap [])])]];
    GMap [("steps", GSeq [GSeq []])];
    GSeq [GMap [("plugins", GMap [("x", GNull)])]; GMap [("commands", GNull)]; GMap [("command", GNull); ("key", GInt 5%Z); ("label", GBool true)]; GMap [("command", GMap [])]]
  ].

Example nf_agrees_on_samples : forallb agree samples = true.
Proof. vm_compute. reflexivity. Qed.

(** not all of them are errors *)
Example samples_mostly_succeed :
  length (filter (fun d => match nf d with Some _ => true | None => false end) samples) = 24.
Proof. vm_compute. reflexivity. Qed.

(** a bare list; a scalar step; a `commands` list; `name` / `id` aliases; plugins as a
    mapping and as a list with a string element; `matrix: [a, b]` and a long matrix;
    `cache: "node_modules"` and a cache mapping; env with an int value; a group with a
    nested unknown step; unknown keys in the steps, the matrix, its adjustment, the
    cache and the group *)
Definition demo : gv :=
  GSeq [ GStr "wait";
         GMap [("commands", GSeq [GStr "make"; GStr "make test"]);
               ("name", GStr "Build"); ("id", GStr "build");
               ("plugins", GMap [("docker#v5", GMap [("image", GStr "alpine")]); ("my-org/cache#v1", GMap [])]);
               ("env", GMap [("RETRIES", GInt 3%Z); ("CI", GBool true)]);
               ("matrix", GSeq [GStr "a"; GStr "b"]);
               ("cache", GStr "node_modules");
               ("timeout_in_minutes", GInt 10%Z);
               ("agents", GMap [("queue", GStr "default"); ("arch", GStr "arm")])];
         GMap [("command", GStr "lint");
               ("plugins", GSeq [GStr "shellcheck#v1"; GMap [("ecr#v2", GMap [("login", GBool true)])]]);
               ("matrix", GMap [("setup", GMap [("os", GSeq [GStr "linux"; GInt 7%Z])]);
                                ("adjustments", GSeq [GMap [("with", GMap [("os", GStr "mac")]); ("skip", GBool true);
                                                            ("note", GStr "n")]]);
                                ("why", GStr "because")]);
               ("cache", GMap [("paths", GSeq [GStr "vendor"]); ("size", GStr "20g"); ("compress", GBool true)])];
         GMap [("group", GStr "Tests"); ("identifier", GStr "g1");
               ("steps", GSeq [GMap [("mystery", GInt 1%Z); ("zeta", GNull)]; GStr "block"]);
               ("depends_on", GStr "build")] ].

Definition demo_nf : json :=
  JObj [("steps", JArr [
    JStr "wait";
    JObj [("agents", JObj [("queue", JStr "default"); ("arch", JStr "arm")]);
          ("cache", JObj [("paths", JArr [JStr "node_modules"])]);
          ("command", JStr ("make" ++ newline ++ "make test"));
          ("env", JObj [("CI", JStr "true"); ("RETRIES", JStr "3")]);
          ("key", JStr "build");
          ("label", JStr "Build");
          ("matrix", JArr [JStr "a"; JStr "b"]);
          ("plugins", JArr [JObj [("github.com/buildkite-plugins/docker-buildkite-plugin#v5", JObj [("image", JStr "alpine")])];
                            JObj [("github.com/my-org/cache-buildkite-plugin#v1", JNull)]]);
          ("timeout_in_minutes", JNum "10")];
    JObj [("cache", JObj [("compress", JBool true); ("paths", JArr [JStr "vendor"]); ("size", JStr "20g")]);
          ("command", JStr "lint");
          ("matrix", JObj [("adjustments", JArr [JObj [("note", JStr "n"); ("skip", JBool true);
                                                      ("with", JObj [("os", JStr "mac")])]]);
                           ("setup", JObj [("os", JArr [JStr "linux"; JStr "7"])]);
                           ("why", JStr "because")]);
          ("plugins", JArr [JObj [("github.com/buildkite-plugins/shellcheck-buildkite-plugin#v1", JNull)];
                            JObj [("github.com/buildkite-plugins/ecr-buildkite-plugin#v2", JObj [("login", JBool true)])]])];
    JObj [("depends_on", JStr "build");
          ("group", JStr "Tests");
          ("key", JStr "g1");
          ("steps", JArr [JObj [("mystery", JNum "1"); ("zeta", JNull)]; JStr "block"])]])].

Example nf_demo : nf demo = Some demo_nf /\ composite demo = Some demo_nf.
Proof. split; vm_compute; reflexivity. Qed.

(** a mapping document: absent `steps` is [], the env block keeps its order, every
    other top-level key is kept *)
Definition demo_mapping : gv :=
  GMap [("env", GMap [("B", GInt 1%Z); ("A", GStr "x")]); ("notify", GSeq [GMap [("slack", GStr "#ci")]]);
        ("agents", GMap [("queue", GStr "q")])].
Definition demo_mapping_nf : json :=
  JObj [("agents", JObj [("queue", JStr "q")]);
        ("env", JObj [("B", JStr "1"); ("A", JStr "x")]);
        ("notify", JArr [JObj [("slack", JStr "#ci")]]);
        ("steps", JArr [])].
Example nf_demo_mapping : nf demo_mapping = Some demo_mapping_nf /\ composite demo_mapping = Some demo_mapping_nf.
Proof. split; vm_compute; reflexivity. Qed.

(** the theorems apply to the demos *)
Ltac nd := apply nodupb_sound; vm_compute; reflexivity.
Example demo_wf : wf_doc demo /\ wf_doc demo_mapping.
Proof. split; unfold wf_doc; cbn [demo demo_mapping distinct_keys map fst snd]; repeat split; try nd; exact I. Qed.

(** [wf_doc] cannot be dropped: a struct-decoded mapping goes through a Go map, where a
    repeated key is written once (the last value); the normal form would write it twice.
    (yaml.v3 rejects such documents before Parse sees them.) *)
Example distinct_keys_needed_top :
  let d := GMap [("steps", GSeq []); ("zz", GInt 1%Z); ("zz", GInt 2%Z)] in
  composite d = Some (JObj [("steps", JArr []); ("zz", JNum "2")]) /\
  nf d = Some (JObj [("steps", JArr []); ("zz", JNum "1"); ("zz", JNum "2")]).
Proof. split; vm_compute; reflexivity. Qed.
Example distinct_keys_needed_step :
  let d := GSeq [GMap [("command", GStr "x"); ("zz", GInt 1%Z); ("zz", GInt 2%Z)]] in
  composite d = Some (JObj [("steps", JArr [JObj [("command", JStr "x"); ("zz", JNum "2")]])]) /\
  nf d = Some (JObj [("steps", JArr [JObj [("command", JStr "x"); ("zz", JNum "1"); ("zz", JNum "2")]])]).
Proof. split; vm_compute; reflexivity. Qed.
(** ... and it is needed below the step level too (matrix, adjustment, cache, group) *)
Example distinct_keys_needed_nested :
  forallb (fun d => negb (agree d))
    [ GSeq [GMap [("command", GStr "x"); ("matrix", GMap [("setup", GSeq [GStr "a"]); ("zz", GInt 1%Z); ("zz", GInt 2%Z)])]];
      GSeq [GMap [("command", GStr "x");
                  ("matrix", GMap [("adjustments", GSeq [GMap [("with", GStr "a"); ("zz", GInt 1%Z); ("zz", GInt 2%Z)]])])]];
      GSeq [GMap [("command", GStr "x"); ("cache", GMap [("zz", GInt 1%Z); ("zz", GInt 2%Z)])]];
      GSeq [GMap [("group", GStr "g"); ("zz", GInt 1%Z); ("zz", GInt 2%Z)]] ] = true.
Proof. vm_compute. reflexivity. Qed.

(** ------------------------------------------------------------------ *)
(** * 11. Where the behaviour (hence [nf], which mirrors it) is NOT what the property text
    says ("loses nothing ... every other key, at every depth of every step kind, appears
    exactly once, unchanged").  [nf] and the composite agree on all of them. *)

(** FINDING (signature): a key of a `signature` mapping other than algorithm / signed_fields /
    value is dropped (the Signature struct has no inline catch-all field). *)
Example signature_extra_key_lost_finding :
  let d := GSeq [GMap [("command", GStr "x");
                       ("signature", GMap [("algorithm", GStr "a"); ("value", GStr "v"); ("extra", GInt 1%Z)])]] in
  let out := JObj [("steps", JArr [JObj [("command", JStr "x");
                     ("signature", JObj [("algorithm", JStr "a"); ("signed_fields", JNull); ("value", JStr "v")])]])] in
  wf_doc d /\ composite d = Some out /\ nf d = Some out.
Proof.
  split; [|split; vm_compute; reflexivity].
  unfold wf_doc. cbn [distinct_keys map fst snd]. repeat split; try nd; exact I.
Qed.

(** FINDING (both command keys): with `commands` AND `command`, the value of `command` is
    dropped (it only has to be a scalar); the property text names both as sources of the text. *)
Example command_dropped_when_both_finding :
  let d := GSeq [GMap [("commands", GStr "a"); ("command", GStr "b")]] in
  let out := JObj [("steps", JArr [JObj [("command", JStr "a")]])] in
  wf_doc d /\ composite d = Some out /\ nf d = Some out.
Proof.
  split; [|split; vm_compute; reflexivity].
  unfold wf_doc. cbn [distinct_keys map fst snd]. repeat split; try nd; exact I.
Qed.
(** ... and when that `command` is a list the whole step is kept verbatim as an unknown step *)
Example command_list_when_both_unknown :
  let d := GSeq [GMap [("commands", GStr "a"); ("command", GSeq [GStr "b"])]] in
  let out := JObj [("steps", JArr [JObj [("commands", JStr "a"); ("command", JArr [JStr "b"])]])] in
  composite d = Some out /\ nf d = Some out.
Proof. split; vm_compute; reflexivity. Qed.

(** KNOWN (F12, outside the generated grammar): a cache mapping with `disabled: true` becomes
    [false]; its paths and every other key are dropped. *)
Example disabled_cache_drops_everything_finding :
  let d := GSeq [GMap [("command", GStr "x");
                       ("cache", GMap [("disabled", GBool true); ("paths", GSeq [GStr "p"]); ("zz", GInt 1%Z)])]] in
  let out := JObj [("steps", JArr [JObj [("cache", JBool false); ("command", JStr "x")]])] in
  composite d = Some out /\ nf d = Some out.
Proof. split; vm_compute; reflexivity. Qed.

Print Assumptions parse_marshal_nf.
Print Assumptions nf_keeps_unknown_keys.
