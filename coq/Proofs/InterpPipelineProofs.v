(** Interpolation of whole steps and whole pipelines (Model/Interp.v), lifting
    Proofs/InterpProofs.v from free-form values to every typed walker:

    after interpolation EVERY string of the pipeline - keys as well as values,
    at any depth, in every step kind and in unknown fields - is the single-pass
    expansion of the original string; the only exception is step signatures,
    which are left exactly as they were; and the call fails exactly when the
    expansion of one of those strings fails. *)
From Coq Require Import String List Ascii Bool Arith ZArith Lia Permutation Setoid.
From GP Require Import Model.Gv Model.Pipeline Model.Interp Proofs.InterpProofs.
Import ListNotations.
Local Open Scope string_scope.
Local Open Scope list_scope.

(** ------------------------------------------------------------------ *)
(** 1. the strings in scope (multisets, as lists up to Permutation).
    Each definition lists exactly what the walker of the same name visits. *)

(* a mapping: for each entry the key, then the strings of the value *)
Definition umap_strings {V} (fv : V -> list string) (l : list (string * V)) : list string :=
  concat (map (fun kv => fst kv :: fv (snd kv)) l).

Definition opt_strings {T} (f : T -> list string) (o : option T) : list string :=
  match o with None => [] | Some x => f x end.

(* unknown fields (map[string]any), map[string]string, MatrixSetup *)
Definition rem_strings : list (string * gv) -> list string := umap_strings gv_strings.
Definition ss_strings : list (string * string) -> list string := umap_strings (fun v => [v]).
Definition setup_strings : list (string * option (list string)) -> list string :=
  umap_strings (opt_strings (fun l => l)).

Definition plugin_strings (p : plugin) : list string := pl_source p :: gv_strings (pl_config p).

(* interp_adj: a nil adjustment is skipped; else with-map keys and values, skip, unknown fields *)
Definition adj_strings (a : option madj) : list string :=
  match a with
  | None => []
  | Some a => opt_strings ss_strings (ma_with a) ++ gv_strings (ma_skip a) ++ rem_strings (ma_rem a)
  end.

(* interp_matrix: setup (dimension names, value lists when non-nil), adjustments, unknown fields *)
Definition matrix_strings (m : matrix) : list string :=
  opt_strings setup_strings (mx_setup m) ++ concat (map adj_strings (mx_adj m)) ++ rem_strings (mx_rem m).

(* interp_cache: name, paths, size, unknown fields; not the boolean *)
Definition cache_strings (c : cache) : list string :=
  ca_name c :: ca_paths c ++ ca_size c :: rem_strings (ca_rem c).

(* interp_command: everything except cs_sig *)
Definition command_strings (c : command_step) : list string :=
  cs_command c :: cs_label c :: cs_key c ::
  concat (map plugin_strings (cs_plugins c)) ++ ss_strings (cs_env c) ++
  opt_strings matrix_strings (cs_matrix c) ++ opt_strings cache_strings (cs_cache c) ++
  rem_strings (cs_rem c).

(* interp_step; the scalar form of wait/input ("wait", "input" ...) is not visited *)
Fixpoint step_strings (s : step) : list string :=
  match s with
  | SCommand c => command_strings c
  | SWait _ ct => rem_strings ct
  | SInput _ ct => rem_strings ct
  | STrigger ct => rem_strings ct
  | SGroup k g ss rem =>
      k :: opt_strings (fun x => [x]) g ++ concat (map step_strings ss) ++ rem_strings rem
  | SUnknown c => gv_strings c
  end.

(* interp_pipeline_rest: steps and unknown top-level fields (the env block: C10) *)
Definition pipeline_rest_strings (p : pipeline) : list string :=
  concat (map step_strings (pp_steps p)) ++ rem_strings (pp_rem p).

(** the signatures of every command step, in order, at every depth *)
Fixpoint step_sigs (s : step) : list (option signature) :=
  match s with
  | SCommand c => [cs_sig c]
  | SGroup _ _ ss _ => concat (map step_sigs ss)
  | _ => []
  end.
Definition pipeline_sigs (p : pipeline) : list (option signature) := concat (map step_sigs (pp_steps p)).

Definition opt_prop {T} (P : T -> Prop) (o : option T) : Prop :=
  match o with None => True | Some x => P x end.

Section InterpPipeline.
  Variable expand : string -> option string.

  (** ---------------------------------------------------------------- *)
  (** 2. the side condition.

      A mapping whose keys are interpolated is rebuilt under the new keys.  If two
      entries of ONE mapping get the same expanded key, the rebuilt mapping holds
      only one of them (Go map: the entry with the greatest original key wins,
      InterpProofs.urename_collision; ordered map: Replace deletes the other one),
      so an entry - its key string and all strings of its value - disappears and
      the multiset statement cannot hold.  [keys_nc] excludes exactly that, per
      mapping level; it says nothing about keys of different mappings, about
      values, or about sequences, and it holds trivially where the expansion is
      injective on the keys present (e.g. keys without "$").
      For ordered maps inside free-form values the existing [no_collision] is
      used; it additionally excludes a key expanding to the original key of a
      LATER entry of the same ordered map (InterpProofs.omap_capture_counterexample).
      The typed maps of a step (env, matrix setup, adjustment with, unknown
      fields) are Go maps: distinct expanded keys is all that is asked. *)
  Definition keys_nc {V} (l : list (string * V)) : Prop := NoDup (map (fun kv => ex expand (fst kv)) l).

  Definition rem_nc (l : list (string * gv)) : Prop :=
    keys_nc l /\ Forall (fun kv => no_collision expand (snd kv)) l.
  Definition plugin_nc (p : plugin) : Prop := no_collision expand (pl_config p).
  Definition adj_nc (a : option madj) : Prop :=
    match a with
    | None => True
    | Some a => opt_prop keys_nc (ma_with a) /\ no_collision expand (ma_skip a) /\ rem_nc (ma_rem a)
    end.
  Definition matrix_nc (m : matrix) : Prop :=
    opt_prop keys_nc (mx_setup m) /\ Forall adj_nc (mx_adj m) /\ rem_nc (mx_rem m).
  Definition cache_nc (c : cache) : Prop := rem_nc (ca_rem c).
  Definition command_nc (c : command_step) : Prop :=
    Forall plugin_nc (cs_plugins c) /\ keys_nc (cs_env c) /\
    opt_prop matrix_nc (cs_matrix c) /\ opt_prop cache_nc (cs_cache c) /\ rem_nc (cs_rem c).

  Fixpoint step_no_collision (s : step) : Prop :=
    match s with
    | SCommand c => command_nc c
    | SWait _ ct => rem_nc ct
    | SInput _ ct => rem_nc ct
    | STrigger ct => rem_nc ct
    | SGroup _ _ ss rem =>
        (fix all (l : list step) : Prop :=
           match l with [] => True | x :: r => step_no_collision x /\ all r end) ss /\ rem_nc rem
    | SUnknown c => no_collision expand c
    end.

  Definition pipeline_no_collision (p : pipeline) : Prop :=
    Forall step_no_collision (pp_steps p) /\ rem_nc (pp_rem p).

  Definition all_step_nc : list step -> Prop :=
    fix all (l : list step) : Prop := match l with [] => True | x :: r => step_no_collision x /\ all r end.

  Lemma step_no_collision_group : forall k g ss rem,
    step_no_collision (SGroup k g ss rem) = (all_step_nc ss /\ rem_nc rem).
  Proof. reflexivity. Qed.

  Lemma all_step_nc_Forall : forall l, all_step_nc l <-> Forall step_no_collision l.
  Proof.
    induction l as [|x r IH].
    - split; intros _; [constructor|exact I].
    - change (all_step_nc (x :: r)) with (step_no_collision x /\ all_step_nc r). rewrite IH. split.
      + intros [H1 H2]. constructor; assumption.
      + intros H. inversion H; subst. split; assumption.
  Qed.

  Lemma step_strings_group : forall k g ss rem,
    step_strings (SGroup k g ss rem) =
    k :: opt_strings (fun x => [x]) g ++ concat (map step_strings ss) ++ rem_strings rem.
  Proof. reflexivity. Qed.

  (** ---------------------------------------------------------------- *)
  (** every string of a list expands *)

  Definition allok (l : list string) : Prop := forall s, In s l -> expand s <> None.

  Lemma allok_nil : allok [] <-> True.
  Proof. split; [trivial|intros _ s []]. Qed.

  Lemma allok_cons : forall x l, allok (x :: l) <-> expand x <> None /\ allok l.
  Proof.
    intros x l. split.
    - intros H. split; [apply H; left; reflexivity|intros s Hs; apply H; right; exact Hs].
    - intros [H1 H2] s [<-|Hs]; [exact H1|apply H2; exact Hs].
  Qed.

  Lemma allok_app : forall a b, allok (a ++ b) <-> allok a /\ allok b.
  Proof.
    intros a b. split.
    - intros H. split; intros s Hs; apply H; apply in_or_app; [left|right]; exact Hs.
    - intros [H1 H2] s Hs. apply in_app_or in Hs. destruct Hs as [Hs|Hs]; [apply H1|apply H2]; exact Hs.
  Qed.

  Lemma allok_concat_map : forall {T} (f : T -> list string) l,
    allok (concat (map f l)) <-> (forall x, In x l -> allok (f x)).
  Proof.
    intros T f l. split.
    - intros H x Hx s Hs. apply H. apply in_concat. exists (f x). split; [apply in_map; exact Hx|exact Hs].
    - intros H s Hs. apply in_concat in Hs. destruct Hs as (y & Hy & Hs).
      apply in_map_iff in Hy. destruct Hy as (x & <- & Hx). exact (H x Hx s Hs).
  Qed.

  Lemma ex_some : forall s x, expand s = Some x -> ex expand s = x.
  Proof. intros s x H. unfold ex. rewrite H. reflexivity. Qed.

  (** ---------------------------------------------------------------- *)
  (** generic walkers: lists, optional values, Go maps *)

  Lemma omapM_allok : forall {T U} (f : T -> option U) (sv : T -> list string) l,
    (forall x, In x l -> (f x <> None <-> allok (sv x))) ->
    (omapM f l <> None <-> allok (concat (map sv l))).
  Proof.
    intros T U f sv l H. rewrite omapM_ok_iff, allok_concat_map. split; intros G x Hx.
    - apply (proj1 (H x Hx)). apply G. exact Hx.
    - apply (proj2 (H x Hx)). apply G. exact Hx.
  Qed.

  Lemma omapM_strings : forall {T} (f : T -> option T) (sv : T -> list string) l l',
    omapM f l = Some l' ->
    Forall (fun x => forall x', f x = Some x' -> Permutation (sv x') (map (ex expand) (sv x))) l ->
    Permutation (concat (map sv l')) (map (ex expand) (concat (map sv l))).
  Proof.
    intros T f sv l l' H. apply omapM_Forall2 in H. induction H as [|x y r r' Hxy _ IH]; intros F.
    - apply Permutation_refl.
    - inversion F as [|? ? F1 F2]; subst. cbn [map concat]. rewrite map_app.
      apply Permutation_app; [apply F1; exact Hxy|apply IH; exact F2].
  Qed.

  Lemma opt_interp_ok_iff : forall {T} (f : T -> option T) (sv : T -> list string) o,
    (forall x, o = Some x -> (f x <> None <-> allok (sv x))) ->
    (opt_interp f o <> None <-> allok (opt_strings sv o)).
  Proof.
    intros T f sv o. destruct o as [x|]; cbn [opt_interp opt_strings]; intros H.
    - rewrite <- (H x eq_refl). destruct (f x); cbn [option_map]; split; congruence.
    - rewrite allok_nil. split; [trivial|congruence].
  Qed.

  Lemma opt_interp_strings : forall {T} (f : T -> option T) (sv : T -> list string) o o',
    opt_interp f o = Some o' ->
    (forall x x', o = Some x -> f x = Some x' -> Permutation (sv x') (map (ex expand) (sv x))) ->
    Permutation (opt_strings sv o') (map (ex expand) (opt_strings sv o)).
  Proof.
    intros T f sv o o'. destruct o as [x|]; cbn [opt_interp]; intros H G.
    - destruct (f x) as [x'|] eqn:E; cbn [option_map] in H; [|discriminate H]. injection H as <-.
      cbn [opt_strings]. exact (G x x' eq_refl E).
    - injection H as <-. apply Permutation_refl.
  Qed.

  Lemma uf_allok : forall {V} (fv : V -> option V) (sv : V -> list string) kv,
    (fv (snd kv) <> None <-> allok (sv (snd kv))) ->
    (uf expand fv kv <> None <-> allok (fst kv :: sv (snd kv))).
  Proof.
    intros V fv sv kv H. rewrite allok_cons, <- H. unfold uf.
    destruct (expand (fst kv)); [|intuition congruence].
    destruct (fv (snd kv)); intuition congruence.
  Qed.

  Lemma interp_umap_ok_iff : forall {V} (fv : V -> option V) (sv : V -> list string) l,
    (forall kv, In kv l -> (fv (snd kv) <> None <-> allok (sv (snd kv)))) ->
    (interp_umap expand fv l <> None <-> allok (umap_strings sv l)).
  Proof.
    intros V fv sv l H. rewrite interp_umap_eq. unfold umap_strings.
    rewrite <- (omapM_allok (uf expand fv) (fun kv => fst kv :: sv (snd kv)) l).
    - destruct (omapM (uf expand fv) l); split; congruence.
    - intros kv Hkv. apply uf_allok. apply H. exact Hkv.
  Qed.

  Lemma interp_umap_strings : forall {V} (fv : V -> option V) (sv : V -> list string) l l',
    interp_umap expand fv l = Some l' ->
    keys_nc l ->
    Forall (fun kv => forall v', fv (snd kv) = Some v' ->
                                 Permutation (sv v') (map (ex expand) (sv (snd kv)))) l ->
    Permutation (umap_strings sv l') (map (ex expand) (umap_strings sv l)).
  Proof.
    intros V fv sv l l' H Hn F. rewrite interp_umap_eq in H.
    destruct (omapM (uf expand fv) l) as [es|] eqn:E; [|discriminate H]. injection H as <-.
    apply omapM_Forall2 in E.
    destruct (urename_nocoll _ es) as (L & Pm & EL).
    { rewrite (uf_newkeys expand _ _ _ _ E). exact Hn. }
    rewrite EL. unfold umap_strings.
    eapply Permutation_trans; [apply perm_concat_map; apply Permutation_map; exact Pm|].
    clear L Pm EL Hn. induction E as [|kv e r r' Hke _ IH].
    - apply Permutation_refl.
    - inversion F as [|? ? F1 F2]; subst.
      apply uf_some in Hke. destruct Hke as (_ & E2 & E3).
      cbn [map concat fst snd]. rewrite map_app. cbn [map app].
      rewrite (ex_some _ _ E2). apply perm_skip.
      apply Permutation_app; [apply F1; exact E3|apply IH; exact F2].
  Qed.

  (** ---------------------------------------------------------------- *)
  (** the concrete maps *)

  Lemma interp_gv_allok : forall g, interp_gv expand g <> None <-> allok (gv_strings g).
  Proof. intros g. exact (interp_gv_ok_iff expand g). Qed.

  Lemma interp_rem_ok_iff : forall l, interp_rem expand l <> None <-> allok (rem_strings l).
  Proof. intros l. apply interp_umap_ok_iff. intros kv _. apply interp_gv_allok. Qed.

  Lemma interp_rem_strings : forall l l',
    interp_rem expand l = Some l' -> rem_nc l ->
    Permutation (rem_strings l') (map (ex expand) (rem_strings l)).
  Proof.
    intros l l' H [Hn Hf]. eapply interp_umap_strings; [exact H|exact Hn|].
    eapply Forall_impl; [|exact Hf]. intros kv Hnc v' Hv. apply interp_gv_strings; assumption.
  Qed.

  Lemma interp_ss_ok_iff : forall l, interp_umap expand expand l <> None <-> allok (ss_strings l).
  Proof. intros l. apply interp_umap_ok_iff. intros kv _. rewrite allok_cons, allok_nil. tauto. Qed.

  Lemma interp_ss_strings : forall l l',
    interp_umap expand expand l = Some l' -> keys_nc l ->
    Permutation (ss_strings l') (map (ex expand) (ss_strings l)).
  Proof.
    intros l l' H Hn. eapply interp_umap_strings; [exact H|exact Hn|].
    apply Forall_forall. intros kv _ v' Hv. cbn [map]. rewrite (ex_some _ _ Hv). apply Permutation_refl.
  Qed.

  Lemma interp_strs_ok_iff : forall l, interp_strs expand l <> None <-> allok l.
  Proof. intros l. exact (omapM_ok_iff expand l). Qed.

  Lemma interp_strs_eq : forall l l', interp_strs expand l = Some l' -> l' = map (ex expand) l.
  Proof.
    intros l l' H. apply omapM_Forall2 in H. induction H as [|x y r r' Hxy _ IH]; [reflexivity|].
    cbn [map]. rewrite (ex_some _ _ Hxy), IH. reflexivity.
  Qed.

  Definition interp_setup := interp_umap expand (opt_interp (interp_strs expand)).

  Lemma interp_setup_ok_iff : forall su, interp_setup su <> None <-> allok (setup_strings su).
  Proof.
    intros su. apply interp_umap_ok_iff. intros kv _. apply opt_interp_ok_iff.
    intros x _. apply interp_strs_ok_iff.
  Qed.

  Lemma interp_setup_strings : forall su su',
    interp_setup su = Some su' -> keys_nc su ->
    Permutation (setup_strings su') (map (ex expand) (setup_strings su)).
  Proof.
    intros su su' H Hn. eapply interp_umap_strings; [exact H|exact Hn|].
    apply Forall_forall. intros kv _ v' Hv. eapply opt_interp_strings; [exact Hv|].
    intros x x' _ Hx. rewrite (interp_strs_eq _ _ Hx). apply Permutation_refl.
  Qed.

  (** ---------------------------------------------------------------- *)
  (** plugins *)

  Lemma interp_plugin_ok_iff : forall p, interp_plugin expand p <> None <-> allok (plugin_strings p).
  Proof.
    intros p. unfold plugin_strings, interp_plugin. rewrite allok_cons, <- interp_gv_allok.
    destruct (expand (pl_source p)); [|intuition congruence].
    destruct (interp_gv expand (pl_config p)); intuition congruence.
  Qed.

  Lemma interp_plugin_strings : forall p p',
    interp_plugin expand p = Some p' -> plugin_nc p ->
    Permutation (plugin_strings p') (map (ex expand) (plugin_strings p)).
  Proof.
    intros p p' H Hn. unfold interp_plugin in H.
    destruct (expand (pl_source p)) as [s|] eqn:Es; [|discriminate H].
    destruct (interp_gv expand (pl_config p)) as [c|] eqn:Ec; [|discriminate H].
    injection H as <-. unfold plugin_strings. cbn [pl_source pl_config map].
    rewrite (ex_some _ _ Es). apply perm_skip. apply interp_gv_strings; assumption.
  Qed.

  (** ---------------------------------------------------------------- *)
  (** matrix adjustments *)

  Lemma interp_adj_some : forall a,
    interp_adj expand (Some a) =
    match opt_interp (interp_umap expand expand) (ma_with a), interp_gv expand (ma_skip a),
          interp_rem expand (ma_rem a) with
    | Some w, Some sk, Some r => Some (Some (mkMAdj w sk r))
    | _, _, _ => None
    end.
  Proof. reflexivity. Qed.

  Lemma interp_adj_ok_iff : forall a, interp_adj expand a <> None <-> allok (adj_strings a).
  Proof.
    intros [a|].
    - rewrite interp_adj_some. cbn [adj_strings]. rewrite !allok_app.
      rewrite <- (opt_interp_ok_iff (interp_umap expand expand) ss_strings (ma_with a))
        by (intros x _; apply interp_ss_ok_iff).
      rewrite <- interp_gv_allok, <- interp_rem_ok_iff.
      destruct (opt_interp (interp_umap expand expand) (ma_with a)); [|intuition congruence].
      destruct (interp_gv expand (ma_skip a)); [|intuition congruence].
      destruct (interp_rem expand (ma_rem a)); intuition congruence.
    - cbn [interp_adj adj_strings]. rewrite allok_nil. split; [trivial|congruence].
  Qed.

  Lemma interp_adj_strings : forall a a',
    interp_adj expand a = Some a' -> adj_nc a ->
    Permutation (adj_strings a') (map (ex expand) (adj_strings a)).
  Proof.
    intros [a|] a' H Hn.
    - rewrite interp_adj_some in H. cbn [adj_nc] in Hn. destruct Hn as (Hw & Hs & Hr).
      destruct (opt_interp (interp_umap expand expand) (ma_with a)) as [w|] eqn:Ew; [|discriminate H].
      destruct (interp_gv expand (ma_skip a)) as [sk|] eqn:Esk; [|discriminate H].
      destruct (interp_rem expand (ma_rem a)) as [r|] eqn:Er; [|discriminate H].
      injection H as <-. cbn [adj_strings ma_with ma_skip ma_rem]. rewrite !map_app.
      apply Permutation_app; [|apply Permutation_app].
      + eapply opt_interp_strings; [exact Ew|]. intros x x' Ex Hx. apply interp_ss_strings; [exact Hx|].
        rewrite Ex in Hw. exact Hw.
      + apply interp_gv_strings; assumption.
      + apply interp_rem_strings; assumption.
    - cbn [interp_adj] in H. injection H as <-. apply Permutation_refl.
  Qed.

  (** ---------------------------------------------------------------- *)
  (** matrix *)

  Lemma interp_matrix_eq : forall m,
    interp_matrix expand m =
    match opt_interp interp_setup (mx_setup m), omapM (interp_adj expand) (mx_adj m),
          interp_rem expand (mx_rem m) with
    | Some su, Some ad, Some r => Some (mkMx su ad r)
    | _, _, _ => None
    end.
  Proof. reflexivity. Qed.

  Lemma interp_matrix_ok_iff : forall m, interp_matrix expand m <> None <-> allok (matrix_strings m).
  Proof.
    intros m. rewrite interp_matrix_eq. unfold matrix_strings. rewrite !allok_app.
    rewrite <- (opt_interp_ok_iff interp_setup setup_strings (mx_setup m))
      by (intros x _; apply interp_setup_ok_iff).
    rewrite <- (omapM_allok (interp_adj expand) adj_strings (mx_adj m))
      by (intros x _; apply interp_adj_ok_iff).
    rewrite <- interp_rem_ok_iff.
    destruct (opt_interp interp_setup (mx_setup m)); [|intuition congruence].
    destruct (omapM (interp_adj expand) (mx_adj m)); [|intuition congruence].
    destruct (interp_rem expand (mx_rem m)); intuition congruence.
  Qed.

  Lemma interp_matrix_strings : forall m m',
    interp_matrix expand m = Some m' -> matrix_nc m ->
    Permutation (matrix_strings m') (map (ex expand) (matrix_strings m)).
  Proof.
    intros m m' H (Hs & Ha & Hr). rewrite interp_matrix_eq in H.
    destruct (opt_interp interp_setup (mx_setup m)) as [su|] eqn:Esu; [|discriminate H].
    destruct (omapM (interp_adj expand) (mx_adj m)) as [ad|] eqn:Ead; [|discriminate H].
    destruct (interp_rem expand (mx_rem m)) as [r|] eqn:Er; [|discriminate H].
    injection H as <-. unfold matrix_strings. cbn [mx_setup mx_adj mx_rem]. rewrite !map_app.
    apply Permutation_app; [|apply Permutation_app].
    - eapply opt_interp_strings; [exact Esu|]. intros x x' Ex Hx. apply interp_setup_strings; [exact Hx|].
      rewrite Ex in Hs. exact Hs.
    - eapply omapM_strings; [exact Ead|]. eapply Forall_impl; [|exact Ha].
      intros a Hna a' Ha'. apply interp_adj_strings; assumption.
    - apply interp_rem_strings; assumption.
  Qed.

  (** ---------------------------------------------------------------- *)
  (** cache *)

  Lemma interp_cache_ok_iff : forall c, interp_cache expand c <> None <-> allok (cache_strings c).
  Proof.
    intros c. unfold interp_cache, cache_strings. rewrite allok_cons, allok_app, allok_cons.
    rewrite <- interp_strs_ok_iff, <- interp_rem_ok_iff.
    destruct (expand (ca_name c)); [|intuition congruence].
    destruct (interp_strs expand (ca_paths c)); [|intuition congruence].
    destruct (expand (ca_size c)); [|intuition congruence].
    destruct (interp_rem expand (ca_rem c)); intuition congruence.
  Qed.

  Lemma interp_cache_strings : forall c c',
    interp_cache expand c = Some c' -> cache_nc c ->
    Permutation (cache_strings c') (map (ex expand) (cache_strings c)).
  Proof.
    intros c c' H Hn. unfold interp_cache in H.
    destruct (expand (ca_name c)) as [n|] eqn:En; [|discriminate H].
    destruct (interp_strs expand (ca_paths c)) as [p|] eqn:Ep; [|discriminate H].
    destruct (expand (ca_size c)) as [sz|] eqn:Es; [|discriminate H].
    destruct (interp_rem expand (ca_rem c)) as [r|] eqn:Er; [|discriminate H].
    injection H as <-. unfold cache_strings. cbn [ca_name ca_paths ca_size ca_rem].
    cbn [map]. rewrite map_app. cbn [map].
    rewrite (ex_some _ _ En), (ex_some _ _ Es), (interp_strs_eq _ _ Ep).
    apply perm_skip. apply Permutation_app; [apply Permutation_refl|]. apply perm_skip.
    apply interp_rem_strings; assumption.
  Qed.

  (** ---------------------------------------------------------------- *)
  (** command steps *)

  Lemma interp_command_ok_iff : forall c, interp_command expand c <> None <-> allok (command_strings c).
  Proof.
    intros c. unfold interp_command, command_strings. rewrite !allok_cons, !allok_app.
    rewrite <- (omapM_allok (interp_plugin expand) plugin_strings (cs_plugins c))
      by (intros x _; apply interp_plugin_ok_iff).
    rewrite <- interp_ss_ok_iff.
    rewrite <- (opt_interp_ok_iff (interp_matrix expand) matrix_strings (cs_matrix c))
      by (intros x _; apply interp_matrix_ok_iff).
    rewrite <- (opt_interp_ok_iff (interp_cache expand) cache_strings (cs_cache c))
      by (intros x _; apply interp_cache_ok_iff).
    rewrite <- interp_rem_ok_iff.
    destruct (expand (cs_command c)); [|intuition congruence].
    destruct (expand (cs_label c)); [|intuition congruence].
    destruct (omapM (interp_plugin expand) (cs_plugins c)); [|intuition congruence].
    destruct (expand (cs_key c)); [|intuition congruence].
    destruct (interp_umap expand expand (cs_env c)); [|intuition congruence].
    destruct (opt_interp (interp_matrix expand) (cs_matrix c)); [|intuition congruence].
    destruct (opt_interp (interp_cache expand) (cs_cache c)); [|intuition congruence].
    destruct (interp_rem expand (cs_rem c)); intuition congruence.
  Qed.

  Lemma interp_command_strings : forall c c',
    interp_command expand c = Some c' -> command_nc c ->
    Permutation (command_strings c') (map (ex expand) (command_strings c)).
  Proof.
    intros c c' H (Hp & He & Hm & Hc & Hr). unfold interp_command in H.
    destruct (expand (cs_command c)) as [cmd|] eqn:Ecmd; [|discriminate H].
    destruct (expand (cs_label c)) as [lbl|] eqn:Elbl; [|discriminate H].
    destruct (omapM (interp_plugin expand) (cs_plugins c)) as [pls|] eqn:Epls; [|discriminate H].
    destruct (expand (cs_key c)) as [key|] eqn:Ekey; [|discriminate H].
    destruct (interp_umap expand expand (cs_env c)) as [env|] eqn:Eenv; [|discriminate H].
    destruct (opt_interp (interp_matrix expand) (cs_matrix c)) as [mx|] eqn:Emx; [|discriminate H].
    destruct (opt_interp (interp_cache expand) (cs_cache c)) as [ca|] eqn:Eca; [|discriminate H].
    destruct (interp_rem expand (cs_rem c)) as [rem|] eqn:Erem; [|discriminate H].
    injection H as <-. unfold command_strings.
    cbn [cs_command cs_label cs_key cs_plugins cs_env cs_matrix cs_cache cs_rem].
    cbn [map]. rewrite !map_app.
    rewrite (ex_some _ _ Ecmd), (ex_some _ _ Elbl), (ex_some _ _ Ekey).
    do 3 apply perm_skip. repeat apply Permutation_app.
    - eapply omapM_strings; [exact Epls|]. eapply Forall_impl; [|exact Hp].
      intros p Hnp p' Hp'. apply interp_plugin_strings; assumption.
    - apply interp_ss_strings; assumption.
    - eapply opt_interp_strings; [exact Emx|]. intros x x' Ex Hx. apply interp_matrix_strings; [exact Hx|].
      rewrite Ex in Hm. exact Hm.
    - eapply opt_interp_strings; [exact Eca|]. intros x x' Ex Hx. apply interp_cache_strings; [exact Hx|].
      rewrite Ex in Hc. exact Hc.
    - apply interp_rem_strings; assumption.
  Qed.

  (** ---------------------------------------------------------------- *)
  (** 3. steps *)

  Lemma opt_str_ok_iff : forall g, opt_interp expand g <> None <-> allok (opt_strings (fun x => [x]) g).
  Proof.
    intros g. apply opt_interp_ok_iff. intros x _. rewrite allok_cons, allok_nil. tauto.
  Qed.

  Lemma opt_str_strings : forall g g',
    opt_interp expand g = Some g' ->
    Permutation (opt_strings (fun x => [x]) g') (map (ex expand) (opt_strings (fun x => [x]) g)).
  Proof.
    intros g g' H. eapply opt_interp_strings; [exact H|].
    intros x x' _ Hx. cbn [map]. rewrite (ex_some _ _ Hx). apply Permutation_refl.
  Qed.

  Lemma interp_step_allok : forall s, interp_step expand s <> None <-> allok (step_strings s).
  Proof.
    induction s as [c|sc ct|sc ct|ct|k g ss rem IH|c] using step_ind'.
    - cbn [interp_step step_strings]. rewrite <- interp_command_ok_iff.
      destruct (interp_command expand c); cbn [option_map]; split; congruence.
    - cbn [interp_step step_strings]. rewrite <- interp_rem_ok_iff.
      destruct (interp_rem expand ct); cbn [option_map]; split; congruence.
    - cbn [interp_step step_strings]. rewrite <- interp_rem_ok_iff.
      destruct (interp_rem expand ct); cbn [option_map]; split; congruence.
    - cbn [interp_step step_strings]. rewrite <- interp_rem_ok_iff.
      destruct (interp_rem expand ct); cbn [option_map]; split; congruence.
    - rewrite interp_step_group, step_strings_group, igo_steps_omapM.
      rewrite allok_cons, !allok_app. rewrite <- opt_str_ok_iff, <- interp_rem_ok_iff.
      rewrite <- (omapM_allok (interp_step expand) step_strings ss)
        by (rewrite Forall_forall in IH; exact IH).
      destruct (expand k); [|intuition congruence].
      destruct (opt_interp expand g); [|intuition congruence].
      destruct (omapM (interp_step expand) ss); [|intuition congruence].
      destruct (interp_rem expand rem); intuition congruence.
    - cbn [interp_step step_strings]. rewrite <- interp_gv_allok.
      destruct (interp_gv expand c); cbn [option_map]; split; congruence.
  Qed.

  (** ERRORS ARE REPORTED, and only errors of strings in scope *)
  Theorem interp_step_ok_iff : forall s,
    interp_step expand s <> None <-> (forall str, In str (step_strings s) -> expand str <> None).
  Proof. exact interp_step_allok. Qed.

  Theorem interp_pipeline_rest_ok_iff : forall p,
    interp_pipeline_rest expand p <> None <->
    (forall str, In str (pipeline_rest_strings p) -> expand str <> None).
  Proof.
    intros p. change (interp_pipeline_rest expand p <> None <-> allok (pipeline_rest_strings p)).
    unfold interp_pipeline_rest, pipeline_rest_strings. rewrite allok_app.
    rewrite <- (omapM_allok (interp_step expand) step_strings (pp_steps p))
      by (intros x _; apply interp_step_allok).
    rewrite <- interp_rem_ok_iff.
    destruct (omapM (interp_step expand) (pp_steps p)); [|intuition congruence].
    destruct (interp_rem expand (pp_rem p)); intuition congruence.
  Qed.

  (** EXACTLY ONCE, EVERYWHERE *)
  Theorem interp_step_strings : forall s s',
    interp_step expand s = Some s' -> step_no_collision s ->
    Permutation (step_strings s') (map (ex expand) (step_strings s)).
  Proof.
    induction s as [c|sc ct|sc ct|ct|k g ss rem IH|c] using step_ind'; intros s' H Hn.
    - cbn [interp_step] in H. destruct (interp_command expand c) as [c'|] eqn:E; cbn [option_map] in H; [|discriminate H].
      injection H as <-. cbn [step_strings]. apply interp_command_strings; assumption.
    - cbn [interp_step] in H. destruct (interp_rem expand ct) as [ct'|] eqn:E; cbn [option_map] in H; [|discriminate H].
      injection H as <-. cbn [step_strings]. apply interp_rem_strings; assumption.
    - cbn [interp_step] in H. destruct (interp_rem expand ct) as [ct'|] eqn:E; cbn [option_map] in H; [|discriminate H].
      injection H as <-. cbn [step_strings]. apply interp_rem_strings; assumption.
    - cbn [interp_step] in H. destruct (interp_rem expand ct) as [ct'|] eqn:E; cbn [option_map] in H; [|discriminate H].
      injection H as <-. cbn [step_strings]. apply interp_rem_strings; assumption.
    - rewrite interp_step_group, igo_steps_omapM in H.
      rewrite step_no_collision_group, all_step_nc_Forall in Hn. destruct Hn as [Hss Hrem].
      destruct (expand k) as [k'|] eqn:Ek; [|discriminate H].
      destruct (opt_interp expand g) as [g'|] eqn:Eg; [|discriminate H].
      destruct (omapM (interp_step expand) ss) as [ss'|] eqn:Ess; [|discriminate H].
      destruct (interp_rem expand rem) as [rem'|] eqn:Erem; [|discriminate H].
      injection H as <-. rewrite !step_strings_group. cbn [map]. rewrite !map_app.
      rewrite (ex_some _ _ Ek). apply perm_skip. repeat apply Permutation_app.
      + apply opt_str_strings. exact Eg.
      + eapply omapM_strings; [exact Ess|]. rewrite Forall_forall in IH, Hss. apply Forall_forall.
        intros x Hx x' Hx'. apply IH; [exact Hx|exact Hx'|apply Hss; exact Hx].
      + apply interp_rem_strings; assumption.
    - cbn [interp_step] in H. destruct (interp_gv expand c) as [c'|] eqn:E; cbn [option_map] in H; [|discriminate H].
      injection H as <-. cbn [step_strings]. apply interp_gv_strings; assumption.
  Qed.

  Theorem interp_pipeline_rest_strings : forall p p',
    interp_pipeline_rest expand p = Some p' -> pipeline_no_collision p ->
    Permutation (pipeline_rest_strings p') (map (ex expand) (pipeline_rest_strings p)).
  Proof.
    intros p p' H [Hss Hrem]. unfold interp_pipeline_rest in H.
    destruct (omapM (interp_step expand) (pp_steps p)) as [ss|] eqn:Ess; [|discriminate H].
    destruct (interp_rem expand (pp_rem p)) as [rem|] eqn:Erem; [|discriminate H].
    injection H as <-. unfold pipeline_rest_strings. cbn [pp_steps pp_rem]. rewrite map_app.
    apply Permutation_app.
    - eapply omapM_strings; [exact Ess|]. eapply Forall_impl; [|exact Hss].
      intros x Hx x' Hx'. apply interp_step_strings; assumption.
    - apply interp_rem_strings; assumption.
  Qed.

  (** SIGNATURES ARE LEFT UNTOUCHED, at every depth *)
  Lemma omapM_sigs : forall l l',
    omapM (interp_step expand) l = Some l' ->
    Forall (fun s => forall s', interp_step expand s = Some s' -> step_sigs s' = step_sigs s) l ->
    concat (map step_sigs l') = concat (map step_sigs l).
  Proof.
    intros l l' H. apply omapM_Forall2 in H. induction H as [|x y r r' Hxy _ IH]; intros F; [reflexivity|].
    inversion F as [|? ? F1 F2]; subst. cbn [map concat]. rewrite (F1 _ Hxy), (IH F2). reflexivity.
  Qed.

  Theorem interp_step_sigs : forall s s', interp_step expand s = Some s' -> step_sigs s' = step_sigs s.
  Proof.
    induction s as [c|sc ct|sc ct|ct|k g ss rem IH|c] using step_ind'; intros s' H.
    - cbn [interp_step] in H. destruct (interp_command expand c) as [c'|] eqn:E; cbn [option_map] in H; [|discriminate H].
      injection H as <-. cbn [step_sigs]. rewrite (interp_command_sig expand _ _ E). reflexivity.
    - cbn [interp_step] in H. destruct (interp_rem expand ct); cbn [option_map] in H; [|discriminate H].
      injection H as <-. reflexivity.
    - cbn [interp_step] in H. destruct (interp_rem expand ct); cbn [option_map] in H; [|discriminate H].
      injection H as <-. reflexivity.
    - cbn [interp_step] in H. destruct (interp_rem expand ct); cbn [option_map] in H; [|discriminate H].
      injection H as <-. reflexivity.
    - rewrite interp_step_group, igo_steps_omapM in H.
      destruct (expand k) as [k'|]; [|discriminate H].
      destruct (opt_interp expand g) as [g'|]; [|discriminate H].
      destruct (omapM (interp_step expand) ss) as [ss'|] eqn:Ess; [|discriminate H].
      destruct (interp_rem expand rem) as [rem'|]; [|discriminate H].
      injection H as <-. change (concat (map step_sigs ss') = concat (map step_sigs ss)).
      apply omapM_sigs; assumption.
    - cbn [interp_step] in H. destruct (interp_gv expand c); cbn [option_map] in H; [|discriminate H].
      injection H as <-. reflexivity.
  Qed.

  Theorem interp_pipeline_rest_sigs : forall p p',
    interp_pipeline_rest expand p = Some p' -> pipeline_sigs p' = pipeline_sigs p.
  Proof.
    intros p p' H. unfold interp_pipeline_rest in H.
    destruct (omapM (interp_step expand) (pp_steps p)) as [ss|] eqn:Ess; [|discriminate H].
    destruct (interp_rem expand (pp_rem p)) as [rem|]; [|discriminate H].
    injection H as <-. unfold pipeline_sigs. cbn [pp_steps].
    apply omapM_sigs; [exact Ess|]. apply Forall_forall. intros s _ s' Hs. apply interp_step_sigs. exact Hs.
  Qed.

  (** the env block is not touched by this part of the call *)
  Theorem interp_pipeline_rest_env : forall p p',
    interp_pipeline_rest expand p = Some p' -> pp_env p' = pp_env p /\ pp_nosteps p' = pp_nosteps p.
  Proof.
    intros p p' H. unfold interp_pipeline_rest in H.
    destruct (omapM (interp_step expand) (pp_steps p)); [|discriminate H].
    destruct (interp_rem expand (pp_rem p)); [|discriminate H].
    injection H as <-. split; reflexivity.
  Qed.
End InterpPipeline.

(** ------------------------------------------------------------------ *)
(** 4. the hypotheses are satisfiable, and the conclusions say something, on a
    group holding a signed command step with env, plugins, a matrix with an
    adjustment, a cache and unknown fields *)

Definition demo_expand (s : string) : option string :=
  if String.eqb s "$A" then Some "a"
  else if String.eqb s "$B" then Some "b"
  else if String.eqb s "$KEY" then Some "build"
  else if String.eqb s "$UNSET?" then None
  else Some s.

Definition demo_sig : signature := mkSig "EdDSA" (Some ["command"; "env"]) "$A.$B.sig".

Definition demo_command (with_value : string) : command_step :=
  mkCmd "$KEY" "label $A" "$A"
        [mkPlugin "$B" (GMap [("$A", GStr "$B"); ("list", GSeq [GStr "$A"; GInt 1%Z])])]
        [("$A", "$B"); ("PLAIN", "$A")]
        (Some demo_sig)
        (Some (mkMx (Some [("$A", Some ["$B"; "z"]); ("os", None)])
                    [Some (mkMAdj (Some [("$A", with_value)]) (GStr "$A") [("soft_fail", GUMap [("$B", GStr "$A")])]); None]
                    [("$B", GStr "$A")]))
        (Some (mkCache false "$A" ["$B"; "p"] "$A" [("$B", GNull)]))
        [("$B", GSeq [GStr "$A"])].

Definition demo_pipeline (with_value : string) : pipeline :=
  mkPipeline [SGroup "$A" (Some "$B") [SCommand (demo_command with_value); SWait "wait" [("$A", GStr "$B")]]
                     [("notify", GSeq [GStr "$A"])];
              SUnknown (GMap [("$A", GStr "$B")])]
             (Some [("$A", "$B")]) [("$A", GStr "$B")] false.

Ltac nodup_tac :=
  repeat match goal with
         | |- NoDup [] => apply NoDup_nil
         | |- NoDup (_ :: _) => apply NoDup_cons; [cbn [In]; intuition discriminate|]
         end.

Example demo_no_collision : pipeline_no_collision demo_expand (demo_pipeline "$B").
Proof.
  vm_compute. repeat (first [exact I | split | apply Forall_nil | apply Forall_cons]);
    try nodup_tac; try (cbn [In]; intuition discriminate).
Qed.

Example demo_interp :
  interp_pipeline_rest demo_expand (demo_pipeline "$B") =
  Some (mkPipeline
          [SGroup "a" (Some "b")
             [SCommand (mkCmd "build" "label $A" "a"
                          [mkPlugin "b" (GMap [("a", GStr "b"); ("list", GSeq [GStr "a"; GInt 1%Z])])]
                          [("a", "b"); ("PLAIN", "a")]
                          (Some demo_sig)
                          (Some (mkMx (Some [("a", Some ["b"; "z"]); ("os", None)])
                                      [Some (mkMAdj (Some [("a", "b")]) (GStr "a") [("soft_fail", GUMap [("b", GStr "a")])]); None]
                                      [("b", GStr "a")]))
                          (Some (mkCache false "a" ["b"; "p"] "a" [("b", GNull)]))
                          [("b", GSeq [GStr "a"])]);
              SWait "wait" [("a", GStr "b")]]
             [("notify", GSeq [GStr "a"])];
           SUnknown (GMap [("a", GStr "b")])]
          (Some [("$A", "$B")]) [("a", GStr "b")] false).
Proof. vm_compute. reflexivity. Qed.

(* 41 strings in scope; the signature's strings are not among them and stay as they are *)
Example demo_scope :
  length (pipeline_rest_strings (demo_pipeline "$B")) = 41 /\
  pipeline_sigs (demo_pipeline "$B") = [Some demo_sig] /\
  ~ In "$A.$B.sig" (pipeline_rest_strings (demo_pipeline "$B")).
Proof.
  split; [vm_compute; reflexivity|]. split; [vm_compute; reflexivity|].
  vm_compute. intuition discriminate.
Qed.

(* a failing expansion four levels down (group > command > matrix > adjustment > with value) is reported *)
Example demo_error :
  In "$UNSET?" (pipeline_rest_strings (demo_pipeline "$UNSET?")) /\
  interp_pipeline_rest demo_expand (demo_pipeline "$UNSET?") = None.
Proof. split; [vm_compute; tauto|vm_compute; reflexivity]. Qed.

(** the side condition cannot be dropped: when two env names expand to the same
    name, one variable is lost, so the strings of the result are not the
    expansions of the strings of the input *)
Example env_collision_counterexample :
  let s := SCommand (mkCmd "" "" "" [] [("$A", "1"); ("a", "2")] None None None []) in
  exists s', interp_step demo_expand s = Some s' /\
             ~ Permutation (step_strings s') (map (ex demo_expand) (step_strings s)).
Proof.
  eexists. split; [vm_compute; reflexivity|].
  intros P. apply Permutation_length in P. vm_compute in P. discriminate P.
Qed.

Print Assumptions interp_step_ok_iff.
Print Assumptions interp_pipeline_rest_ok_iff.
Print Assumptions interp_step_strings.
Print Assumptions interp_pipeline_rest_strings.
Print Assumptions interp_step_sigs.
Print Assumptions interp_pipeline_rest_sigs.
Print Assumptions interp_pipeline_rest_env.
Print Assumptions demo_no_collision.
Print Assumptions demo_interp.
Print Assumptions env_collision_counterexample.
