(** C12 at STEP level: what CommandStep.InterpolateMatrixPermutation does to the
    CONTENT of a command step (the frame is Proofs/MatrixStepProofs.v, the string
    level is Proofs/MatrixInterpProofs.v, the walkers are Proofs/InterpProofs.v).

      1. accepted_step_content     every in-scope field is the image under the total
                                   string function [T p] (Transform's output)
      2. accepted_step_token_free  no token is left -- CORRECTED: the statement with
                                   only "no value of p contains a token" is false
                                   (two counterexamples are kept below)
      3. unknown_token_fails_iff   MUnknownToken iff an in-scope string contains a
                                   token whose dimension is not a key of p
      4. result_trichotomy         MRejected / MUnknownToken / MOk, exactly one
      5. examples by vm_compute *)
From Coq Require Import String List Ascii Bool Arith Lia Permutation ZArith.
From GP Require Import Model.Gv Model.Pipeline Model.Interp Model.MatrixInterp Model.MatrixStep.
From GP Require Import Proofs.MarshalProofs Proofs.MatrixInterpProofs Proofs.InterpProofs Proofs.MatrixStepProofs.
From GP Require Model.Matrix.
Import ListNotations.
Local Open Scope list_scope.
Local Open Scope string_scope.

(** ================================================================== *)
(** * Specification vocabulary *)

(** Transform's output as a total function (what a string becomes when the call succeeds) *)
Definition T (p : list (string * string)) (s : string) : string := fst (transform (repl_of_perm p) s).

(** the expansion function InterpolateMatrixPermutation hands to the walker ... *)
Definition mexpand (p : list (string * string)) : string -> option string := transform_result (repl_of_perm p).
(** ... and the same walker argument for the total function *)
Definition total (f : string -> string) : string -> option string := fun s => Some (f s).

(** the free-form value walker (interp_gv) for a total string function, in closed form:
    string leaves and keys are mapped, ordered maps are renamed by the model's Replace loop
    [orename], Go maps by the model's [urename] *)
Fixpoint map_gv (f : string -> string) (g : gv) : gv :=
  match g with
  | GStr s => GStr (f s)
  | GSeq l => GSeq (map (map_gv f) l)
  | GMap l => GMap (orename (length l) [] (map (fun kv => (fst kv, f (fst kv), map_gv f (snd kv))) l))
  | GUMap l => GUMap (urename (map (fun kv => (fst kv, f (fst kv), map_gv f (snd kv))) l))
  | _ => g
  end.

(** the Go-map walker (interp_rem) for a total string function *)
Definition map_rem (f : string -> string) (l : list (string * gv)) : list (string * gv) :=
  urename (map (fun kv => (fst kv, f (fst kv), map_gv f (snd kv))) l).

(** every string matrix interpolation looks at: command, label, plugin sources, every key and
    string leaf of plugin configs, env VALUES, every key and string leaf of the unknown fields *)
Definition in_scope_strings (c : command_step) : list string :=
  cs_command c :: cs_label c ::
  (concat (map (fun pl => pl_source pl :: gv_strings (pl_config pl)) (cs_plugins c)) ++
   map snd (cs_env c) ++
   concat (map (fun kv => fst kv :: gv_strings (snd kv)) (cs_rem c)))%list.

(** the dimension a submatch names: "" for {{matrix}}, DIM for {{matrix.DIM}} *)
Definition dim_of_key (key : string) : string :=
  match key with EmptyString => EmptyString | String _ d => d end.

(** s contains a token (declarative shape [is_token]) whose dimension satisfies Q *)
Definition contains_token (Q : string -> Prop) (s : string) : Prop :=
  exists plain t key rest, s = plain ++ t ++ rest /\ is_token t key /\ Q (dim_of_key key).

Definition has_unknown_token (p : list (string * string)) (s : string) : Prop :=
  contains_token (fun d => ~ In d (map fst p)) s.
Definition has_known_token (p : list (string * string)) (s : string) : Prop :=
  contains_token (fun d => In d (map fst p)) s.

(** no value of the permutation contains a token *)
Definition token_free_perm (p : list (string * string)) : Prop :=
  forall d v, In (d, v) p -> token_free v.

(** ------------------------------------------------------------------ *)
(** the two hypotheses of the corrected theorem 2 *)

Definition is_ob (a : ascii) : bool := Ascii.eqb a "{"%char.
Definition starts_ob (s : string) : bool := match s with String a _ => is_ob a | EmptyString => false end.
(* s contains "{{" *)
Fixpoint has_oo (s : string) : bool :=
  match s with
  | EmptyString => false
  | String a r => (is_ob a && starts_ob r) || has_oo r
  end.
(* s ends with "{" *)
Fixpoint ends_ob (s : string) : bool :=
  match s with
  | EmptyString => false
  | String a r => match r with EmptyString => is_ob a | _ => ends_ob r end
  end.

(** no value of the permutation contains "{{" or ends with "{" (stronger than token_free_perm) *)
Definition open_free_perm (p : list (string * string)) : Prop :=
  forall d v, In (d, v) p -> has_oo v = false /\ ends_ob v = false.

(** every "{{" of s opens a token: there is no stray "{{" that replacement text could complete *)
Definition opens_are_tokens (s : string) : Prop :=
  forall a b, s = a ++ "{{" ++ b -> match_token ("{{" ++ b) <> None.

(** ================================================================== *)
(** * Strings *)

Lemma app_nil_r_s : forall s : string, s ++ "" = s.
Proof. induction s as [|c s IH]; [reflexivity|]. cbn [String.append]. rewrite IH. reflexivity. Qed.

Lemma app_eq_app_s : forall a b c d : string, a ++ b = c ++ d ->
  (exists x, c = a ++ x /\ b = x ++ d) \/ (exists x, x <> "" /\ a = c ++ x /\ d = x ++ b).
Proof.
  induction a as [|ca a IH]; intros b c d E.
  - left. exists c. split; [reflexivity|exact E].
  - destruct c as [|cc c].
    + right. exists (String ca a). split; [discriminate|]. split; [reflexivity|]. symmetry. exact E.
    + cbn [String.append] in E. injection E as -> E.
      destruct (IH _ _ _ E) as [(x & -> & ->)|(x & Hx & -> & ->)].
      * left. exists x. split; reflexivity.
      * right. exists x. split; [exact Hx|]. split; reflexivity.
Qed.

Lemma all_of_app : forall f a b, all_of f (a ++ b) = all_of f a && all_of f b.
Proof.
  intros f. induction a as [|c a IH]; intros b; [reflexivity|].
  cbn [String.append all_of]. rewrite IH, andb_assoc. reflexivity.
Qed.

Lemma all_of_impl : forall (f g : ascii -> bool), (forall c, f c = true -> g c = true) ->
  forall s, all_of f s = true -> all_of g s = true.
Proof.
  intros f g H. induction s as [|c s IH]; intros Hs; [reflexivity|].
  cbn [all_of] in *. apply andb_true_iff in Hs as [H1 H2]. rewrite (H _ H1), (IH H2). reflexivity.
Qed.

Definition not_ob (a : ascii) : bool := negb (is_ob a).

Lemma ws_not_ob : forall c, is_ws c = true -> not_ob c = true.
Proof. intros c; destruct c as [[] [] [] [] [] [] [] []]; vm_compute; intros; congruence. Qed.
Lemma dimc_not_ob : forall c, is_dimc c = true -> not_ob c = true.
Proof. intros c; destruct c as [[] [] [] [] [] [] [] []]; vm_compute; intros; congruence. Qed.

Lemma key_not_ob : forall key, is_key key = true -> all_of not_ob key = true.
Proof.
  intros key H. destruct (is_key_inv _ H) as [->|(d & -> & _ & Hd)]; [reflexivity|].
  cbn [all_of]. rewrite (all_of_impl _ _ dimc_not_ob _ Hd). reflexivity.
Qed.

Lemma not_ob_starts : forall x y, all_of not_ob x = true -> x <> "" -> starts_ob (x ++ y) = false.
Proof.
  intros [|c x] y H N; [contradiction N; reflexivity|].
  cbn [all_of] in H. apply andb_true_iff in H as [H _]. cbn [String.append starts_ob].
  unfold not_ob in H. apply negb_true_iff in H. exact H.
Qed.

Lemma match_token_starts : forall s, match_token s <> None -> exists r, s = "{{" ++ r.
Proof.
  intros s H. unfold match_token, tok_open in H.
  destruct (strip_prefix "{{" s) as [r|] eqn:E; [|contradiction H; reflexivity].
  exists r. apply strip_prefix_inv. exact E.
Qed.

Lemma match_token_no_oo : forall c r, is_ob c && starts_ob r = false -> match_token (String c r) = None.
Proof.
  intros c r H. destruct (match_token (String c r)) as [x|] eqn:E; [|reflexivity].
  destruct (match_token_starts (String c r)) as [r' E']; [rewrite E; discriminate|].
  cbn [String.append] in E'. injection E' as -> ->. discriminate H.
Qed.

(** TOKENS DO NOT OVERLAP: no token starts strictly inside a token *)
Lemma token_interior : forall t key a b rest, is_token t key -> t = a ++ b -> a <> "" -> b <> "" ->
  match_token (b ++ rest) = None.
Proof.
  intros t key a b rest (w1 & w2 & Hw1 & Hw2 & Hk & Ht) E Ha Hb.
  set (body := w1 ++ "matrix" ++ key ++ w2 ++ "}}").
  assert (Hbody : all_of not_ob body = true).
  { unfold body. rewrite !all_of_app.
    rewrite (all_of_impl _ _ ws_not_ob _ Hw1), (all_of_impl _ _ ws_not_ob _ Hw2), (key_not_ob _ Hk). reflexivity. }
  assert (Et : t = String "{" (String "{" body)) by (rewrite Ht; reflexivity).
  rewrite Et in E. destruct a as [|x a]; [contradiction Ha; reflexivity|].
  cbn [String.append] in E. injection E as <- E.
  destruct a as [|y a].
  - cbn [String.append] in E. subst b. cbn [String.append]. apply match_token_no_oo.
    rewrite not_ob_starts; [apply andb_false_r|exact Hbody|].
    unfold body. destruct w1; discriminate.
  - cbn [String.append] in E. injection E as <- E.
    rewrite E in Hbody. rewrite all_of_app in Hbody. apply andb_true_iff in Hbody as [_ Hb'].
    destruct b as [|z b]; [contradiction Hb; reflexivity|].
    cbn [String.append]. apply match_token_no_oo.
    cbn [all_of] in Hb'. apply andb_true_iff in Hb' as [Hz _].
    unfold not_ob in Hz. apply negb_true_iff in Hz. rewrite Hz. reflexivity.
Qed.

(** ================================================================== *)
(** * The scanner: the failure condition, declaratively *)

Section Scan.
  Variable repl : string -> option string.

  Lemma scan_at_token : forall s key n, match_token s = Some (key, n) ->
    exists t rest, s = t ++ rest /\ is_token t key /\ String.length t = n /\
      scan repl s 0 = (let (o, u) := scan repl rest 0 in
                       match repl key with Some v => (v ++ o, u) | None => (o, key :: u) end).
  Proof.
    intros s key n H. destruct (match_token_sound _ _ _ H) as (t & rest & -> & Ht & Hn).
    exists t, rest. split; [reflexivity|]. split; [exact Ht|]. split; [exact Hn|].
    pose proof (transform_step repl "" t key rest) as S. unfold transform in S.
    rewrite append_nil_l in S. rewrite S; [|intros a b E N; destruct a; [cbn in E; subst b; contradiction N; reflexivity|discriminate E]|exact Ht].
    destruct (scan repl rest 0) as [o u]. destruct (repl key); reflexivity.
  Qed.

  (* a reported unknown submatch comes from a position where the matcher succeeds *)
  Lemma scan_unknown_sound : forall s skip, snd (scan repl s skip) <> [] ->
    exists a b key n, s = a ++ b /\ match_token b = Some (key, n) /\ repl key = None.
  Proof.
    induction s as [|c r IH]; intros skip H.
    - contradiction H; reflexivity.
    - destruct skip as [|k].
      + rewrite scan_cons0 in H. destruct (match_token (String c r)) as [[key n]|] eqn:M.
        * destruct (scan repl r (n - 1)) as [o u] eqn:Sc. destruct (repl key) as [v|] eqn:R.
          -- cbn [snd] in H. destruct (IH (n - 1)) as (a & b & key' & n' & -> & M' & R').
             { rewrite Sc. exact H. }
             exists (String c a), b, key', n'. split; [reflexivity|]. split; assumption.
          -- exists "", (String c r), key, n. split; [reflexivity|]. split; assumption.
        * destruct (scan repl r 0) as [o u] eqn:Sc. cbn [snd] in H.
          destruct (IH 0) as (a & b & key' & n' & -> & M' & R').
          { rewrite Sc. exact H. }
          exists (String c a), b, key', n'. split; [reflexivity|]. split; assumption.
      + cbn [scan] in H. destruct (IH k H) as (a & b & key' & n' & -> & M' & R').
        exists (String c a), b, key', n'. split; [reflexivity|]. split; assumption.
  Qed.

  (* and every position where the matcher succeeds is visited (tokens do not overlap) *)
  Lemma scan_unknown_complete : forall m s, String.length s <= m ->
    forall a b key n, s = a ++ b -> match_token b = Some (key, n) -> repl key = None ->
    snd (scan repl s 0) <> [].
  Proof.
    induction m as [|m IH]; intros s Hl a b key n E M R.
    - destruct s; [|cbn in Hl; lia]. destruct a; [|discriminate E]. cbn in E. subst b. discriminate M.
    - destruct s as [|c r].
      + destruct a; [|discriminate E]. cbn in E. subst b. discriminate M.
      + destruct (match_token (String c r)) as [[k0 n0]|] eqn:M0.
        * destruct (scan_at_token _ _ _ M0) as (t & rest & Es & Ht & Hn & Sc). rewrite Sc.
          destruct (token_nonempty _ _ Ht) as (tc & t' & Et).
          assert (Hrest : String.length rest <= m).
          { assert (L : String.length (String c r) = String.length t + String.length rest)
              by (rewrite Es; apply length_app_s).
            rewrite Et in L. cbn [String.length] in L, Hl. lia. }
          rewrite Es in E. destruct (app_eq_app_s _ _ _ _ E) as [(x & Ea & Er)|(x & Hx & Et2 & Eb)].
          -- (* a = t ++ x: the position is in the rest *)
             pose proof (IH rest Hrest x b key n Er M R) as Hu.
             destruct (scan repl rest 0) as [o u]. cbn [snd] in Hu.
             destruct (repl k0); cbn [snd]; [exact Hu|discriminate].
          -- (* t = a ++ x, x <> "" *)
             destruct a as [|ac a'].
             ++ cbn [String.append] in E. subst b. rewrite <- Es in M. rewrite M0 in M. injection M as <- <-.
                rewrite R. destruct (scan repl rest 0) as [o u]. cbn [snd]. discriminate.
             ++ exfalso. rewrite Eb in M.
                rewrite (token_interior t k0 (String ac a') x rest Ht Et2) in M; [discriminate M|discriminate|exact Hx].
        * rewrite scan_cons0, M0. destruct a as [|ac a'].
          -- cbn [String.append] in E. subst b. rewrite M0 in M. discriminate M.
          -- cbn [String.append] in E. injection E as <- E.
             assert (Hr : String.length r <= m) by (cbn [String.length] in Hl; lia).
             pose proof (IH r Hr a' b key n E M R) as Hu.
             destruct (scan repl r 0) as [o u]. exact Hu.
  Qed.

  (** Transform fails iff a token with an unknown submatch starts somewhere in s *)
  Lemma transform_result_none_iff : forall s,
    transform_result repl s = None <->
    exists plain t key rest, s = plain ++ t ++ rest /\ is_token t key /\ repl key = None.
  Proof.
    intros s. rewrite transform_result_spec. unfold transform. split.
    - intros H. destruct (scan_unknown_sound s 0) as (a & b & key & n & -> & M & R).
      { destruct (snd (scan repl s 0)); [discriminate H|discriminate]. }
      destruct (match_token_sound _ _ _ M) as (t & rest & -> & Ht & _).
      exists a, t, key, rest. split; [reflexivity|]. split; assumption.
    - intros (plain & t & key & rest & -> & Ht & R).
      pose proof (scan_unknown_complete _ _ (le_n _) plain (t ++ rest) key _ eq_refl
                    (match_token_complete t key rest Ht) R) as Hu.
      destruct (snd (scan repl (plain ++ t ++ rest) 0)); [contradiction Hu; reflexivity|reflexivity].
  Qed.

  Lemma transform_result_some : forall s x, transform_result repl s = Some x -> x = fst (transform repl s).
  Proof.
    intros s x H. unfold transform_result in H. destruct (transform repl s) as [o [|k u]]; [|discriminate H].
    injection H as <-. reflexivity.
  Qed.

  (** ---------------------------------------------------------------- *)
  (** no "{{" in the output *)

  Lemma has_oo_app : forall v o, has_oo (v ++ o) = has_oo v || has_oo o || (ends_ob v && starts_ob o).
  Proof.
    induction v as [|c v IH]; intros o.
    - cbn. rewrite orb_false_r. reflexivity.
    - cbn [String.append has_oo ends_ob]. rewrite IH. destruct v as [|c' v'].
      + cbn [String.append has_oo ends_ob starts_ob]. cbn. destruct (is_ob c), (starts_ob o), (has_oo o); reflexivity.
      + cbn [String.append starts_ob].
        destruct (is_ob c && is_ob c'), (has_oo (String c' v')), (has_oo o), (ends_ob (String c' v') && starts_ob o); reflexivity.
  Qed.

  Lemma scan_starts : forall s, starts_ob (fst (scan repl s 0)) = true -> starts_ob s = true.
  Proof.
    intros [|c r] H; [discriminate H|]. rewrite scan_cons0 in H.
    destruct (match_token (String c r)) as [[key n]|] eqn:M.
    - destruct (match_token_starts (String c r)) as [r' E]; [rewrite M; discriminate|].
      rewrite E. reflexivity.
    - destruct (scan repl r 0) as [o u]. exact H.
  Qed.

  Fixpoint oat (s : string) : Prop :=
    match s with
    | EmptyString => True
    | String a r => (is_ob a && starts_ob r = true -> match_token s <> None) /\ oat r
    end.

  Lemma oat_of : forall s, opens_are_tokens s -> oat s.
  Proof.
    induction s as [|c r IH]; intros H; [exact I|]. split.
    - intros Hc. apply andb_true_iff in Hc as [H1 H2]. destruct r as [|c' r']; [discriminate H2|].
      cbn [starts_ob] in H2. unfold is_ob in H1, H2. apply Ascii.eqb_eq in H1, H2. subst c c'.
      apply (H "" r'). reflexivity.
    - apply IH. intros a b E. apply (H (String c a) b). rewrite E. reflexivity.
  Qed.

  Hypothesis repl_open_free : forall key v, repl key = Some v -> has_oo v = false /\ ends_ob v = false.

  Lemma scan_no_oo : forall s skip, oat s -> has_oo (fst (scan repl s skip)) = false.
  Proof.
    induction s as [|c r IH]; intros skip H; [reflexivity|]. destruct H as [Hc Hr].
    destruct skip as [|k]; [|cbn [scan]; apply IH; exact Hr].
    rewrite scan_cons0. destruct (match_token (String c r)) as [[key n]|] eqn:M.
    - pose proof (IH (n - 1) Hr) as Ho. destruct (scan repl r (n - 1)) as [o u]. cbn [fst] in Ho.
      destruct (repl key) as [v|] eqn:R; cbn [fst]; [|exact Ho].
      destruct (repl_open_free _ _ R) as [V1 V2]. rewrite has_oo_app, V1, V2, Ho. reflexivity.
    - pose proof (IH 0 Hr) as Ho. pose proof (scan_starts r) as Hs.
      destruct (scan repl r 0) as [o u]. cbn [fst] in *. cbn [has_oo]. rewrite Ho, orb_false_r.
      destruct (is_ob c) eqn:Ec; [|reflexivity]. destruct (starts_ob o) eqn:Eo; [|reflexivity].
      exfalso. apply Hc; [rewrite (Hs eq_refl); reflexivity|reflexivity].
  Qed.
End Scan.

Lemma no_oo_token_free : forall s, has_oo s = false -> token_free s.
Proof.
  induction s as [|c r IH]; intros H; [exact I|].
  cbn [has_oo] in H. apply orb_false_iff in H as [H1 H2]. split; [|apply IH; exact H2].
  apply match_token_no_oo. exact H1.
Qed.

(** a string in which no token starts contains no token at all, whatever the dimension *)
Lemma token_free_contains : forall Q s, token_free s -> ~ contains_token Q s.
Proof.
  intros Q s H (plain & t & key & rest & -> & Ht & _).
  induction plain as [|c pl IH].
  - destruct (token_nonempty _ _ Ht) as (tc & t' & ->). cbn [String.append] in H. destruct H as [H _].
    pose proof (match_token_complete _ key rest Ht) as M. cbn [String.append] in M. rewrite M in H. discriminate H.
  - cbn [String.append] in H. destruct H as [_ H]. apply IH. exact H.
Qed.

(** ================================================================== *)
(** * The permutation's replacement function *)

Lemma assoc_none_iff : forall {V} k (l : list (string * V)), Matrix.assoc k l = None <-> ~ In k (map fst l).
Proof.
  intros V k l. induction l as [|[k' v] r IH]; cbn [Matrix.assoc map fst In].
  - split; [intros _ []|reflexivity].
  - destruct (String.eqb_spec k k') as [->|N].
    + split; [discriminate|]. intros H. exfalso. apply H. left. reflexivity.
    + rewrite IH. split; [intros H [E|I]; [apply N; symmetry; exact E|apply H; exact I]|].
      intros H I. apply H. right. exact I.
Qed.

(** the submatch of a token is unknown to newMatrixInterpolator iff its dimension is not a key of p *)
Lemma repl_none_iff : forall p key, is_key key = true ->
  (repl_of_perm p key = None <-> ~ In (dim_of_key key) (map fst p)).
Proof.
  intros p key H. destruct (is_key_inv _ H) as [->|(d & -> & Ed & _)].
  - rewrite repl_of_perm_anon. apply assoc_none_iff.
  - rewrite repl_of_perm_dim; [apply assoc_none_iff|]. intros ->. discriminate Ed.
Qed.

Lemma repl_some_in : forall p key v, repl_of_perm p key = Some v -> exists d, In (d, v) p.
Proof.
  intros p key v. unfold repl_of_perm. induction p as [|[d v'] r IH]; intros H; [discriminate H|].
  destruct (String.eqb (if String.eqb d "" then "" else String "." d) key).
  - injection H as <-. exists d. left. reflexivity.
  - destruct (IH H) as [d' I]. exists d'. right. exact I.
Qed.

Lemma is_token_key : forall t key, is_token t key -> is_key key = true.
Proof. intros t key (w1 & w2 & _ & _ & H & _). exact H. Qed.

(** Transform fails on s iff s contains a token whose dimension is not a key of p *)
Theorem mexpand_none_iff : forall p s, mexpand p s = None <-> has_unknown_token p s.
Proof.
  intros p s. unfold mexpand. rewrite transform_result_none_iff. unfold has_unknown_token, contains_token. split.
  - intros (plain & t & key & rest & E & Ht & R). exists plain, t, key, rest. split; [exact E|]. split; [exact Ht|].
    apply (repl_none_iff p key (is_token_key _ _ Ht)). exact R.
  - intros (plain & t & key & rest & E & Ht & R). exists plain, t, key, rest. split; [exact E|]. split; [exact Ht|].
    apply (repl_none_iff p key (is_token_key _ _ Ht)). exact R.
Qed.

Lemma mexpand_some : forall p s x, mexpand p s = Some x -> x = T p s.
Proof. intros p s x H. apply transform_result_some. exact H. Qed.

Lemma mexpand_cases : forall p s, mexpand p s = None \/ mexpand p s = Some (T p s).
Proof.
  intros p s. destruct (mexpand p s) as [x|] eqn:E; [right|left; reflexivity].
  rewrite (mexpand_some _ _ _ E). reflexivity.
Qed.

(** ================================================================== *)
(** * The walkers *)

Lemma omapM_ext : forall {X Y} (f g : X -> option Y) l,
  (forall x, In x l -> f x = g x) -> omapM f l = omapM g l.
Proof.
  intros X Y f g l. induction l as [|x r IH]; intros H; [reflexivity|].
  rewrite !omapM_cons. rewrite (H x) by (left; reflexivity). rewrite IH; [reflexivity|].
  intros y I. apply H. right. exact I.
Qed.

Lemma omapM_some_map : forall {X Y} (f : X -> option Y) (h : X -> Y) l,
  (forall x, In x l -> f x = Some (h x)) -> omapM f l = Some (map h l).
Proof.
  intros X Y f h l. induction l as [|x r IH]; intros H; [reflexivity|].
  rewrite omapM_cons. rewrite (H x) by (left; reflexivity). rewrite IH; [reflexivity|].
  intros y I. apply H. right. exact I.
Qed.

Lemma in_concat_map : forall {X Y} (h : X -> list Y) l x y, In x l -> In y (h x) -> In y (concat (map h l)).
Proof.
  intros X Y h l x y Hx Hy. apply in_concat. exists (h x). split; [apply in_map; exact Hx|exact Hy].
Qed.

(** the value walker only looks at [gv_strings] *)
Lemma interp_gv_ext : forall e1 e2 g,
  (forall s, In s (gv_strings g) -> e1 s = e2 s) -> interp_gv e1 g = interp_gv e2 g.
Proof.
  intros e1 e2. induction g as [|b|z|j st|s|j|l IH|l IH|l IH] using gv_ind'; intros H; try reflexivity.
  - cbn [interp_gv]. rewrite (H s) by (left; reflexivity). reflexivity.
  - rewrite !interp_gv_seq, !igo_seq_omapM. rewrite Forall_forall in IH.
    rewrite (omapM_ext (interp_gv e1) (interp_gv e2)); [reflexivity|].
    intros x Hx. apply (IH x Hx). intros s Hs. apply H. rewrite gv_strings_seq.
    eapply in_concat_map; eassumption.
  - rewrite !interp_gv_map, !igo_map_omapM. rewrite Forall_forall in IH.
    rewrite (omapM_ext (uf e1 (interp_gv e1)) (uf e2 (interp_gv e2))); [reflexivity|].
    intros kv Hkv. unfold uf. rewrite (IH kv Hkv).
    + rewrite (H (fst kv)); [reflexivity|]. rewrite gv_strings_map.
      eapply in_concat_map; [exact Hkv|left; reflexivity].
    + intros s Hs. apply H. rewrite gv_strings_map. eapply in_concat_map; [exact Hkv|right; exact Hs].
  - rewrite !interp_gv_umap, !igo_map_omapM. rewrite Forall_forall in IH.
    rewrite (omapM_ext (uf e1 (interp_gv e1)) (uf e2 (interp_gv e2))); [reflexivity|].
    intros kv Hkv. unfold uf. rewrite (IH kv Hkv).
    + rewrite (H (fst kv)); [reflexivity|]. rewrite gv_strings_umap.
      eapply in_concat_map; [exact Hkv|left; reflexivity].
    + intros s Hs. apply H. rewrite gv_strings_umap. eapply in_concat_map; [exact Hkv|right; exact Hs].
Qed.

Lemma map_gv_seq : forall f l, map_gv f (GSeq l) = GSeq (map (map_gv f) l).
Proof. reflexivity. Qed.
Lemma map_gv_map : forall f l, map_gv f (GMap l) =
  GMap (orename (length l) [] (map (fun kv => (fst kv, f (fst kv), map_gv f (snd kv))) l)).
Proof. reflexivity. Qed.
Lemma map_gv_umap : forall f l, map_gv f (GUMap l) =
  GUMap (urename (map (fun kv => (fst kv, f (fst kv), map_gv f (snd kv))) l)).
Proof. reflexivity. Qed.

Lemma entries_total : forall f l,
  Forall (fun kv => interp_gv (total f) (snd kv) = Some (map_gv f (snd kv))) l ->
  omapM (uf (total f) (interp_gv (total f))) l = Some (map (fun kv => (fst kv, f (fst kv), map_gv f (snd kv))) l).
Proof.
  intros f l IH. rewrite Forall_forall in IH. apply omapM_some_map.
  intros kv Hkv. unfold uf. rewrite (IH kv Hkv). reflexivity.
Qed.

(** [map_gv f] IS the model's value walker run with the total function f *)
Theorem map_gv_is_walker : forall f g, interp_gv (total f) g = Some (map_gv f g).
Proof.
  intros f. induction g as [|b|z|j st|s|j|l IH|l IH|l IH] using gv_ind'; try reflexivity.
  - rewrite interp_gv_seq, igo_seq_omapM. rewrite Forall_forall in IH.
    rewrite (omapM_some_map (interp_gv (total f)) (map_gv f) l IH). reflexivity.
  - rewrite interp_gv_map, igo_map_omapM, (entries_total f l IH), map_gv_map, map_length. reflexivity.
  - rewrite interp_gv_umap, igo_map_omapM, (entries_total f l IH), map_gv_umap. reflexivity.
Qed.

(** [map_rem f] IS the model's Go-map walker run with the total function f *)
Theorem map_rem_is_walker : forall f l, interp_rem (total f) l = Some (map_rem f l).
Proof.
  intros f l. unfold interp_rem. rewrite interp_umap_eq. rewrite entries_total; [reflexivity|].
  apply Forall_forall. intros kv _. apply map_gv_is_walker.
Qed.

(** ordered maps whose renamed keys neither collide nor capture a later original key
    ([no_capture], see [omap_capture_counterexample] in Proofs/InterpProofs.v): plain [map], order kept *)
Lemma map_gv_map_nocoll : forall f l,
  NoDup (map (fun kv : string * gv => f (fst kv)) l) -> no_capture (total f) (map fst l) ->
  map_gv f (GMap l) = GMap (map (fun kv => (f (fst kv), map_gv f (snd kv))) l).
Proof.
  intros f l Hn Hc. rewrite map_gv_map. f_equal.
  set (es := map (fun kv : string * gv => (fst kv, f (fst kv), map_gv f (snd kv))) l).
  assert (F : Forall2 (fun kv e => uf (total f) (interp_gv (total f)) kv = Some e) l es).
  { apply omapM_Forall2. apply entries_total. apply Forall_forall. intros kv _. apply map_gv_is_walker. }
  replace (length l) with (length es) by (unfold es; apply map_length).
  rewrite (omap_result (total f) l es F Hn Hc). unfold es. rewrite map_map. reflexivity.
Qed.

(** the whole step under a total string function, field by field *)
Definition map_step (f : string -> string) (c : command_step) : command_step :=
  mkCmd (cs_key c) (f (cs_label c)) (f (cs_command c))
        (map (fun pl => mkPlugin (f (pl_source pl)) (map_gv f (pl_config pl))) (cs_plugins c))
        (map (fun kv => (fst kv, f (snd kv))) (cs_env c))
        (cs_sig c) (cs_matrix c) (cs_cache c)
        (map_rem f (cs_rem c)).

Lemma minterp_total : forall f c, minterp_command (total f) c = Some (map_step f c).
Proof.
  intros f c. unfold minterp_command.
  rewrite (omapM_some_map (interp_plugin (total f)) (fun pl => mkPlugin (f (pl_source pl)) (map_gv f (pl_config pl)))).
  2:{ intros pl _. unfold interp_plugin. rewrite map_gv_is_walker. reflexivity. }
  unfold interp_map_values.
  rewrite (omapM_some_map (fun kv : string * string => option_map (fun v => (fst kv, v)) (total f (snd kv)))
             (fun kv => (fst kv, f (snd kv)))) by (intros; reflexivity).
  rewrite map_rem_is_walker. reflexivity.
Qed.

(** the step walker only looks at [in_scope_strings] *)
Lemma minterp_ext : forall e1 e2 c,
  (forall s, In s (in_scope_strings c) -> e1 s = e2 s) -> minterp_command e1 c = minterp_command e2 c.
Proof.
  intros e1 e2 c H. unfold in_scope_strings in H. unfold minterp_command.
  rewrite (H (cs_command c)) by (left; reflexivity).
  rewrite (H (cs_label c)) by (right; left; reflexivity).
  assert (Hp : omapM (interp_plugin e1) (cs_plugins c) = omapM (interp_plugin e2) (cs_plugins c)).
  { apply omapM_ext. intros pl Hpl. unfold interp_plugin.
    rewrite (H (pl_source pl)).
    - rewrite (interp_gv_ext e1 e2 (pl_config pl)); [reflexivity|].
      intros s Hs. apply H. right. right. apply in_or_app. left.
      eapply (in_concat_map (fun pl => pl_source pl :: gv_strings (pl_config pl))); [exact Hpl|right; exact Hs].
    - right. right. apply in_or_app. left.
      eapply (in_concat_map (fun pl => pl_source pl :: gv_strings (pl_config pl))); [exact Hpl|left; reflexivity]. }
  assert (He : interp_map_values e1 (cs_env c) = interp_map_values e2 (cs_env c)).
  { apply omapM_ext. intros kv Hkv. rewrite (H (snd kv)); [reflexivity|].
    right. right. apply in_or_app. right. apply in_or_app. left. apply in_map. exact Hkv. }
  assert (Hr : interp_rem e1 (cs_rem c) = interp_rem e2 (cs_rem c)).
  { unfold interp_rem. rewrite !interp_umap_eq.
    rewrite (omapM_ext (uf e1 (interp_gv e1)) (uf e2 (interp_gv e2))); [reflexivity|].
    intros kv Hkv. unfold uf.
    rewrite (H (fst kv)).
    - rewrite (interp_gv_ext e1 e2 (snd kv)); [reflexivity|].
      intros s Hs. apply H. right. right. apply in_or_app. right. apply in_or_app. right.
      eapply (in_concat_map (fun kv => fst kv :: gv_strings (snd kv))); [exact Hkv|right; exact Hs].
    - right. right. apply in_or_app. right. apply in_or_app. right.
      eapply (in_concat_map (fun kv => fst kv :: gv_strings (snd kv))); [exact Hkv|left; reflexivity]. }
  rewrite Hp, He, Hr. reflexivity.
Qed.

(** ------------------------------------------------------------------ *)
(** ERRORS: the step walker fails iff the expansion fails on an in-scope string *)

Section Errors.
  Variable expand : string -> option string.
  Let ok (s : string) : Prop := expand s <> None.

  Lemma omapM_ok_concat : forall {X Y} (f : X -> option Y) (h : X -> list string),
    (forall x, f x <> None <-> Forall ok (h x)) ->
    forall l, omapM f l <> None <-> Forall ok (concat (map h l)).
  Proof.
    intros X Y f h Hf. induction l as [|x r IH].
    - cbn. split; [constructor|discriminate].
    - rewrite omapM_cons. cbn [map concat]. rewrite Forall_app, <- IH, <- Hf.
      destruct (f x); destruct (omapM f r); split; try (intros [A B]); try congruence; try (split; congruence).
  Qed.

  Lemma gv_ok_Forall : forall g, interp_gv expand g <> None <-> Forall ok (gv_strings g).
  Proof. intros g. rewrite interp_gv_ok_iff, Forall_forall. reflexivity. Qed.

  Lemma plugins_ok_iff : forall pls,
    omapM (interp_plugin expand) pls <> None <->
    Forall ok (concat (map (fun pl => pl_source pl :: gv_strings (pl_config pl)) pls)).
  Proof.
    apply omapM_ok_concat. intros pl. rewrite Forall_cons_iff, <- gv_ok_Forall. unfold interp_plugin, ok.
    destruct (expand (pl_source pl)); destruct (interp_gv expand (pl_config pl));
      split; try (intros [A B]); try congruence; try (split; congruence).
  Qed.

  Lemma env_ok_iff : forall env, interp_map_values expand env <> None <-> Forall ok (map snd env).
  Proof.
    unfold interp_map_values. induction env as [|kv r IH].
    - cbn. split; [constructor|discriminate].
    - rewrite omapM_cons. cbn [map]. rewrite Forall_cons_iff, <- IH. unfold ok.
      destruct (expand (snd kv)); cbn [option_map];
        destruct (omapM (fun kv0 : string * string => option_map (fun v => (fst kv0, v)) (expand (snd kv0))) r);
        split; try (intros [A B]); try congruence; try (split; congruence).
  Qed.

  Lemma rem_ok_iff : forall l,
    interp_rem expand l <> None <-> Forall ok (concat (map (fun kv => fst kv :: gv_strings (snd kv)) l)).
  Proof.
    intros l. unfold interp_rem. rewrite interp_umap_eq.
    rewrite <- (omapM_ok_concat (uf expand (interp_gv expand)) (fun kv => fst kv :: gv_strings (snd kv))).
    - destruct (omapM (uf expand (interp_gv expand)) l); split; congruence.
    - intros kv. rewrite Forall_cons_iff, <- gv_ok_Forall. unfold uf, ok.
      destruct (expand (fst kv)); destruct (interp_gv expand (snd kv));
        split; try (intros [A B]); try congruence; try (split; congruence).
  Qed.

  Theorem minterp_ok_iff : forall c,
    minterp_command expand c <> None <-> (forall s, In s (in_scope_strings c) -> expand s <> None).
  Proof.
    intros c. rewrite <- Forall_forall.
    change (minterp_command expand c <> None <-> Forall ok (in_scope_strings c)). unfold in_scope_strings.
    rewrite !Forall_cons_iff, !Forall_app, <- plugins_ok_iff, <- env_ok_iff, <- rem_ok_iff.
    unfold minterp_command, ok.
    destruct (expand (cs_command c)); destruct (expand (cs_label c));
      destruct (omapM (interp_plugin expand) (cs_plugins c));
      destruct (interp_map_values expand (cs_env c)); destruct (interp_rem expand (cs_rem c));
      split; try (intros (A & B & C & D & E)); try congruence; try (repeat split; congruence).
  Qed.

  Lemma ok_dec : forall l : list string, (forall s, In s l -> expand s <> None) \/ (exists s, In s l /\ expand s = None).
  Proof.
    induction l as [|x r [IH|(s & I & E)]].
    - left. intros s [].
    - destruct (expand x) eqn:Ex.
      + left. intros s0 [<-|I]; [congruence|apply IH; exact I].
      + right. exists x. split; [left; reflexivity|exact Ex].
    - right. exists s. split; [right; exact I|exact E].
  Qed.

  Theorem minterp_none_iff : forall c,
    minterp_command expand c = None <-> (exists s, In s (in_scope_strings c) /\ expand s = None).
  Proof.
    intros c. split.
    - intros H. destruct (ok_dec (in_scope_strings c)) as [A|B]; [|exact B].
      exfalso. apply (proj2 (minterp_ok_iff c) A). exact H.
    - intros (s & I & E). destruct (minterp_command expand c) eqn:M; [|reflexivity].
      exfalso. apply (proj1 (minterp_ok_iff c)) with (s := s); [rewrite M; discriminate|exact I|exact E].
  Qed.
End Errors.

(** ------------------------------------------------------------------ *)
(** every string of the result is the image of a string of the input
    (renaming can only drop entries -- collisions, capture -- never invent one) *)

Lemma orename_in : forall {V} fuel (done : list (string * V)) todo x,
  In x (orename fuel done todo) -> In x done \/ exists e, In e todo /\ x = (snd (fst e), snd e).
Proof.
  intros V. induction fuel as [|f IH]; intros done todo x H.
  - left. exact H.
  - destruct todo as [|[[k k'] v'] rest]; [left; exact H|]. cbn [orename] in H.
    destruct (IH _ _ _ H) as [I|(e & I & E)].
    + apply in_app_or in I as [I|[<-|[]]].
      * left. apply filter_In in I. exact (proj1 I).
      * right. exists (k, k', v'). split; [left; reflexivity|reflexivity].
    + right. exists e. split; [right; apply filter_In in I; exact (proj1 I)|exact E].
Qed.

Lemma aset_in : forall {V} k (v : V) l x, In x (aset k v l) -> x = (k, v) \/ In x l.
Proof.
  intros V k v l x. induction l as [|[k0 v0] r IH]; cbn [aset]; intros H.
  - destruct H as [<-|[]]. left. reflexivity.
  - destruct (String.eqb k k0).
    + destruct H as [<-|I]; [left; reflexivity|right; right; exact I].
    + destruct H as [<-|I]; [right; left; reflexivity|]. destruct (IH I) as [E|I']; [left; exact E|right; right; exact I'].
Qed.

Lemma fold_aset_in : forall {V} (L : list (string * string * V)) acc x,
  In x (fold_left (fun acc e => aset (snd (fst e)) (snd e) acc) L acc) ->
  In x acc \/ exists e, In e L /\ x = (snd (fst e), snd e).
Proof.
  intros V. induction L as [|e L IH]; intros acc x H; [left; exact H|].
  cbn [fold_left] in H. destruct (IH _ _ H) as [I|(e' & I & E)].
  - apply aset_in in I as [E|I]; [right; exists e; split; [left; reflexivity|exact E]|left; exact I].
  - right. exists e'. split; [right; exact I|exact E].
Qed.

Lemma urename_in : forall {V} (es : list (string * string * V)) x,
  In x (urename es) -> exists e, In e es /\ x = (snd (fst e), snd e).
Proof.
  intros V es x H. unfold urename in H. apply fold_aset_in in H as [[]|(e & I & E)].
  exists e. split; [|exact E].
  apply in_map_iff in I as ([k0 e0] & <- & I). cbn [snd].
  apply (Permutation_in _ (sort_keys_perm _)) in I.
  apply in_map_iff in I as (e1 & E1 & I1). injection E1 as _ <-. exact I1.
Qed.

Lemma entries_image : forall f (l es : list (string * gv)),
  (forall x, In x es -> exists kv, In kv l /\ x = (f (fst kv), map_gv f (snd kv))) ->
  (forall kv, In kv l -> forall s, In s (gv_strings (map_gv f (snd kv))) -> In s (map f (gv_strings (snd kv)))) ->
  forall s, In s (concat (map (fun kv => fst kv :: gv_strings (snd kv)) es)) ->
            In s (map f (concat (map (fun kv => fst kv :: gv_strings (snd kv)) l))).
Proof.
  intros f l es Hes IH s H. apply in_concat in H as (y & Hy & Hs).
  apply in_map_iff in Hy as (x & <- & Hx). destruct (Hes x Hx) as (kv & Hkv & ->). cbn [fst snd] in Hs.
  destruct Hs as [<-|Hs].
  - apply in_map. eapply (in_concat_map (fun kv => fst kv :: gv_strings (snd kv))); [exact Hkv|left; reflexivity].
  - apply (IH kv Hkv) in Hs. apply in_map_iff in Hs as (s0 & <- & Hs0). apply in_map.
    eapply (in_concat_map (fun kv => fst kv :: gv_strings (snd kv))); [exact Hkv|right; exact Hs0].
Qed.

Lemma renamed_entries : forall f (l : list (string * gv)) x,
  (exists e, In e (map (fun kv => (fst kv, f (fst kv), map_gv f (snd kv))) l) /\ x = (snd (fst e), snd e)) ->
  exists kv, In kv l /\ x = (f (fst kv), map_gv f (snd kv)).
Proof.
  intros f l x (e & I & ->). apply in_map_iff in I as (kv & <- & I). exists kv. split; [exact I|reflexivity].
Qed.

Lemma gv_strings_image : forall f g s, In s (gv_strings (map_gv f g)) -> In s (map f (gv_strings g)).
Proof.
  intros f. induction g as [|b|z|j st|s0|j|l IH|l IH|l IH] using gv_ind'; intros s H; try exact H.
  - rewrite map_gv_seq, gv_strings_seq in H. rewrite gv_strings_seq. rewrite Forall_forall in IH.
    apply in_concat in H as (y & Hy & Hs). apply in_map_iff in Hy as (g' & <- & Hg').
    apply in_map_iff in Hg' as (g & <- & Hg). apply (IH g Hg) in Hs.
    apply in_map_iff in Hs as (s0 & <- & Hs0). apply in_map. eapply in_concat_map; eassumption.
  - rewrite map_gv_map, gv_strings_map in H. rewrite gv_strings_map. rewrite Forall_forall in IH.
    eapply entries_image; [|exact IH|exact H].
    intros x Hx. apply renamed_entries. apply orename_in in Hx as [[]|Hx]. exact Hx.
  - rewrite map_gv_umap, gv_strings_umap in H. rewrite gv_strings_umap. rewrite Forall_forall in IH.
    eapply entries_image; [|exact IH|exact H].
    intros x Hx. apply renamed_entries. apply urename_in in Hx. exact Hx.
Qed.

Theorem in_scope_image : forall f c s', In s' (in_scope_strings (map_step f c)) ->
  exists s, In s (in_scope_strings c) /\ s' = f s.
Proof.
  intros f c s' H.
  assert (G : In s' (map f (in_scope_strings c))).
  2:{ apply in_map_iff in G as (s & E & I). exists s. split; [exact I|symmetry; exact E]. }
  unfold in_scope_strings in *. cbn [map_step cs_command cs_label cs_plugins cs_env cs_rem] in H.
  cbn [map]. destruct H as [<-|[<-|H]]; [left; reflexivity|right; left; reflexivity|]. right. right.
  rewrite !map_app. apply in_app_or in H as [H|H]; [apply in_or_app; left|apply in_or_app; right].
  - apply in_concat in H as (y & Hy & Hs). apply in_map_iff in Hy as (pl' & <- & Hpl').
    apply in_map_iff in Hpl' as (pl & <- & Hpl). cbn [pl_source pl_config] in Hs. destruct Hs as [<-|Hs].
    + apply in_map. eapply (in_concat_map (fun pl => pl_source pl :: gv_strings (pl_config pl))); [exact Hpl|left; reflexivity].
    + apply gv_strings_image in Hs. apply in_map_iff in Hs as (s0 & <- & Hs0). apply in_map.
      eapply (in_concat_map (fun pl => pl_source pl :: gv_strings (pl_config pl))); [exact Hpl|right; exact Hs0].
  - apply in_app_or in H as [H|H]; [apply in_or_app; left|apply in_or_app; right].
    + rewrite !map_map in *. cbn [snd] in H. exact H.
    + eapply entries_image; [| |exact H].
      * intros x Hx. apply renamed_entries. apply urename_in in Hx. exact Hx.
      * intros kv _ s. apply gv_strings_image.
Qed.

(** ================================================================== *)
(** * The step-level theorems *)

Lemma accepted_inv : forall c p c', interpolate_matrix_permutation c p = MOk c' -> p <> [] ->
  Matrix.validate (option_map to_vmatrix (cs_matrix c)) p = Matrix.Accept /\
  minterp_command (mexpand p) c = Some c'.
Proof.
  intros c p c' H Hp. unfold interpolate_matrix_permutation in H.
  destruct (Matrix.validate (option_map to_vmatrix (cs_matrix c)) p); [|discriminate H].
  split; [reflexivity|]. destruct p as [|x r]; [contradiction Hp; reflexivity|].
  fold (mexpand (x :: r)) in H. destruct (minterp_command (mexpand (x :: r)) c); [|discriminate H].
  injection H as <-. reflexivity.
Qed.

(** the closed form of an accepted, non-empty permutation: the whole step, field by field *)
Lemma accepted_step_closed_form : forall c p c',
  interpolate_matrix_permutation c p = MOk c' -> p <> [] -> c' = map_step (T p) c.
Proof.
  intros c p c' H Hp. destruct (accepted_inv _ _ _ H Hp) as [_ M].
  assert (Hok : forall s, In s (in_scope_strings c) -> mexpand p s = total (T p) s).
  { intros s I. destruct (mexpand_cases p s) as [E|E]; [|exact E].
    exfalso. apply (proj1 (minterp_ok_iff (mexpand p) c)) with (s := s); [rewrite M; discriminate|exact I|exact E]. }
  rewrite (minterp_ext _ _ c Hok), minterp_total in M. injection M as <-. reflexivity.
Qed.

(** 1. CONTENT.  With T := Transform's output for the permutation p:
    command and label are mapped by T; every plugin keeps its position, its source is mapped by T and
    its config is the value walker's image (string leaves AND keys mapped by T, ordered maps renamed
    by the model's Replace loop, Go maps by assignment in key order); env VALUES are mapped by T with
    names and order unchanged; the unknown fields are the Go-map walker's image; key, matrix, cache
    and signature are unchanged. *)
Theorem accepted_step_content : forall c p c',
  interpolate_matrix_permutation c p = MOk c' -> p <> [] ->
  cs_command c' = T p (cs_command c) /\
  cs_label c' = T p (cs_label c) /\
  map pl_source (cs_plugins c') = map (fun pl => T p (pl_source pl)) (cs_plugins c) /\
  map pl_config (cs_plugins c') = map (fun pl => map_gv (T p) (pl_config pl)) (cs_plugins c) /\
  Forall2 (fun pl pl' => interp_gv (total (T p)) (pl_config pl) = Some (pl_config pl')) (cs_plugins c) (cs_plugins c') /\
  cs_env c' = map (fun kv => (fst kv, T p (snd kv))) (cs_env c) /\
  map fst (cs_env c') = map fst (cs_env c) /\
  map snd (cs_env c') = map (fun kv => T p (snd kv)) (cs_env c) /\
  cs_rem c' = map_rem (T p) (cs_rem c) /\
  interp_rem (total (T p)) (cs_rem c) = Some (cs_rem c') /\
  cs_key c' = cs_key c /\ cs_matrix c' = cs_matrix c /\ cs_sig c' = cs_sig c /\ cs_cache c' = cs_cache c.
Proof.
  intros c p c' H Hp. rewrite (accepted_step_closed_form _ _ _ H Hp).
  cbn [map_step cs_command cs_label cs_plugins cs_env cs_rem cs_key cs_matrix cs_sig cs_cache].
  rewrite !map_map. cbn [pl_source pl_config fst snd].
  repeat split; try reflexivity.
  - induction (cs_plugins c) as [|pl r IH]; cbn [map]; constructor; [|exact IH].
    cbn [pl_config]. apply map_gv_is_walker.
  - apply map_rem_is_walker.
Qed.

(** where keys neither collide nor capture, the renamed maps have the direct closed form
    (hypotheses [no_collision] / [no_capture] of Proofs/InterpProofs.v, needed because of
    [omap_capture_counterexample]) *)
Corollary accepted_config_strings : forall c p c',
  interpolate_matrix_permutation c p = MOk c' -> p <> [] ->
  Forall2 (fun pl pl' => no_collision (total (T p)) (pl_config pl) ->
                         Permutation (gv_strings (pl_config pl')) (map (T p) (gv_strings (pl_config pl))))
          (cs_plugins c) (cs_plugins c').
Proof.
  intros c p c' H Hp. destruct (accepted_step_content _ _ _ H Hp) as (_ & _ & _ & _ & F & _).
  induction F as [|pl pl' r r' E _ IH]; constructor; [|exact IH].
  intros Hnc. pose proof (interp_gv_strings (total (T p)) _ _ E Hnc) as Pm.
  replace (map (ex (total (T p))) (gv_strings (pl_config pl))) with (map (T p) (gv_strings (pl_config pl))) in Pm; [exact Pm|].
  apply map_ext. reflexivity.
Qed.

Lemma open_free_token_free : forall p, open_free_perm p -> token_free_perm p.
Proof. intros p H d v I. apply no_oo_token_free. exact (proj1 (H d v I)). Qed.

(** 2. NO TOKEN IS LEFT (corrected).  If every "{{" of every in-scope string opens a token and no
    value of p contains "{{" or ends with "{", then no in-scope string of the result contains "{{";
    so no token starts anywhere in it, in particular none naming a dimension of p. *)
Theorem accepted_step_token_free : forall c p c',
  interpolate_matrix_permutation c p = MOk c' -> p <> [] ->
  open_free_perm p ->
  (forall s, In s (in_scope_strings c) -> opens_are_tokens s) ->
  forall s', In s' (in_scope_strings c') ->
    has_oo s' = false /\ token_free s' /\ ~ has_known_token p s' /\ (forall Q, ~ contains_token Q s').
Proof.
  intros c p c' H Hp Hv Hs s' I. rewrite (accepted_step_closed_form _ _ _ H Hp) in I.
  destruct (in_scope_image _ _ _ I) as (s & Is & ->).
  assert (N : has_oo (T p s) = false).
  { unfold T, transform. apply scan_no_oo.
    - intros key v R. destruct (repl_some_in _ _ _ R) as [d Id]. exact (Hv d v Id).
    - apply oat_of. apply Hs. exact Is. }
  pose proof (no_oo_token_free _ N) as F.
  split; [exact N|]. split; [exact F|]. split; [apply token_free_contains; exact F|].
  intros Q. apply token_free_contains. exact F.
Qed.

(** 3. A token naming a dimension the permutation does not have makes the call fail, and nothing else does *)
Theorem unknown_token_fails_iff : forall c p,
  p <> [] -> Matrix.validate (option_map to_vmatrix (cs_matrix c)) p = Matrix.Accept ->
  (interpolate_matrix_permutation c p = MUnknownToken <->
   exists s, In s (in_scope_strings c) /\ has_unknown_token p s).
Proof.
  intros c p Hp Hv. unfold interpolate_matrix_permutation. rewrite Hv.
  destruct p as [|x r]; [contradiction Hp; reflexivity|]. fold (mexpand (x :: r)).
  assert (E : (exists s, In s (in_scope_strings c) /\ has_unknown_token (x :: r) s) <->
              (exists s, In s (in_scope_strings c) /\ mexpand (x :: r) s = None)).
  { split; intros (s & I & U); exists s; (split; [exact I|]); apply mexpand_none_iff; exact U. }
  rewrite E, <- minterp_none_iff. destruct (minterp_command (mexpand (x :: r)) c); split; congruence.
Qed.

(** 4. TRICHOTOMY.  Rejected iff validation rejects; otherwise unknown-token failure iff the permutation is
    non-empty and an in-scope string has a token for a dimension outside p; otherwise a step is returned *)
Theorem result_trichotomy : forall c p,
  let R := interpolate_matrix_permutation c p in
  let V := Matrix.validate (option_map to_vmatrix (cs_matrix c)) p in
  let U := exists s, In s (in_scope_strings c) /\ has_unknown_token p s in
  (R = MRejected <-> V <> Matrix.Accept) /\
  (R = MUnknownToken <-> V = Matrix.Accept /\ p <> [] /\ U) /\
  ((exists c', R = MOk c') <-> V = Matrix.Accept /\ (p = [] \/ ~ U)) /\
  (* exactly one of the three *)
  (R = MRejected \/ R = MUnknownToken \/ exists c', R = MOk c') /\
  ~ (R = MRejected /\ R = MUnknownToken) /\
  ~ (R = MRejected /\ exists c', R = MOk c') /\
  ~ (R = MUnknownToken /\ exists c', R = MOk c').
Proof.
  intros c p R V U.
  assert (H1 : R = MRejected <-> V <> Matrix.Accept).
  { unfold R, V, interpolate_matrix_permutation.
    destruct (Matrix.validate (option_map to_vmatrix (cs_matrix c)) p).
    - split; [|intros N; contradiction N; reflexivity].
      destruct p; [discriminate|]. destruct (minterp_command _ c); discriminate.
    - split; [discriminate|reflexivity]. }
  assert (H2 : R = MUnknownToken <-> V = Matrix.Accept /\ p <> [] /\ U).
  { split.
    - intros E. assert (Hv : V = Matrix.Accept).
      { unfold R, V, interpolate_matrix_permutation in *.
        destruct (Matrix.validate (option_map to_vmatrix (cs_matrix c)) p); [reflexivity|discriminate E]. }
      assert (Hp : p <> []).
      { intros ->. unfold R, V, interpolate_matrix_permutation in *. rewrite Hv in E. discriminate E. }
      split; [exact Hv|]. split; [exact Hp|]. apply (unknown_token_fails_iff c p Hp Hv). exact E.
    - intros (Hv & Hp & Hu). apply (unknown_token_fails_iff c p Hp Hv). exact Hu. }
  assert (H3 : (exists c', R = MOk c') <-> V = Matrix.Accept /\ (p = [] \/ ~ U)).
  { split.
    - intros (c' & E). assert (Hv : V = Matrix.Accept).
      { unfold R, V, interpolate_matrix_permutation in *.
        destruct (Matrix.validate (option_map to_vmatrix (cs_matrix c)) p); [reflexivity|discriminate E]. }
      split; [exact Hv|]. destruct p as [|x r]; [left; reflexivity|right].
      intros Hu. apply (unknown_token_fails_iff c (x :: r)) in Hu; [|discriminate|exact Hv].
      fold R in Hu. rewrite Hu in E. discriminate E.
    - intros (Hv & [->|Hn]).
      + exists c. apply empty_permutation_identity. exact Hv.
      + destruct R as [c'| |] eqn:ER.
        * exists c'. reflexivity.
        * exfalso. apply (proj1 H1); [reflexivity|exact Hv].
        * exfalso. apply Hn. apply (proj1 H2). reflexivity. }
  split; [exact H1|]. split; [exact H2|]. split; [exact H3|].
  split; [|split; [|split]].
  - destruct R as [c'| |]; [right; right; exists c'; reflexivity|left; reflexivity|right; left; reflexivity].
  - intros [A B]. rewrite A in B. discriminate B.
  - intros [A (c' & B)]. rewrite A in B. discriminate B.
  - intros [A (c' & B)]. rewrite A in B. discriminate B.
Qed.

(** ================================================================== *)
(** * Non-vacuity and counterexamples, by vm_compute *)

Lemma oat_opens : forall s, oat s -> opens_are_tokens s.
Proof.
  induction s as [|c r IH]; intros H a b E.
  - destruct a; discriminate E.
  - destruct H as [Hc Hr]. destruct a as [|ca a'].
    + cbn [String.append] in E |- *. injection E as -> ->. apply Hc. reflexivity.
    + cbn [String.append] in E. injection E as _ E. apply (IH Hr a' b E).
Qed.

Ltac oat_tac :=
  apply oat_opens; cbn [oat]; repeat split;
  let H := fresh in intros H; first [ vm_compute in H; discriminate H | vm_compute; discriminate ].

Definition ex_matrix : matrix :=
  mkMx (Some [("os", Some ["linux"; "mac"]); ("arch", Some ["x"; "y"])]) [] [].

Definition ex_step : command_step :=
  mkCmd "build-{{matrix.os}}"                                  (* key: token-looking, must stay *)
        "{{matrix.os}}/{{ matrix.arch }}"                      (* label *)
        "make {{matrix.os}} && echo {{matrix.arch}}{{matrix.os}} ${X}"   (* command *)
        [mkPlugin "docker-{{matrix.os}}#v1"
                  (GMap [("image-{{matrix.arch}}", GStr "img:{{matrix.os}}");
                         ("args", GSeq [GStr "--{{matrix.arch}}"; GInt 3%Z; GBool true])])]
        [("{{matrix.os}}", "{{matrix.os}}"); ("ARCH", "{{matrix.arch}}")]   (* env: first NAME must stay *)
        None (Some ex_matrix) None
        [("agents-{{matrix.os}}", GUMap [("queue", GStr "q-{{matrix.arch}}")]); ("depends_on", GStr "plain")].

Definition ex_perm : list (string * string) := [("os", "linux"); ("arch", "x")].

Example accepted_example :
  interpolate_matrix_permutation ex_step ex_perm =
  MOk (mkCmd "build-{{matrix.os}}"
             "linux/x"
             "make linux && echo xlinux ${X}"
             [mkPlugin "docker-linux#v1"
                       (GMap [("image-x", GStr "img:linux");
                              ("args", GSeq [GStr "--x"; GInt 3%Z; GBool true])])]
             [("{{matrix.os}}", "linux"); ("ARCH", "x")]
             None (Some ex_matrix) None
             [("agents-linux", GUMap [("queue", GStr "q-x")]); ("depends_on", GStr "plain")]).
Proof. vm_compute. reflexivity. Qed.

Example unknown_token_example :
  interpolate_matrix_permutation
    (mkCmd "k" "{{matrix.nope}}" "make {{matrix.os}}" [] [] None (Some ex_matrix) None []) ex_perm
  = MUnknownToken.
Proof. vm_compute. reflexivity. Qed.

(* ... and not an empty string: the same label with a known dimension goes through *)
Example known_token_example :
  interpolate_matrix_permutation
    (mkCmd "k" "{{matrix.arch}}" "make {{matrix.os}}" [] [] None (Some ex_matrix) None []) ex_perm
  = MOk (mkCmd "k" "x" "make linux" [] [] None (Some ex_matrix) None []).
Proof. vm_compute. reflexivity. Qed.

(* near-misses are not tokens: they stay, and they do not make the call fail *)
Example near_miss_example :
  interpolate_matrix_permutation
    (mkCmd "k" "{{matrix.}} {matrix.os} {{ matrix .os}}" "{{matrixx}}" [] [] None (Some ex_matrix) None []) ex_perm
  = MOk (mkCmd "k" "{{matrix.}} {matrix.os} {{ matrix .os}}" "{{matrixx}}" [] [] None (Some ex_matrix) None []).
Proof. vm_compute. reflexivity. Qed.

Example rejected_example :
  interpolate_matrix_permutation ex_step [("os", "linux"); ("arch", "z")] = MRejected.
Proof. vm_compute. reflexivity. Qed.

Example empty_permutation_example :
  let c := mkCmd "k" "{{matrix}}" "{{matrix.nope}}" [] [] None None None [] in
  interpolate_matrix_permutation c [] = MOk c.
Proof. vm_compute. reflexivity. Qed.

(** theorems 1-3 apply to the example: their hypotheses are satisfiable *)
Example ex_perm_open_free : open_free_perm ex_perm.
Proof. intros d v [E|[E|[]]]; injection E as <- <-; split; reflexivity. Qed.

Example ex_step_opens_are_tokens : forall s, In s (in_scope_strings ex_step) -> opens_are_tokens s.
Proof.
  intros s H. vm_compute in H.
  repeat (destruct H as [<-|H]; [oat_tac|]). destruct H.
Qed.

Example ex_step_token_free : forall c' s',
  interpolate_matrix_permutation ex_step ex_perm = MOk c' -> In s' (in_scope_strings c') -> token_free s'.
Proof.
  intros c' s' H I.
  refine (proj1 (proj2 (accepted_step_token_free ex_step ex_perm c' H _ ex_perm_open_free ex_step_opens_are_tokens s' I))).
  discriminate.
Qed.

(** ------------------------------------------------------------------ *)
(** THE LITERAL STATEMENT OF 2 IS FALSE.  "No value of p contains a token" does not keep tokens out
    of the result: replacement is a single pass, so replacement text can complete the plain text
    around it into a NEW token, which stays. *)

Definition anon_matrix (v : string) : matrix := mkMx (Some [("", Some [v])]) [] [].

(* (a) the value "m" is token free, the stray "{{" of the command is completed by it *)
Example accepted_step_token_free_counterexample :
  let c := mkCmd "k" "" "{{{{matrix}}atrix}}" [] [] None (Some (anon_matrix "m")) None [] in
  let p := [("", "m")] in
  token_free_perm p /\ open_free_perm p /\
  exists c', interpolate_matrix_permutation c p = MOk c' /\ p <> [] /\
             cs_command c' = "{{matrix}}" /\ has_known_token p (cs_command c').
Proof.
  cbv zeta. split; [|split].
  - intros d v [E|[]]. injection E as <- <-. vm_compute. split; [reflexivity|exact I].
  - intros d v [E|[]]. injection E as <- <-. split; reflexivity.
  - eexists. split; [vm_compute; reflexivity|]. split; [discriminate|]. split; [reflexivity|].
    exists "", "{{matrix}}", "", "". split; [reflexivity|]. split; [|left; reflexivity].
    exists "", "". repeat split; reflexivity.
Qed.

(* (b) every "{{" of the command opens a token, the value "{" is token free but ends with "{" *)
Example accepted_step_token_free_counterexample_value :
  let c := mkCmd "k" "" "{{matrix}}{matrix}}" [] [] None (Some (anon_matrix "{")) None [] in
  let p := [("", "{")] in
  token_free_perm p /\ (forall s, In s (in_scope_strings c) -> opens_are_tokens s) /\
  exists c', interpolate_matrix_permutation c p = MOk c' /\ p <> [] /\
             cs_command c' = "{{matrix}}" /\ has_known_token p (cs_command c').
Proof.
  cbv zeta. split; [|split].
  - intros d v [E|[]]. injection E as <- <-. vm_compute. split; [reflexivity|exact I].
  - intros s H. vm_compute in H. repeat (destruct H as [<-|H]; [oat_tac|]). destruct H.
  - eexists. split; [vm_compute; reflexivity|]. split; [discriminate|]. split; [reflexivity|].
    exists "", "{{matrix}}", "", "". split; [reflexivity|]. split; [|left; reflexivity].
    exists "", "". repeat split; reflexivity.
Qed.

(** colliding renamed keys: the closed form [map_gv] / [map_rem] follows the model (greatest original
    key wins in a Go map), which is why 1 is stated with the walker and not with a plain [map] *)
Example collision_example :
  let c := mkCmd "k" "" "" [] [] None (Some ex_matrix) None [("a-{{matrix.os}}", GStr "1"); ("a-linux", GStr "2")] in
  interpolate_matrix_permutation c ex_perm =
  MOk (mkCmd "k" "" "" [] [] None (Some ex_matrix) None [("a-linux", GStr "1")]).
Proof. vm_compute. reflexivity. Qed.

Print Assumptions accepted_step_content.
Print Assumptions accepted_step_token_free.
Print Assumptions unknown_token_fails_iff.
Print Assumptions result_trichotomy.
Print Assumptions accepted_step_closed_form.
Print Assumptions map_gv_is_walker.
Print Assumptions accepted_step_token_free_counterexample.
Print Assumptions accepted_step_token_free_counterexample_value.
