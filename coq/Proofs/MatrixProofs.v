(** Proofs about the model of validatePermutation (Model/Matrix.v). *)
From Coq Require Import String List Bool Arith Lia Permutation.
From GP Require Import Model.Matrix.
Import ListNotations.

Definition wf_adj (m : matrix) (a : adjustment) : Prop :=
  length (awith a) = length (msetup m) /\
  forall d, In d (map fst (awith a)) -> setup_get m d <> None.
Definition matches (a : adjustment) (p : perm) : Prop :=
  forall d v, In (d, v) p -> with_get a d = v.
Definition in_product (m : matrix) (p : perm) : Prop :=
  forall d v, In (d, v) p -> exists l, setup_get m d = Some l /\ In v l.

(* the specification, from the property text *)
Definition accepts (m : option matrix) (p : perm) : Prop :=
  match m with
  | None => p = []
  | Some m =>
      length p = length (msetup m) /\
      (forall d, In d (map fst p) -> setup_get m d <> None) /\
      (forall oa, In oa (madj m) -> exists a, oa = Some a /\ wf_adj m a) /\
      (in_product m p \/ exists a, In (Some a) (madj m) /\ matches a p) /\
      ~ (exists a, In (Some a) (madj m) /\ matches a p /\ should_skip a = true)
  end.

(** * Reflection of the boolean tests *)

Lemma dims_known_spec : forall m ks,
  dims_known m ks = true <-> forall d, In d ks -> setup_get m d <> None.
Proof.
  intros m ks. unfold dims_known. rewrite forallb_forall. split.
  - intros H d Hd. specialize (H d Hd). destruct (setup_get m d); congruence.
  - intros H d Hd. specialize (H d Hd). destruct (setup_get m d); congruence.
Qed.

Lemma adj_matches_spec : forall a p, adj_matches a p = true <-> matches a p.
Proof.
  intros a p. unfold adj_matches, matches. rewrite forallb_forall. split.
  - intros H d v Hin. specialize (H (d, v) Hin). simpl in H.
    apply String.eqb_eq in H. auto.
  - intros H [d v] Hin. simpl. apply String.eqb_eq. symmetry. apply H; auto.
Qed.

Lemma in_setup_spec : forall m p, in_setup m p = true <-> in_product m p.
Proof.
  intros m p. unfold in_setup, in_product. rewrite forallb_forall. split.
  - intros H d v Hin. specialize (H (d, v) Hin). simpl in H.
    destruct (setup_get m d) as [l|]; [|discriminate].
    exists l. split; [reflexivity|].
    apply existsb_exists in H. destruct H as [x [Hx He]].
    apply String.eqb_eq in He. subst. assumption.
  - intros H [d v] Hin. simpl. destruct (H d v Hin) as [l [E Hl]].
    rewrite E. apply existsb_exists. exists v. split; [assumption|].
    apply String.eqb_refl.
Qed.

(** * The adjustment loop *)

Lemma adj_loop_spec : forall m p adjs valid,
  adj_loop m p adjs valid = Accept <->
  (forall oa, In oa adjs -> exists a, oa = Some a /\ wf_adj m a) /\
  (valid = true \/ exists a, In (Some a) adjs /\ matches a p) /\
  ~ (exists a, In (Some a) adjs /\ matches a p /\ should_skip a = true).
Proof.
  intros m p adjs. induction adjs as [|oa r IH]; intros valid.
  - simpl. destruct valid; split.
    + intros _. split; [intros ? []|]. split; [left; reflexivity|].
      intros [a [[] _]].
    + reflexivity.
    + discriminate.
    + intros [_ [[H|[a [[] _]]] _]]. discriminate.
  - destruct oa as [a|].
    2:{ simpl. split; [discriminate|]. intros [H _].
        destruct (H None (or_introl eq_refl)) as [a [E _]]. discriminate. }
    simpl.
    destruct (Nat.eqb (length (awith a)) (length (msetup m))) eqn:El; simpl.
    2:{ split; [discriminate|]. intros [H _].
        destruct (H (Some a) (or_introl eq_refl)) as [a' [E [W _]]].
        inversion E; subst a'. apply Nat.eqb_neq in El. contradiction. }
    apply Nat.eqb_eq in El.
    destruct (dims_known m (map fst (awith a))) eqn:Ed; simpl.
    2:{ split; [discriminate|]. intros [H _].
        destruct (H (Some a) (or_introl eq_refl)) as [a' [E [_ W]]].
        inversion E; subst a'. apply dims_known_spec in W. congruence. }
    assert (W : wf_adj m a).
    { split; [assumption|]. apply dims_known_spec. assumption. }
    destruct (adj_matches a p) eqn:Em; simpl.
    + assert (Hm : matches a p) by (apply adj_matches_spec; assumption).
      destruct (should_skip a) eqn:Es.
      * split; [discriminate|]. intros [_ [_ N]]. exfalso. apply N.
        exists a. split; [left; reflexivity|]. split; assumption.
      * rewrite IH. split.
        -- intros [H1 [_ H3]]. split; [|split].
           ++ intros oa [<-|Hin]; [exists a; split; [reflexivity|assumption]|auto].
           ++ right. exists a. split; [left; reflexivity|assumption].
           ++ intros [a' [[E|Hin] [Hm' Hs]]].
              ** inversion E; subst a'. congruence.
              ** apply H3. exists a'. auto.
        -- intros [H1 [_ H3]]. split; [|split].
           ++ intros oa Hin. apply H1. right. assumption.
           ++ left. reflexivity.
           ++ intros [a' [Hin R]]. apply H3. exists a'. split; [right; assumption|assumption].
    + assert (Hnm : ~ matches a p).
      { intros Hm. apply adj_matches_spec in Hm. congruence. }
      rewrite IH. split.
      * intros [H1 [H2 H3]]. split; [|split].
        -- intros oa [<-|Hin]; [exists a; split; [reflexivity|assumption]|auto].
        -- destruct H2 as [H2|[a' [Hin Hm]]]; [left; assumption|].
           right. exists a'. split; [right; assumption|assumption].
        -- intros [a' [[E|Hin] [Hm' Hs]]].
           ++ inversion E; subst a'. contradiction.
           ++ apply H3. exists a'. auto.
      * intros [H1 [H2 H3]]. split; [|split].
        -- intros oa Hin. apply H1. right. assumption.
        -- destruct H2 as [H2|[a' [[E|Hin] Hm]]]; [left; assumption| |].
           ++ inversion E; subst a'. contradiction.
           ++ right. exists a'. auto.
        -- intros [a' [Hin R]]. apply H3. exists a'. split; [right; assumption|assumption].
Qed.

(** * Main characterisation *)

Theorem validate_nil_matrix : forall p, validate None p = Accept <-> p = [].
Proof.
  intros p. simpl. destruct p as [|x r]; simpl.
  - split; reflexivity.
  - split; discriminate.
Qed.

Theorem validate_ok_iff : forall m p, validate m p = Accept <-> accepts m p.
Proof.
  intros [m|] p.
  2:{ apply validate_nil_matrix. }
  unfold validate, accepts.
  destruct (Nat.eqb (length p) (length (msetup m))) eqn:El; simpl.
  2:{ split; [discriminate|]. intros [H _]. apply Nat.eqb_neq in El. contradiction. }
  apply Nat.eqb_eq in El.
  destruct (dims_known m (map fst p)) eqn:Ed; simpl.
  2:{ split; [discriminate|]. intros [_ [H _]]. apply dims_known_spec in H. congruence. }
  rewrite adj_loop_spec. rewrite in_setup_spec.
  rewrite dims_known_spec in Ed. tauto.
Qed.

Theorem should_skip_spec : forall a,
  should_skip a = true <-> (askip a = SkBool true \/ askip a = SkOther).
Proof.
  intros a. unfold should_skip. destruct (askip a) as [|b|].
  - split; [discriminate|]. intros [H|H]; discriminate.
  - split.
    + intros ->. left. reflexivity.
    + intros [H|H]; [inversion H; reflexivity|discriminate].
  - split; [intros _; right; reflexivity|reflexivity].
Qed.

(** * Independence from Go's map iteration order *)

Lemma accepts_perm_order : forall m p p', Permutation p p' -> accepts m p -> accepts m p'.
Proof.
  intros [m|] p p' HP; simpl.
  2:{ intros ->. apply Permutation_nil in HP. assumption. }
  assert (Hin : forall x, In x p' -> In x p).
  { intros x Hx. apply Permutation_in with (l := p'); [apply Permutation_sym|]; assumption. }
  assert (Hmt : forall a, matches a p -> matches a p').
  { intros a Hm d v Hdv. apply Hm. apply Hin. assumption. }
  assert (Hmt' : forall a, matches a p' -> matches a p).
  { intros a Hm d v Hdv. apply Hm. apply Permutation_in with (l := p); assumption. }
  intros [H1 [H2 [H3 [H4 H5]]]]. split; [|split; [|split; [|split]]].
  - rewrite <- H1. symmetry. apply Permutation_length. assumption.
  - intros d Hd. apply H2.
    apply Permutation_in with (l := map fst p'); [|assumption].
    apply Permutation_map. apply Permutation_sym. assumption.
  - assumption.
  - destruct H4 as [H4|[a [Ha Hm]]].
    + left. intros d v Hdv. apply H4. apply Hin. assumption.
    + right. exists a. auto.
  - intros [a [Ha [Hm Hs]]]. apply H5. exists a. auto.
Qed.

Theorem validate_perm_order : forall m p p', Permutation p p' ->
  (validate m p = Accept <-> validate m p' = Accept).
Proof.
  intros m p p' HP. rewrite !validate_ok_iff. split.
  - apply accepts_perm_order. assumption.
  - apply accepts_perm_order. apply Permutation_sym. assumption.
Qed.

(** assoc on lists with distinct keys *)

Lemma assoc_some_in : forall T (l : list (string * T)) k v,
  assoc k l = Some v -> In (k, v) l.
Proof.
  intros T l k v. induction l as [|[k' v'] r IH]; simpl.
  - discriminate.
  - destruct (String.eqb k k') eqn:E.
    + intros H. inversion H; subst. apply String.eqb_eq in E. subst. left. reflexivity.
    + intros H. right. auto.
Qed.

Lemma in_assoc_nodup : forall T (l : list (string * T)) k v,
  NoDup (map fst l) -> In (k, v) l -> assoc k l = Some v.
Proof.
  intros T l k v. induction l as [|[k' v'] r IH]; simpl.
  - intros _ [].
  - intros ND [E|Hin].
    + inversion E; subst. rewrite String.eqb_refl. reflexivity.
    + inversion ND as [|? ? Hn ND']; subst.
      destruct (String.eqb k k') eqn:E.
      * apply String.eqb_eq in E. subst k'. exfalso. apply Hn.
        apply in_map with (f := fst) in Hin. assumption.
      * auto.
Qed.

Lemma assoc_none_notin : forall T (l : list (string * T)) k,
  assoc k l = None <-> ~ In k (map fst l).
Proof.
  intros T l k. induction l as [|[k' v'] r IH]; simpl.
  - split; [intros _ []|reflexivity].
  - destruct (String.eqb k k') eqn:E.
    + apply String.eqb_eq in E. subst. split; [discriminate|].
      intros H. exfalso. apply H. left. reflexivity.
    + apply String.eqb_neq in E. rewrite IH. split.
      * intros H [H'|H']; [congruence|contradiction].
      * intros H H'. apply H. right. assumption.
Qed.

Lemma assoc_perm : forall T (l l' : list (string * T)) k,
  NoDup (map fst l) -> Permutation l l' -> assoc k l = assoc k l'.
Proof.
  intros T l l' k ND HP.
  assert (ND' : NoDup (map fst l')).
  { apply Permutation_NoDup with (l := map fst l); [|assumption].
    apply Permutation_map. assumption. }
  destruct (assoc k l) as [v|] eqn:E.
  - symmetry. apply in_assoc_nodup; [assumption|].
    apply Permutation_in with (l := l); [assumption|].
    apply assoc_some_in. assumption.
  - symmetry. apply assoc_none_notin. apply assoc_none_notin in E.
    intros H. apply E.
    apply Permutation_in with (l := map fst l'); [|assumption].
    apply Permutation_map. apply Permutation_sym. assumption.
Qed.

(** validate depends on the setup only through its length and [setup_get] *)

Lemma forallb_ext_all : forall A (f g : A -> bool) l,
  (forall x, f x = g x) -> forallb f l = forallb g l.
Proof.
  intros A f g l H. induction l as [|x r IH]; simpl; [reflexivity|].
  rewrite H, IH. reflexivity.
Qed.

Lemma dims_known_ext : forall m m' ks,
  (forall d, setup_get m d = setup_get m' d) -> dims_known m ks = dims_known m' ks.
Proof.
  intros m m' ks H. unfold dims_known. apply forallb_ext_all.
  intros d. rewrite H. reflexivity.
Qed.

Lemma in_setup_ext : forall m m' p,
  (forall d, setup_get m d = setup_get m' d) -> in_setup m p = in_setup m' p.
Proof.
  intros m m' p H. unfold in_setup. apply forallb_ext_all.
  intros dv. rewrite H. reflexivity.
Qed.

Lemma adj_loop_ext : forall m m' p adjs valid,
  length (msetup m) = length (msetup m') ->
  (forall d, setup_get m d = setup_get m' d) ->
  adj_loop m p adjs valid = adj_loop m' p adjs valid.
Proof.
  intros m m' p adjs valid HL HG. revert valid.
  induction adjs as [|[a|] r IH]; intros valid; simpl; try reflexivity.
  rewrite HL. rewrite (dims_known_ext m m' _ HG). rewrite !IH. reflexivity.
Qed.

Lemma validate_ext : forall m m' p,
  length (msetup m) = length (msetup m') ->
  (forall d, setup_get m d = setup_get m' d) ->
  madj m = madj m' ->
  validate (Some m) p = validate (Some m') p.
Proof.
  intros m m' p HL HG HA. unfold validate.
  rewrite HL, HA, (dims_known_ext m m' _ HG), (in_setup_ext m m' _ HG).
  rewrite (adj_loop_ext m m' p _ _ HL HG). reflexivity.
Qed.

Theorem validate_setup_order : forall su su' adjs p,
  NoDup (map fst su) -> Permutation su su' ->
  (validate (Some (mkMatrix su adjs)) p = Accept <-> validate (Some (mkMatrix su' adjs)) p = Accept).
Proof.
  intros su su' adjs p ND HP.
  rewrite (validate_ext (mkMatrix su adjs) (mkMatrix su' adjs) p).
  - tauto.
  - simpl. apply Permutation_length. assumption.
  - intros d. unfold setup_get. simpl.
    rewrite (assoc_perm _ su su' d ND HP). reflexivity.
  - reflexivity.
Qed.

(** * Exactness of the dimension set *)

Lemma setup_get_in : forall m d, setup_get m d <> None -> In d (map fst (msetup m)).
Proof.
  intros m d H. unfold setup_get in H.
  destruct (assoc d (msetup m)) as [v|] eqn:E.
  - apply assoc_some_in in E. apply in_map with (f := fst) in E. assumption.
  - congruence.
Qed.

Theorem accepted_dims_exact : forall m p,
  NoDup (map fst p) -> NoDup (map fst (msetup m)) -> validate (Some m) p = Accept ->
  forall d, In d (map fst p) <-> In d (map fst (msetup m)).
Proof.
  intros m p NDp NDs HV. apply validate_ok_iff in HV.
  destruct HV as [HL [HD _]].
  assert (I1 : incl (map fst p) (map fst (msetup m))).
  { intros d Hd. apply setup_get_in. apply HD. assumption. }
  assert (I2 : incl (map fst (msetup m)) (map fst p)).
  { apply NoDup_length_incl; [assumption| |assumption].
    rewrite !map_length. rewrite HL. apply Nat.le_refl. }
  intros d. split; [apply I1|apply I2].
Qed.

(** * Non-vacuity *)

Example accepts_example :
  let m := mkMatrix [("os"%string, Some ["linux"%string; "mac"%string])]
                    [Some (mkAdj [("os"%string, "win"%string)] SkAbsent);
                     Some (mkAdj [("os"%string, "mac"%string)] (SkBool true))] in
  validate (Some m) [("os"%string, "linux"%string)] = Accept /\
  validate (Some m) [("os"%string, "win"%string)] = Accept /\
  validate (Some m) [("os"%string, "mac"%string)] = Reject RSkipped /\
  validate (Some m) [("os"%string, "bsd"%string)] = Reject RNoMatch.
Proof.
  cbv zeta. repeat split; vm_compute; reflexivity.
Qed.

Print Assumptions validate_ok_iff.
Print Assumptions validate_setup_order.
