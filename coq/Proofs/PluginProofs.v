(** Proofs about the FullSource model (Model/Plugin.v). *)
From Coq Require Import String List Ascii Bool Arith Lia.
From GP Require Import Model.Plugin.
Import ListNotations.
Local Open Scope string_scope.

Definition domain_char (a : ascii) : bool :=
  name_char a || Ascii.eqb a "/"%char || Ascii.eqb a "#"%char || Ascii.eqb a ":"%char
  || Ascii.eqb a "@"%char || Ascii.eqb a "\"%char.
Definition comp_ok (c : string) : bool :=
  negb (String.eqb c "") && negb (String.eqb c ".") && negb (String.eqb c "..").
(* the documented forms: allowed bytes, and a ref (text after the first '#') that is
   empty or has only non-empty, non-dot path components *)
Definition in_domain (s : string) : bool :=
  all_chars domain_char s &&
  match snd (cut "#"%char s) with
  | None => true
  | Some f => String.eqb f "" || forallb comp_ok (split "/"%char f)
  end.

(** * Generic string lemmas *)

Lemma app_nil_r_s : forall s : string, s ++ "" = s.
Proof. induction s; simpl; congruence. Qed.

Lemma app_assoc_s : forall a b c : string, (a ++ b) ++ c = a ++ (b ++ c).
Proof. induction a; simpl; intros; congruence. Qed.

Lemma length_app_s : forall a b : string, String.length (a ++ b) = String.length a + String.length b.
Proof. induction a; simpl; intros; auto. Qed.

Lemma has_char_app : forall c a b, has_char c (a ++ b) = has_char c a || has_char c b.
Proof.
  induction a; simpl; intros; auto.
  rewrite IHa. apply orb_assoc.
Qed.

Lemma cut_nochar : forall c s, has_char c s = false -> cut c s = (s, None).
Proof.
  induction s; simpl; intros H; auto.
  apply orb_false_iff in H. destruct H as [H1 H2].
  rewrite H1, (IHs H2). reflexivity.
Qed.

Lemma cut_app : forall c a b, has_char c a = false -> cut c (a ++ String c b) = (a, Some b).
Proof.
  induction a; simpl; intros b H.
  - rewrite Ascii.eqb_refl. reflexivity.
  - apply orb_false_iff in H. destruct H as [H1 H2].
    rewrite H1, (IHa b H2). reflexivity.
Qed.

Lemma cut_fst_app : forall c a b, has_char c a = false ->
  fst (cut c (a ++ b)) = a ++ fst (cut c b).
Proof.
  induction a; simpl; intros b H; auto.
  apply orb_false_iff in H. destruct H as [H1 H2].
  rewrite H1. specialize (IHa b H2).
  destruct (cut c (a0 ++ b)). simpl in *. congruence.
Qed.

Lemma cut_spec : forall c s u fr, cut c s = (u, fr) ->
  has_char c u = false /\
  s = u ++ match fr with None => "" | Some x => String c x end.
Proof.
  induction s; simpl; intros u fr H.
  - inversion H; subst. auto.
  - destruct (Ascii.eqb_spec a c).
    + inversion H; subst. auto.
    + destruct (cut c s) as [b t]. inversion H; subst.
      destruct (IHs b fr eq_refl) as [I1 I2]. simpl.
      split.
      * rewrite I1. apply Ascii.eqb_neq in n. rewrite n. reflexivity.
      * congruence.
Qed.

Lemma split_nonnil : forall c s, split c s <> [].
Proof.
  destruct s; simpl; try discriminate.
  destruct (Ascii.eqb a c); try discriminate.
  destruct (split c s); discriminate.
Qed.

Lemma split_nochar : forall c s, has_char c s = false -> split c s = [s].
Proof.
  induction s; simpl; intros H; auto.
  apply orb_false_iff in H. destruct H as [H1 H2].
  rewrite H1, (IHs H2). reflexivity.
Qed.

Lemma split_app : forall c a b, has_char c a = false ->
  split c (a ++ String c b) = a :: split c b.
Proof.
  induction a; simpl; intros b H.
  - rewrite Ascii.eqb_refl. reflexivity.
  - apply orb_false_iff in H. destruct H as [H1 H2].
    rewrite H1, (IHa b H2). reflexivity.
Qed.

Lemma split_app_nochar : forall c a b, has_char c a = false ->
  split c (a ++ b) =
  match split c b with p :: ps => (a ++ p) :: ps | [] => [a] end.
Proof.
  induction a; simpl; intros b H.
  - destruct (split c b) eqn:E; auto. destruct (split_nonnil _ _ E).
  - apply orb_false_iff in H. destruct H as [H1 H2].
    rewrite H1, (IHa b H2). destruct (split c b); reflexivity.
Qed.

Lemma split_no_c : forall c s x, In x (split c s) -> has_char c x = false.
Proof.
  induction s; simpl; intros x H.
  - destruct H as [H|[]]. subst. reflexivity.
  - destruct (Ascii.eqb a c) eqn:E.
    + destruct H as [H|H]; [subst; reflexivity | auto].
    + destruct (split c s) as [|p ps] eqn:Es.
      * destruct (split_nonnil _ _ Es).
      * destruct H as [H|H].
        -- subst. simpl. rewrite E. apply IHs. left; reflexivity.
        -- apply IHs. right; assumption.
Qed.

Lemma join_cons2 : forall sep x y l, join sep (x :: y :: l) = x ++ sep ++ join sep (y :: l).
Proof. reflexivity. Qed.

Lemma join_split : forall c s, join (String c "") (split c s) = s.
Proof.
  induction s.
  - reflexivity.
  - cbn [split]. destruct (Ascii.eqb_spec a c).
    + subst. destruct (split c s) as [|p ps] eqn:Es.
      * destruct (split_nonnil _ _ Es).
      * rewrite join_cons2. rewrite IHs. reflexivity.
    + destruct (split c s) as [|p ps] eqn:Es.
      * destruct (split_nonnil _ _ Es).
      * destruct ps as [|q qs].
        -- simpl in *. congruence.
        -- rewrite join_cons2. rewrite join_cons2 in IHs.
           rewrite <- IHs. reflexivity.
Qed.

(** * path.Clean is the identity on well-formed relative paths *)

Lemma comp_ok_unfold : forall c, comp_ok c = true -> c <> "" /\ c <> "." /\ c <> "..".
Proof.
  unfold comp_ok. intros c H.
  apply andb_true_iff in H. destruct H as [H H3].
  apply andb_true_iff in H. destruct H as [H1 H2].
  repeat split; intros E; subst; discriminate.
Qed.

Lemma comp_ok_intro : forall c, c <> "" -> c <> "." -> c <> ".." -> comp_ok c = true.
Proof.
  unfold comp_ok. intros c H1 H2 H3.
  destruct (String.eqb_spec c ""); [contradiction|].
  destruct (String.eqb_spec c "."); [contradiction|].
  destruct (String.eqb_spec c ".."); [contradiction|].
  reflexivity.
Qed.

Lemma comp_ok_long : forall c, 3 <= String.length c -> comp_ok c = true.
Proof.
  intros c H. apply comp_ok_intro; intros E; subst; simpl in H; lia.
Qed.

Lemma comp_ok_first : forall a s, Ascii.eqb a "."%char = false -> comp_ok (String a s) = true.
Proof.
  intros a s H. apply Ascii.eqb_neq in H.
  apply comp_ok_intro; intros E; inversion E; subst; apply H; reflexivity.
Qed.

Lemma clean_comps_ok : forall l st, forallb comp_ok l = true ->
  clean_comps l st = (rev st ++ l)%list.
Proof.
  induction l; intros st H.
  - simpl. rewrite app_nil_r. reflexivity.
  - cbn [forallb] in H. apply andb_true_iff in H. destruct H as [Ha Hl].
    destruct (comp_ok_unfold _ Ha) as [H1 [H2 H3]].
    cbn [clean_comps].
    destruct (String.eqb_spec a ""); [contradiction|].
    destruct (String.eqb_spec a "."); [contradiction|].
    destruct (String.eqb_spec a ".."); [contradiction|].
    rewrite (IHl _ Hl). cbn [rev]. rewrite <- app_assoc. reflexivity.
Qed.

Lemma clean_id : forall p, forallb comp_ok (split "/"%char p) = true -> clean p = p.
Proof.
  intros p H. unfold clean. rewrite (clean_comps_ok _ _ H). cbn [rev List.app].
  destruct (split "/"%char p) eqn:E.
  - destruct (split_nonnil _ _ E).
  - rewrite <- E. apply (join_split "/"%char).
Qed.

Lemma path_join3 : forall o l,
  comp_ok o = true -> has_char "/"%char o = false ->
  forallb comp_ok (split "/"%char l) = true ->
  path_join [plugin_host; o; l] = plugin_host ++ "/" ++ o ++ "/" ++ l.
Proof.
  intros o l Ho Hs Hl.
  assert (Ho' : o <> "") by (apply comp_ok_unfold; assumption).
  assert (Hl' : l <> "").
  { intros E. subst. simpl in Hl. discriminate. }
  unfold path_join. cbn [filter].
  change (String.eqb plugin_host "") with false. cbn [negb].
  destruct (String.eqb_spec o ""); [contradiction|].
  destruct (String.eqb_spec l ""); [contradiction|].
  cbn [negb]. rewrite !join_cons2. cbn [join].
  apply clean_id.
  change ("/" ++ o ++ "/" ++ l) with (String "/"%char (o ++ String "/"%char l)).
  rewrite split_app by reflexivity.
  rewrite split_app by assumption.
  cbn [forallb]. rewrite Ho, Hl. reflexivity.
Qed.

Lemma suffix_len : forall n, 3 <= String.length (n ++ plugin_suffix).
Proof. intros. rewrite length_app_s. simpl. lia. Qed.

Lemma last_segment_ok : forall n f,
  has_char "/"%char n = false ->
  (f = "" \/ forallb comp_ok (split "/"%char f) = true) ->
  forallb comp_ok (split "/"%char (last_segment n f)) = true.
Proof.
  intros n f Hn Hf.
  assert (Hp : has_char "/"%char (n ++ plugin_suffix) = false).
  { rewrite has_char_app, Hn. reflexivity. }
  unfold last_segment.
  destruct (String.eqb_spec f "").
  - rewrite split_nochar by assumption. cbn [forallb].
    rewrite comp_ok_long by apply suffix_len. reflexivity.
  - destruct Hf as [Hf|Hf]; [contradiction|].
    rewrite split_app_nochar by assumption.
    change ("#" ++ f) with (String "#"%char f).
    cbn [split]. change (Ascii.eqb "#"%char "/"%char) with false. cbv iota.
    destruct (split "/"%char f) as [|p ps] eqn:E.
    + destruct (split_nonnil _ _ E).
    + cbn [forallb] in *. apply andb_true_iff in Hf. destruct Hf as [_ Hps].
      rewrite Hps. rewrite comp_ok_long; [reflexivity|].
      rewrite length_app_s. pose proof (suffix_len n). lia.
Qed.

(** * The "unchanged" branches *)

Theorem leave_path : forall s,
  first_is "/"%char s || first_is "."%char s || first_is "\"%char s = true -> full_source s = s.
Proof.
  intros s H. unfold full_source.
  destruct (String.eqb_spec s ""); [subst; discriminate|].
  rewrite H. reflexivity.
Qed.

Theorem leave_colon : forall s,   (* URLs with a scheme, scp-style git@host:org/repo, C:\... *)
  has_char ":"%char (fst (cut "/"%char (fst (cut "#"%char s)))) = true -> full_source s = s.
Proof.
  intros s H. unfold full_source.
  destruct (String.eqb_spec s ""); [subst; reflexivity|].
  destruct (first_is "/"%char s || first_is "."%char s || first_is "\"%char s); [reflexivity|].
  destruct (cut "#"%char s) as [u frag]. cbn [fst] in H. rewrite H. reflexivity.
Qed.

Theorem leave_three_segments : forall s,
  3 <= length (split "/"%char (fst (cut "#"%char s))) -> full_source s = s.
Proof.
  intros s H. unfold full_source.
  destruct (String.eqb_spec s ""); [subst; reflexivity|].
  destruct (first_is "/"%char s || first_is "."%char s || first_is "\"%char s); [reflexivity|].
  destruct (cut "#"%char s) as [u frag]. cbn [fst] in H.
  destruct (has_char ":"%char (fst (cut "/"%char u))); [reflexivity|].
  destruct (split "/"%char u) as [|a [|b [|c l]]]; simpl in H; try lia; reflexivity.
Qed.

(** * Names and refs *)

Lemma name_char_not : forall a, name_char a = true ->
  Ascii.eqb a "/"%char = false /\ Ascii.eqb a "#"%char = false /\
  Ascii.eqb a ":"%char = false /\ Ascii.eqb a "\"%char = false.
Proof.
  intros a H.
  destruct a as [[] [] [] [] [] [] [] []]; vm_compute in H; try discriminate H;
    vm_compute; auto.
Qed.

Lemma all_name_nochar : forall c,
  (forall a, name_char a = true -> Ascii.eqb a c = false) ->
  forall s, all_chars name_char s = true -> has_char c s = false.
Proof.
  intros c Hc. induction s; simpl; intros H; auto.
  apply andb_true_iff in H. destruct H as [H1 H2].
  rewrite (Hc _ H1), (IHs H2). reflexivity.
Qed.

Lemma is_name_facts : forall n, is_name n = true ->
  (exists a n', n = String a n' /\ Ascii.eqb a "/"%char = false /\
     Ascii.eqb a "."%char = false /\ Ascii.eqb a "\"%char = false) /\
  has_char "/"%char n = false /\ has_char "#"%char n = false /\
  has_char ":"%char n = false.
Proof.
  unfold is_name. intros n H.
  apply andb_true_iff in H. destruct H as [H H3].
  apply andb_true_iff in H. destruct H as [H1 H2].
  split.
  - destruct n as [|a n']; [discriminate|].
    exists a, n'. simpl in H2, H3.
    apply andb_true_iff in H2. destruct H2 as [Ha _].
    destruct (name_char_not _ Ha) as [A [_ [_ B]]].
    apply negb_true_iff in H3. auto.
  - repeat split; apply all_name_nochar; try assumption;
      intros a Ha; apply (name_char_not _ Ha).
Qed.

Lemma is_name_comp_ok : forall n, is_name n = true -> comp_ok n = true.
Proof.
  intros n H. destruct (is_name_facts _ H) as [[a [n' [E [_ [D _]]]]] _].
  subst. apply comp_ok_first. assumption.
Qed.

Lemma ok_comp_comp_ok : forall l, forallb ok_comp l = true -> forallb comp_ok l = true.
Proof.
  induction l; simpl; intros H; auto.
  apply andb_true_iff in H. destruct H as [H1 H2].
  rewrite (IHl H2), andb_true_r.
  unfold ok_comp in H1. apply andb_true_iff in H1. destruct H1 as [H1 _]. exact H1.
Qed.

Definition ref_of (r : option string) : string :=
  match r with Some x => x | None => "" end.

Lemma cut_opt_ref : forall u r, has_char "#"%char u = false ->
  cut "#"%char (u ++ opt_ref r) = (u, r).
Proof.
  intros u [x|] H; unfold opt_ref.
  - change ("#" ++ x) with (String "#"%char x). apply cut_app. assumption.
  - rewrite app_nil_r_s. apply cut_nochar. assumption.
Qed.

Lemma expand_core : forall o n r,
  comp_ok o = true -> has_char "/"%char o = false ->
  is_name n = true -> ok_opt_ref r = true ->
  path_join [plugin_host; o; last_segment n (ref_of r)] =
  "github.com/" ++ o ++ "/" ++ n ++ "-buildkite-plugin" ++ opt_ref r.
Proof.
  intros o n r Ho Hos Hn Hr.
  destruct (is_name_facts _ Hn) as [_ [Hns _]].
  rewrite path_join3; try assumption.
  - change (plugin_host ++ "/" ++ o ++ "/" ++ last_segment n (ref_of r))
      with ("github.com/" ++ o ++ "/" ++ last_segment n (ref_of r)).
    do 3 f_equal. unfold last_segment.
    destruct r as [x|]; cbn [ref_of opt_ref].
    + destruct (String.eqb_spec x "").
      * subst. discriminate Hr.
      * apply app_assoc_s.
    + change (String.eqb "" "") with true. cbv iota.
      rewrite app_nil_r_s. reflexivity.
  - apply last_segment_ok; [assumption|].
    destruct r as [x|]; cbn [ref_of]; [right|left; reflexivity].
    apply ok_comp_comp_ok. exact Hr.
Qed.

Theorem expand_bare : forall n r, is_name n = true -> ok_opt_ref r = true ->
  full_source (n ++ opt_ref r) = "github.com/buildkite-plugins/" ++ n ++ "-buildkite-plugin" ++ opt_ref r.
Proof.
  intros n r Hn Hr.
  destruct (is_name_facts _ Hn) as [[a [n' [E [A1 [A2 A3]]]]] [Hs [Hh Hc]]].
  assert (Hs1 : String.eqb (n ++ opt_ref r) "" = false) by (rewrite E; reflexivity).
  assert (Hs2 : first_is "/"%char (n ++ opt_ref r) || first_is "."%char (n ++ opt_ref r)
                || first_is "\"%char (n ++ opt_ref r) = false).
  { rewrite E. cbn [String.append first_is]. rewrite A1, A2, A3. reflexivity. }
  unfold full_source. rewrite Hs1, Hs2.
  rewrite (cut_opt_ref _ _ Hh).
  rewrite (cut_nochar _ _ Hs). cbn [fst]. rewrite Hc.
  rewrite (split_nochar _ _ Hs).
  apply (expand_core plugin_org n r); auto.
Qed.

Theorem expand_org : forall o n r, is_name o = true -> is_name n = true -> ok_opt_ref r = true ->
  full_source (o ++ "/" ++ n ++ opt_ref r) = "github.com/" ++ o ++ "/" ++ n ++ "-buildkite-plugin" ++ opt_ref r.
Proof.
  intros o n r Ho Hn Hr.
  destruct (is_name_facts _ Ho) as [[a [o' [E [A1 [A2 A3]]]]] [Hos [Hoh Hoc]]].
  destruct (is_name_facts _ Hn) as [_ [Hs [Hh Hc]]].
  replace (o ++ "/" ++ n ++ opt_ref r) with ((o ++ String "/"%char n) ++ opt_ref r)
    by (rewrite app_assoc_s; reflexivity).
  set (s := (o ++ String "/"%char n) ++ opt_ref r).
  assert (Hs1 : String.eqb s "" = false) by (unfold s; rewrite E; reflexivity).
  assert (Hs2 : first_is "/"%char s || first_is "."%char s || first_is "\"%char s = false).
  { unfold s. rewrite E. cbn [String.append first_is]. rewrite A1, A2, A3. reflexivity. }
  unfold full_source. rewrite Hs1, Hs2. unfold s.
  rewrite cut_opt_ref
    by (rewrite has_char_app; cbn [has_char]; rewrite Hoh, Hh; reflexivity).
  rewrite (cut_app _ _ _ Hos). cbn [fst]. rewrite Hoc.
  rewrite (split_app _ _ _ Hos). rewrite (split_nochar _ _ Hs).
  apply expand_core; auto. apply is_name_comp_ok; assumption.
Qed.

(** * Idempotence *)

Lemma three_seg : forall h o x,
  has_char "#"%char h = false -> has_char "#"%char o = false ->
  has_char "/"%char h = false -> has_char "/"%char o = false ->
  3 <= length (split "/"%char (fst (cut "#"%char (h ++ "/" ++ o ++ "/" ++ x)))).
Proof.
  intros h o x Hh Ho Sh So.
  change (h ++ "/" ++ o ++ "/" ++ x) with (h ++ String "/"%char (o ++ String "/"%char x)).
  rewrite cut_fst_app by assumption.
  assert (C : forall y, fst (cut "#"%char (String "/"%char y)) = String "/"%char (fst (cut "#"%char y))).
  { intros y. cbn [cut]. change (Ascii.eqb "/"%char "#"%char) with false. cbv iota.
    destruct (cut "#"%char y). reflexivity. }
  rewrite C. rewrite cut_fst_app by assumption. rewrite C.
  rewrite split_app by assumption. rewrite split_app by assumption.
  destruct (split "/"%char (fst (cut "#"%char x))) eqn:E.
  - destruct (split_nonnil _ _ E).
  - simpl. lia.
Qed.

Lemma full_source_cases : forall s, in_domain s = true ->
  full_source s = s \/
  exists o n f,
    comp_ok o = true /\ has_char "/"%char o = false /\ has_char "#"%char o = false /\
    has_char "/"%char n = false /\
    (f = "" \/ forallb comp_ok (split "/"%char f) = true) /\
    full_source s = path_join [plugin_host; o; last_segment n f].
Proof.
  intros s D. unfold in_domain in D.
  apply andb_true_iff in D. destruct D as [_ D].
  unfold full_source.
  destruct (String.eqb_spec s ""); [left; symmetry; assumption|].
  destruct (first_is "/"%char s || first_is "."%char s || first_is "\"%char s) eqn:F;
    [left; reflexivity|].
  apply orb_false_iff in F. destruct F as [F F3].
  apply orb_false_iff in F. destruct F as [F1 F2].
  destruct (cut "#"%char s) as [u frag] eqn:C. cbn [snd] in D.
  destruct (cut_spec _ _ _ _ C) as [Hu Es].
  destruct (has_char ":"%char (fst (cut "/"%char u))); [left; reflexivity|].
  assert (Hf : match frag with Some x => x | None => "" end = "" \/
               forallb comp_ok (split "/"%char match frag with Some x => x | None => "" end) = true).
  { destruct frag as [x|]; [|left; reflexivity].
    apply orb_true_iff in D. destruct D as [D|D]; [left|right; assumption].
    apply String.eqb_eq. assumption. }
  pose proof (join_split "/"%char u) as J.
  pose proof (split_no_c "/"%char u) as N.
  destruct (split "/"%char u) as [|a [|b [|c l]]]; try (left; reflexivity).
  - (* one segment *)
    right. exists plugin_org, a, (match frag with Some x => x | None => "" end).
    repeat split; try reflexivity; try assumption.
    apply N. left. reflexivity.
  - (* two segments *)
    right. exists a, b, (match frag with Some x => x | None => "" end).
    rewrite join_cons2 in J. cbn [join] in J.
    assert (Ha : has_char "#"%char a = false).
    { rewrite <- J in Hu. rewrite has_char_app in Hu.
      apply orb_false_iff in Hu. apply Hu. }
    repeat split; try assumption.
    + rewrite <- J in Es. subst s.
      destruct a as [|a0 a'].
      * cbn in F1. discriminate.
      * apply comp_ok_first. exact F2.
    + apply N. left. reflexivity.
    + apply N. right. left. reflexivity.
Qed.

Theorem idempotent : forall s, in_domain s = true -> full_source (full_source s) = full_source s.
Proof.
  intros s D.
  destruct (full_source_cases s D) as [H | [o [n [f [Ho [So [Ho' [Sn [Hf H]]]]]]]]].
  - rewrite H. exact H.
  - rewrite H.
    rewrite path_join3; try assumption.
    + apply leave_three_segments. apply three_seg; try assumption; reflexivity.
    + apply last_segment_ok; assumption.
Qed.

(* non-vacuity *)
Example in_domain_example : in_domain "docker-compose#v3.0.0" = true /\ in_domain "my-org/thing#feature/x" = true
   /\ in_domain "git@github.com:org/repo.git#main" = true.
Proof. repeat split; vm_compute; reflexivity. Qed.

Example expand_example : full_source "docker-compose#v3.0.0" = "github.com/buildkite-plugins/docker-compose-buildkite-plugin#v3.0.0".
Proof. vm_compute; reflexivity. Qed.

Print Assumptions idempotent.
Print Assumptions expand_org.
