
val negb : bool -> bool

type nat =
| O
| S of nat

val option_map : ('a1 -> 'a2) -> 'a1 option -> 'a2 option

type ('a, 'b) sum =
| Inl of 'a
| Inr of 'b

val fst : ('a1 * 'a2) -> 'a1

val snd : ('a1 * 'a2) -> 'a2

val length : 'a1 list -> nat

val app : 'a1 list -> 'a1 list -> 'a1 list

type comparison =
| Eq
| Lt
| Gt

type uint =
| Nil
| D0 of uint
| D1 of uint
| D2 of uint
| D3 of uint
| D4 of uint
| D5 of uint
| D6 of uint
| D7 of uint
| D8 of uint
| D9 of uint

type signed_int =
| Pos of uint
| Neg of uint

val revapp : uint -> uint -> uint

val rev : uint -> uint

module Little :
 sig
  val double : uint -> uint

  val succ_double : uint -> uint
 end

val add : nat -> nat -> nat

val mul : nat -> nat -> nat

val sub : nat -> nat -> nat

val eqb : nat -> nat -> bool

val eqb0 : bool -> bool -> bool

module Nat :
 sig
  val sub : nat -> nat -> nat

  val eqb : nat -> nat -> bool

  val leb : nat -> nat -> bool

  val ltb : nat -> nat -> bool

  val max : nat -> nat -> nat

  val divmod : nat -> nat -> nat -> nat -> nat * nat

  val div : nat -> nat -> nat

  val modulo : nat -> nat -> nat
 end

val nth : nat -> 'a1 list -> 'a1 -> 'a1

val nth_error : 'a1 list -> nat -> 'a1 option

val rev0 : 'a1 list -> 'a1 list

val concat : 'a1 list list -> 'a1 list

val map : ('a1 -> 'a2) -> 'a1 list -> 'a2 list

val fold_left : ('a1 -> 'a2 -> 'a1) -> 'a2 list -> 'a1 -> 'a1

val fold_right : ('a2 -> 'a1 -> 'a1) -> 'a1 -> 'a2 list -> 'a1

val existsb : ('a1 -> bool) -> 'a1 list -> bool

val forallb : ('a1 -> bool) -> 'a1 list -> bool

val filter : ('a1 -> bool) -> 'a1 list -> 'a1 list

val seq : nat -> nat -> nat list

type positive =
| XI of positive
| XO of positive
| XH

type n =
| N0
| Npos of positive

type z =
| Z0
| Zpos of positive
| Zneg of positive

module Pos :
 sig
  val succ : positive -> positive

  val add : positive -> positive -> positive

  val add_carry : positive -> positive -> positive

  val mul : positive -> positive -> positive

  val compare_cont : comparison -> positive -> positive -> comparison

  val compare : positive -> positive -> comparison

  val eqb : positive -> positive -> bool

  val iter_op : ('a1 -> 'a1 -> 'a1) -> positive -> 'a1 -> 'a1

  val to_nat : positive -> nat

  val of_succ_nat : nat -> positive

  val of_uint_acc : uint -> positive -> positive

  val of_uint : uint -> n

  val to_little_uint : positive -> uint

  val to_uint : positive -> uint
 end

module N :
 sig
  val add : n -> n -> n

  val mul : n -> n -> n

  val compare : n -> n -> comparison

  val to_nat : n -> nat

  val of_nat : nat -> n
 end

module Z :
 sig
  val opp : z -> z

  val eqb : z -> z -> bool

  val to_nat : z -> nat

  val of_nat : nat -> z

  val of_N : n -> z

  val of_uint : uint -> z

  val of_int : signed_int -> z

  val to_int : z -> signed_int
 end

type ascii =
| Ascii of bool * bool * bool * bool * bool * bool * bool * bool

val zero : ascii

val one : ascii

val shift : bool -> ascii -> ascii

val eqb1 : ascii -> ascii -> bool

val ascii_of_pos : positive -> ascii

val ascii_of_N : n -> ascii

val ascii_of_nat : nat -> ascii

val n_of_digits : bool list -> n

val n_of_ascii : ascii -> n

val nat_of_ascii : ascii -> nat

val compare0 : ascii -> ascii -> comparison

type string =
| EmptyString
| String of ascii * string

val eqb2 : string -> string -> bool

val compare1 : string -> string -> comparison

val leb0 : string -> string -> bool

val append : string -> string -> string

val length0 : string -> nat

val uint_of_char : ascii -> uint option -> uint option

module NilEmpty :
 sig
  val string_of_uint : uint -> string

  val uint_of_string : string -> uint option
 end

module NilZero :
 sig
  val string_of_uint : uint -> string

  val uint_of_string : string -> uint option

  val string_of_int : signed_int -> string

  val int_of_string : string -> signed_int option
 end

type sexp =
| A of string
| L of sexp list

val sexp_eqb : sexp -> sexp -> bool

val sbool : bool -> sexp

val z_to_string : z -> string

val nat_to_string : nat -> string

val string_to_z : string -> z option

val sz : z -> sexp

val snat : nat -> sexp

val atom_of : sexp -> string

val nat_of : sexp -> nat

val z_of : sexp -> z

val bool_of : sexp -> bool

val sopt : ('a1 -> sexp) -> 'a1 option -> sexp

val opt_of : (sexp -> 'a1) -> sexp -> 'a1 option

type 'v slot = { skey : string; sval : 'v; sdel : bool }

type 'v omap = { items : 'v slot list; index : (string * nat) list }

val empty : 'a1 omap

val idx_get : string -> (string * nat) list -> nat option

val idx_del : string -> (string * nat) list -> (string * nat) list

val idx_set : string -> nat -> (string * nat) list -> (string * nat) list

val upd : nat -> ('a1 -> 'a1) -> 'a1 list -> 'a1 list

val tomb : 'a1 slot -> 'a1 slot

val setv : 'a1 -> 'a1 slot -> 'a1 slot

val len : 'a1 omap -> nat

val is_zero : 'a1 omap -> bool

val get : string -> 'a1 omap -> 'a1 option

val contains : string -> 'a1 omap -> bool

val set : string -> 'a1 -> 'a1 omap -> 'a1 omap

val replace : string -> string -> 'a1 -> 'a1 omap -> 'a1 omap

val live : 'a1 slot list -> 'a1 slot list

val reindex :
  nat -> 'a1 slot list -> (string * nat) list -> (string * nat) list

val compact : 'a1 omap -> 'a1 omap

val delete : string -> 'a1 omap -> 'a1 omap

val range : 'a1 omap -> (string * 'a1) list

val equal_loop :
  ('a1 -> 'a1 -> bool) -> 'a1 slot list -> 'a1 slot list -> bool

val equal : ('a1 -> 'a1 -> bool) -> 'a1 omap -> 'a1 omap -> bool

val equal_opt :
  ('a1 -> 'a1 -> bool) -> 'a1 omap option -> 'a1 omap option -> bool

val range_rename :
  (string -> string) -> (string -> 'a1 -> 'a1) -> 'a1 omap -> 'a1 omap

type 'v pairs = (string * 'v) list

val p_get : string -> 'a1 pairs -> 'a1 option

val p_has : string -> 'a1 pairs -> bool

val p_remove : string -> 'a1 pairs -> 'a1 pairs

val p_update : string -> 'a1 -> 'a1 pairs -> 'a1 pairs

val p_set : string -> 'a1 -> 'a1 pairs -> 'a1 pairs

val p_rekey : string -> string -> 'a1 -> 'a1 pairs -> 'a1 pairs

val p_replace : string -> string -> 'a1 -> 'a1 pairs -> 'a1 pairs

val p_delete : string -> 'a1 pairs -> 'a1 pairs

val p_rename_go :
  (string -> string) -> (string -> 'a1 -> 'a1) -> nat -> 'a1 pairs -> 'a1
  pairs -> 'a1 pairs

val p_rename :
  (string -> string) -> (string -> 'a1 -> 'a1) -> 'a1 pairs -> 'a1 pairs

type 'v op =
| OSet of string * 'v
| OReplace of string * string * 'v
| ODelete of string

val step : 'a1 omap -> 'a1 op -> 'a1 omap

val spec_step : 'a1 pairs -> 'a1 op -> 'a1 pairs

val veq : string -> string -> bool

type m = string omap

type gop =
| GOp of string op
| GRR of (string * string) list

val parse_op : sexp -> gop

val tbl_get : string -> (string * string) list -> string

val rr_fv : string -> string -> string

val gstep : m -> gop -> m

val keys_of : gop -> string list

val spair : (string * string) -> sexp

val snapshot : m -> sexp

val obs_step : m -> gop -> bool -> sexp

val run_trace : nat -> nat -> m -> gop list -> m * sexp list

val sstep : (string * string) list -> gop -> string pairs

val spec_agrees : gop list -> m -> bool

val twin : m -> m

val run : sexp -> sexp

val run_nil : sexp

val cut : ascii -> string -> string * string option

val split : ascii -> string -> string list

val has_char : ascii -> string -> bool

val first_is : ascii -> string -> bool

val join : string -> string list -> string

val clean_comps : string list -> string list -> string list

val clean : string -> string

val path_join : string list -> string

val plugin_suffix : string

val plugin_host : string

val plugin_org : string

val last_segment : string -> string -> string

val full_source : string -> string

val run0 : sexp -> sexp

type skipval =
| SkAbsent
| SkBool of bool
| SkOther

type adjustment = { awith : (string * string) list; askip : skipval }

type matrix = { msetup : (string * string list option) list;
                madj : adjustment option list }

type perm = (string * string) list

type reject_kind =
| RNilMatrix
| RPermLen
| RPermDim
| RAdjNil
| RAdjLen
| RAdjDim
| RSkipped
| RNoMatch

type verdict =
| Accept
| Reject of reject_kind

val assoc : string -> (string * 'a1) list -> 'a1 option

val setup_get : matrix -> string -> string list option

val with_get : adjustment -> string -> string

val should_skip : adjustment -> bool

val dims_known : matrix -> string list -> bool

val in_setup : matrix -> perm -> bool

val adj_matches : adjustment -> perm -> bool

val adj_loop : matrix -> perm -> adjustment option list -> bool -> verdict

val validate : matrix option -> perm -> verdict

val accepted : verdict -> bool

val pair_of : sexp -> string * string

val adj_of : sexp -> adjustment option

val setup_entry_of : sexp -> string * string list option

val matrix_of : sexp -> matrix option

val run1 : sexp -> sexp

type gv =
| GNull
| GBool of bool
| GInt of z
| GFloat of string * string
| GStr of string
| GTime of string
| GSeq of gv list
| GMap of (string * gv) list
| GUMap of (string * gv) list

type json =
| JNull
| JBool of bool
| JNum of string
| JStr of string
| JArr of json list
| JObj of (string * json) list

val sprint : gv -> string option

val ins_sorted : string -> 'a1 -> (string * 'a1) list -> (string * 'a1) list

val sort_keys : (string * 'a1) list -> (string * 'a1) list

val aset : string -> 'a1 -> (string * 'a1) list -> (string * 'a1) list

val aget : string -> (string * 'a1) list -> 'a1 option

val ahas : string -> (string * 'a1) list -> bool

val gv_json : gv -> json

val to_map_recursive : gv -> gv

val gv_of_sexp : sexp -> gv

val json_sexp : json -> sexp

val gv_sexp : gv -> sexp

type field_row = (((string * (bool * string)) * string) * string) * string

val struct_Pipeline : field_row list

val struct_Signature : field_row list

val struct_CommandStep : field_row list

val struct_CommandStep_UnmarshalOrdered_anon0 : field_row list

val struct_Cache : field_row list

val struct_Matrix : field_row list

val struct_MatrixAdjustment : field_row list

val struct_GroupStep : field_row list

val row_name : field_row -> string

val row_yaml : field_row -> string

val row_aliases : field_row -> string

val row_type : field_row -> string

val cut_comma : string -> string * string

val split_comma : string -> string list

val lower_ascii : ascii -> ascii

val to_lower : string -> string

val is_exported : string -> bool

val primary_key : field_row -> string

val first_alias : string list -> (string * gv) list -> (string * gv) option

type field_class =
| FSkip
| FInline
| FKeyed

val classify : field_row -> field_class

val field_lookup : field_row -> (string * gv) list -> (string * gv) option

type partition = { assigned : ((field_row * string) * gv) list;
                   inline_field : field_row option; multiple_inline : 
                   bool; leftover : (string * gv) list }

val assign_fields :
  field_row list -> (string * gv) list -> (((field_row * string) * gv)
  list * field_row option) * bool

val partition_keys : field_row list -> (string * gv) list -> partition

val assigned_to : string -> ((field_row * string) * gv) list -> gv option

type sentinel =
| ErrUnknownStepType
| ErrStepTypeInference

type kind =
| KCommand
| KWait
| KInput
| KTrigger
| KGroup
| KUnknown of sentinel

val mem : string -> string list -> bool

val families : (string list * kind) list

val type_table : (string list * kind) list

val scalar_table : (string list * kind) list

val by_label : (string list * kind) list -> string -> kind -> kind

val by_keys : (string list * kind) list -> string list -> kind -> kind

val kind_by_type : string -> kind

val kind_by_keys : string list -> kind

val kind_of_scalar : string -> kind

val kind_of_map : string option -> string list -> kind

val kind_name : kind -> string

type 't res =
| Ok of 't * nat
| Err

val bind : 'a1 res -> ('a1 -> 'a2 res) -> 'a2 res

val ret : 'a1 -> 'a1 res

val mapM : ('a1 -> 'a2 res) -> 'a1 list -> 'a2 list res

type signature = { sg_alg : string; sg_fields : string list option;
                   sg_value : string }

type plugin = { pl_source : string; pl_config : gv }

type madj0 = { ma_with : (string * string) list option; ma_skip : gv;
               ma_rem : (string * gv) list }

type matrix0 = { mx_setup : (string * string list option) list option;
                 mx_adj : madj0 option list; mx_rem : (string * gv) list }

type cache = { ca_disabled : bool; ca_name : string; ca_paths : string list;
               ca_size : string; ca_rem : (string * gv) list }

type command_step = { cs_key : string; cs_label : string;
                      cs_command : string; cs_plugins : plugin list;
                      cs_env : (string * string) list;
                      cs_sig : signature option; cs_matrix : matrix0 option;
                      cs_cache : cache option; cs_rem : (string * gv) list }

type step0 =
| SCommand of command_step
| SWait of string * (string * gv) list
| SInput of string * (string * gv) list
| STrigger of (string * gv) list
| SGroup of string * string option * step0 list * (string * gv) list
| SUnknown of gv

type pipeline = { pp_steps : step0 list;
                  pp_env : (string * string) list option;
                  pp_rem : (string * gv) list; pp_nosteps : bool }

val unm_string : gv -> string res

val unm_strings : gv -> string list option res

val strings_or_nil : string list option -> string list

val unm_map_ss : gv -> (string * string) list res

val unm_bool : gv -> bool res

val field : string -> partition -> gv option

val opt_field : string -> partition -> 'a1 -> (gv -> 'a1 res) -> 'a1 res

val unm_sig : gv -> signature option res

val plugins_of_map : (string * gv) list -> plugin list

val unm_plugins : gv -> plugin list res

val with_scalar : gv -> string option

val unm_with : gv -> (string * string) list res

val unm_adj : gv -> madj0 option res

val unm_adjs : gv -> madj0 option list res

val unm_setup : gv -> (string * string list option) list option res

val unm_matrix : gv -> matrix0 option res

val unm_cache : gv -> cache option res

val nl : string

val join_nl : string list -> string

val unm_command : (string * gv) list -> command_step res

val warn1 : 'a1 -> 'a1 res

val unm_steps : nat -> gv -> step0 list res

val unm_step : nat -> gv -> step0 res

val unm_env_block : gv -> (string * string) list option res

val parse : nat -> gv -> pipeline res

val gv_depth : gv -> nat

val parse_doc : gv -> pipeline res

val jstrs : string list -> json

val inline_friendly : (string * json) list -> (string * gv) list -> json

val oe : bool -> string -> json -> (string * json) list

val is_empty_any : gv -> bool

val mj_sig : signature -> json

val mj_plugin : plugin -> json

val mj_map_ss : (string * string) list -> json

val mj_with : (string * string) list option -> json

val mj_adj : madj0 option -> json

val mj_strs_opt : string list option -> json

val setup_anon : (string * string list option) list -> string list option

val mj_setup : (string * string list option) list option -> json

val mx_simple : matrix0 -> string list option

val mj_matrix : matrix0 -> json

val mj_cache : cache -> json

val mj_command : command_step -> json

val mj_contents : (string * gv) list -> json

val mj_step : step0 -> json

val mj_env_block : (string * string) list -> json

val mj_pipeline : pipeline -> json

val gv_finite : gv -> bool

val rem_finite : (string * gv) list -> bool

val matrix_ok : matrix0 -> bool

val command_ok : command_step -> bool

val step_ok : step0 -> bool

val pipeline_ok : pipeline -> bool

val marshal_json : pipeline -> json option

val is_ws : ascii -> bool

val is_dimc : ascii -> bool

val strip_prefix : string -> string -> string option

val span : (ascii -> bool) -> string -> string * string

val tok_open : string

val tok_close : string

val tok_word : string

val match_tail : string -> nat option

val match_token : string -> (string * nat) option

val scan : (string -> string option) -> string -> nat -> string * string list

val transform : (string -> string option) -> string -> string * string list

val transform_result : (string -> string option) -> string -> string option

val repl_of_perm : (string * string) list -> string -> string option

val omapM : ('a1 -> 'a2 option) -> 'a1 list -> 'a2 list option

val orename :
  nat -> (string * 'a1) list -> ((string * string) * 'a1) list ->
  (string * 'a1) list

val urename : ((string * string) * 'a1) list -> (string * 'a1) list

val interp_gv : (string -> string option) -> gv -> gv option

val interp_umap :
  (string -> string option) -> ('a1 -> 'a1 option) -> (string * 'a1) list ->
  (string * 'a1) list option

val interp_rem :
  (string -> string option) -> (string * gv) list -> (string * gv) list option

val interp_strs :
  (string -> string option) -> string list -> string list option

val interp_plugin : (string -> string option) -> plugin -> plugin option

val interp_adj :
  (string -> string option) -> madj0 option -> madj0 option option

val interp_matrix : (string -> string option) -> matrix0 -> matrix0 option

val interp_cache : (string -> string option) -> cache -> cache option

val opt_interp : ('a1 -> 'a1 option) -> 'a1 option -> 'a1 option option

val interp_command :
  (string -> string option) -> command_step -> command_step option

val interp_map_values :
  (string -> string option) -> (string * string) list -> (string * string)
  list option

val minterp_command :
  (string -> string option) -> command_step -> command_step option

val interp_step : (string -> string option) -> step0 -> step0 option

val interp_pipeline_rest :
  (string -> string option) -> pipeline -> pipeline option

val skip_class : gv -> skipval

val to_vmatrix : matrix0 -> matrix

type mresult =
| MOk of command_step
| MRejected
| MUnknownToken

val interpolate_matrix_permutation :
  command_step -> (string * string) list -> mresult

val pair_of0 : sexp -> string * string

val run2 : sexp -> sexp

val run_step : sexp -> sexp

val run3 : sexp -> sexp

type keyinfo = { k_valid : bool; k_has_alg : bool; k_is_sig : bool;
                 k_alg : string; k_kty : string }

type verr =
| EInvalidKey
| EMissingAlg
| EInvalidSigningAlg
| EUnsupportedSigningAlg
| EUnsupportedKeyType
| EUnsupportedAlgForKeyType

val valid_algs_for_kty : (string * string list) list

val valid_signing_algs : string list

val valid_ktys : string list

val mem0 : string -> string list -> bool

val lookup : string -> (string * string list) list -> string list

val validate0 : keyinfo -> verr option

type keyset = (string * keyinfo) list

type lerr =
| LNoKeyID
| LNotFound
| LInvalid of verr

val find_kid : string -> nat -> keyset -> (nat * keyinfo) option

val load : keyset -> string -> (nat * keyinfo, lerr) sum

val key_of : sexp -> keyinfo

val run4 : sexp -> sexp

val all_digits : string -> bool

val int_token : string -> bool

val gv_of_json : json -> gv

val reparse_json : pipeline -> pipeline res

val status_sexp : pipeline -> nat -> sexp

val count_step : step0 -> nat

val count_steps : step0 list -> nat

val run5 : sexp -> sexp

val run_reparse : sexp -> sexp

type ynode =
| YScalar of bool * string option * gv option
| YSeq of nat list
| YMap of nat list
| YAlias of nat
| YDoc of nat list
| YOther

type store = ynode list

val node : store -> nat -> ynode

val memn : nat -> nat list -> bool

val mems : string -> string list -> bool

val ckey_of : store -> nat -> string option

val is_merge_key : store -> nat -> bool

type rres =
| ROk of (string * nat) list * nat list
| RErr
| RFuel

val explicit_keys : store -> nat list -> string list option

val skip_keys :
  string list -> (string * nat) list -> (string * nat) list * string list

val range0 : nat -> store -> nat list -> nat -> rres

type dres =
| DOk of gv
| DErr
| DFuel

val oset : string -> gv -> (string * gv) list -> (string * gv) list

val decode : nat -> store -> nat list -> nat -> dres

val decode_yaml : store -> nat -> dres

val node_of : sexp -> ynode

val run6 : sexp -> sexp

type m0 = string omap

val visit :
  ('a1 -> string -> string option) -> ('a1 -> string -> string -> 'a1) ->
  ('a1 -> string -> string option) -> bool -> 'a1 -> string -> string ->
  ((string * string) * 'a1) option

val block_loop :
  ('a1 -> string -> string option) -> ('a1 -> string -> string -> 'a1) ->
  ('a1 -> string -> string option) -> bool -> nat list -> m0 -> 'a1 ->
  (m0 * 'a1) option

val run_block :
  ('a1 -> string -> string option) -> ('a1 -> string -> string -> 'a1) ->
  ('a1 -> string -> string option) -> bool -> m0 -> 'a1 -> (m0 * 'a1) option

type seg =
| SLit of string
| SVar of string
| SDefault of string * string
| SUnset of string * string
| SEsc of string
| SReq of string

val seg_of : sexp -> seg

val upper_ascii : ascii -> ascii

val to_upper : string -> string

type env = (string * string) list

val norm : bool -> string -> string

val eget : bool -> env -> string -> string option

val eset : bool -> env -> string -> string -> env

val eval_segs : bool -> env -> seg list -> string option

val expand_tbl :
  bool -> (string * seg list) list -> env -> string -> string option

val pair_of1 : sexp -> string * string

val run7 : sexp -> sexp

val hex_digit : nat -> ascii

val esc_byte : ascii -> string

val esc : string -> string

val quote : string -> string

val join_comma : string list -> string

val ser : json -> string

val canon : json -> json

val env_prefix : string

val mandatory_fields : string list

val matrix_is_empty : matrix0 -> bool

val field_value : command_step -> string -> string -> json option

val has_prefix : string -> string -> bool

val env_values :
  command_step -> (string * string) list -> (string * json) list

val sign_values :
  command_step -> string -> (string * string) list -> (string * json) list

val payload : string -> (string * json) list -> string

val values_for_fields :
  command_step -> string -> string list -> (string * json) list option

val all_mandatory : string list -> bool

val require_keys :
  (string * json) list -> string list -> (string * json) list option

val sign :
  ('a1 -> string) -> ('a1 -> string -> string) -> 'a1 -> command_step ->
  string -> (string * string) list -> signature

val verify_payload :
  signature -> command_step -> string -> (string * string) list -> string
  option

val verify :
  ('a1 -> string -> string -> bool) -> 'a1 -> signature -> command_step ->
  string -> (string * string) list -> bool

val sign_step :
  ('a1 -> string) -> ('a1 -> string -> string) -> 'a1 -> string ->
  (string * string) list -> step0 -> step0 option

val sign_steps :
  ('a1 -> string) -> ('a1 -> string -> string) -> 'a1 -> string ->
  (string * string) list -> step0 list -> step0 list option

val pair_of2 : sexp -> string * string

val step_of : sexp -> command_step option

val run_payload : sexp -> sexp

val sym_sgn : string -> string -> string

val sym_vrf : string -> string -> string -> bool

val sym_alg : string -> string

val ssign :
  string -> command_step -> string -> (string * string) list -> signature

val sverify :
  string -> signature -> command_step -> string -> (string * string) list ->
  bool

val run_verify : sexp -> sexp

val sigs_of : string -> string -> (string * string) list -> step0 -> sexp list

val erase_sig_step : step0 -> step0

val run_sign_steps : sexp -> sexp

val verdicts :
  string -> string -> (string * string) list -> step0 -> sexp list

val run_roundtrip : sexp -> sexp

val is_letter : ascii -> bool

val is_ident : ascii -> bool

val span_s : (ascii -> bool) -> string -> string * string

val until_brace : string -> (string * string) option

val lookup0 : (string * string) list -> string -> string option

val expand_go : nat -> (string * string) list -> string -> string option

val expand_simple : (string * string) list -> string -> string option

val interpolate_pipeline :
  bool -> (string * string) list -> pipeline -> (pipeline * (string * string)
  list) option

val run8 : sexp -> sexp

type ty =
| TString
| TInt
| TBool
| TFloat
| TAny
| TPtr of ty
| TSlice of ty
| TMap of ty
| TStruct of string

type val0 =
| VNil
| VStr of string
| VInt of z
| VBool of bool
| VFloat of string * string
| VAny of gv
| VPtr of val0
| VSlice of val0 list
| VMap of (string * val0) list
| VStruct of (string * val0) list

val strip : string -> string -> string option

val parse_ty : nat -> string -> ty

val ty_of_row : field_row -> ty

val fields_of : (string * field_row list) list -> string -> field_row list

val exported : (string * field_row list) list -> string -> field_row list

val zero0 : (string * field_row list) list -> nat -> ty -> val0

type ures =
| UOk of val0
| UErr

val struct_get : string -> (string * val0) list -> val0 option

val struct_set :
  string -> val0 -> (string * val0) list -> (string * val0) list

val scalar_into : nat -> ty -> gv -> val0 -> ures

val unm :
  (string * field_row list) list -> nat -> nat -> ty -> gv -> val0 -> ures

val ref_lookup : field_row -> (string * gv) list -> gv option

val ref : (string * field_row list) list -> nat -> nat -> ty -> gv -> val0

val val_json : (string * field_row list) list -> nat -> ty -> val0 -> json

val test_structs : (string * field_row list) list

val run9 : sexp -> sexp

val run_ref : sexp -> sexp

val dispatch : string -> sexp -> sexp
