(** S-expressions: the wire format between the Go harness, the OCaml driver and
    the Gallina glue.  Atoms are byte strings. *)
From Coq Require Import List String Ascii ZArith Bool DecimalString Decimal.
Import ListNotations.

Inductive sexp : Type :=
| A (s : string)
| L (l : list sexp).

Fixpoint sexp_eqb (a b : sexp) {struct a} : bool :=
  match a, b with
  | A x, A y => String.eqb x y
  | L xs, L ys =>
      (fix go (xs ys : list sexp) : bool :=
         match xs, ys with
         | [], [] => true
         | x :: xs', y :: ys' => sexp_eqb x y && go xs' ys'
         | _, _ => false
         end) xs ys
  | _, _ => false
  end.

Definition sbool (b : bool) : sexp := A (if b then "t" else "f")%string.

Definition z_to_string (z : Z) : string := NilZero.string_of_int (Z.to_int z).
Definition nat_to_string (n : nat) : string := z_to_string (Z.of_nat n).
Definition string_to_z (s : string) : option Z :=
  match NilZero.int_of_string s with
  | Some i => Some (Z.of_int i)
  | None => None
  end.

Definition sz (z : Z) : sexp := A (z_to_string z).
Definition snat (n : nat) : sexp := A (nat_to_string n).

Definition atom_of (s : sexp) : string := match s with A x => x | L _ => EmptyString end.
Definition list_of (s : sexp) : list sexp := match s with A _ => [] | L l => l end.
Definition nat_of (s : sexp) : nat :=
  match string_to_z (atom_of s) with Some z => Z.to_nat z | None => 0 end.
Definition z_of (s : sexp) : Z :=
  match string_to_z (atom_of s) with Some z => z | None => 0%Z end.
Definition bool_of (s : sexp) : bool := String.eqb (atom_of s) "t".

Definition sopt {T} (f : T -> sexp) (o : option T) : sexp :=
  match o with None => L [] | Some x => L [f x] end.
Definition opt_of {T} (f : sexp -> T) (s : sexp) : option T :=
  match s with L [x] => Some (f x) | _ => None end.
