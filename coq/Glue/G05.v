(** Glue for C05: sexp case -> model run -> sexp observation. *)
From Coq Require Import String List Arith Bool.
From GP Require Import Base.Sexp Model.OMap.
Import ListNotations.
Local Open Scope string_scope.

Definition veq := String.eqb.
Definition M := omap string.

Inductive gop :=
| GOp (o : op string)
| GRR (tbl : list (string * string)).

Definition parse_op (s : sexp) : gop :=
  match s with
  | L [A "s"; A k; A v] => GOp (OSet k v)
  | L [A "r"; A a; A b; A v] => GOp (OReplace a b v)
  | L [A "d"; A k] => GOp (ODelete k)
  | L [A "rr"; L tbl] =>
      GRR (map (fun e => match e with L [A a; A b] => (a, b) | _ => ("", "") end) tbl)
  | _ => GOp (ODelete "")
  end.

Fixpoint tbl_get (k : string) (t : list (string * string)) : string :=
  match t with
  | [] => k
  | (a, b) :: r => if String.eqb k a then b else tbl_get k r
  end.

Definition rr_fv (k v : string) : string := v ++ "+" ++ k.

Definition gstep (m : M) (o : gop) : M :=
  match o with
  | GOp o => step m o
  | GRR t => range_rename (fun k => tbl_get k t) rr_fv m
  end.

Definition keys_of (o : gop) : list string :=
  match o with
  | GOp (OSet k _) => [k]
  | GOp (OReplace a b _) => [a; b]
  | GOp (ODelete k) => [k]
  | GRR _ => []
  end.

Definition spair (p : string * string) : sexp := L [A (fst p); A (snd p)].
Definition snapshot (m : M) : sexp := L (map spair (range m)).

Definition obs_step (m : M) (o : gop) (full : bool) : sexp :=
  L ([snat (len m); sbool (is_zero m)]
       ++ map (fun k => L [sopt A (get k m); sbool (contains k m)]) (keys_of o)
       ++ (if full then [snapshot m] else [])).

Fixpoint run_trace (every : nat) (i : nat) (m : M) (ops : list gop) : M * list sexp :=
  match ops with
  | [] => (m, [])
  | o :: r =>
      let m' := gstep m o in
      let full := Nat.eqb (Nat.modulo i every) 0 in
      let '(mf, tr) := run_trace every (S i) m' r in
      (mf, obs_step m' o full :: tr)
  end.

Definition sstep (l : list (string * string)) (o : gop) :=
  match o with
  | GOp o => spec_step l o
  | GRR t => p_rename (fun k => tbl_get k t) rr_fv l
  end.
Definition spec_agrees (ops : list gop) (m : M) : bool :=
  sexp_eqb (L (map spair (fold_left sstep ops []))) (snapshot m).

Definition twin (m : M) : M := fold_left (fun t p => set (fst p) (snd p) t) (range m) empty.

(** case: (every (opsA) (opsB)) *)
Definition run (c : sexp) : sexp :=
  match c with
  | L [every; L oa; L ob] =>
      let '(a, tra) := run_trace (S (nat_of every)) 0 empty (map parse_op oa) in
      let '(b, trb) := run_trace (S (nat_of every)) 0 empty (map parse_op ob) in
      L [L tra; snapshot a; snapshot b;
         sbool (equal veq a b); sbool (equal veq b a); sbool (equal veq a a);
         sbool (equal veq b b); sbool (equal veq a (twin a));
         sbool (spec_agrees (map parse_op oa) a && spec_agrees (map parse_op ob) b)]
  | _ => A "bad-case"
  end.

(** nil receiver: observers and Delete on a nil map pointer *)
Definition run_nil : sexp :=
  L [snat 0; sbool true; sopt A (@None string); sbool false; L [];
     sbool (equal_opt veq (@None M) None); sbool (equal_opt veq None (Some empty))].
