From Coq Require Import String List.
From GP Require Import Base.Sexp Model.Jwk.
Import ListNotations.
Local Open Scope string_scope.

Definition key_of (s : sexp) : keyinfo :=
  match s with
  | L [v; h; g; A alg; A kty] => mkKey (bool_of v) (bool_of h) (bool_of g) alg kty
  | _ => mkKey false false false "" ""
  end.

Definition run (c : sexp) : sexp :=
  match c with
  | L [A "validate"; k] => A (match validate (key_of k) with None => "ok" | Some _ => "reject" end)
  | L [A "load"; L ks; A id] =>
      match load (map (fun e => match e with L [A kid; k] => (kid, key_of k) | _ => ("", key_of (L [])) end) ks) id with
      | inl (n, _) => L [A "ok"; snat n]
      | inr _ => L [A "err"]
      end
  | _ => A "bad-case"
  end.
