(** Glue for C10: env block run against a concrete environment and a
    segment-structured expansion function. *)
From Coq Require Import String List Bool Ascii Arith.
From GP Require Import Base.Sexp Model.Gv Model.OMap Model.EnvBlock.
Import ListNotations.
Local Open Scope string_scope.

Inductive seg :=
| SLit (s : string)
| SVar (n : string)              (* $n or ${n} *)
| SDefault (n : string) (d : string)   (* ${n:-d}: unset or empty *)
| SUnset (n : string) (d : string)     (* ${n-d}: unset *)
| SEsc (n : string)              (* $$n or \$n : literal "$n" *)
| SReq (n : string).             (* ${n?}: error when unset *)

Definition seg_of (s : sexp) : seg :=
  match s with
  | L [A "lit"; A x] => SLit x
  | L [A "var"; A n] => SVar n
  | L [A "dflt"; A n; A d] => SDefault n d
  | L [A "unset"; A n; A d] => SUnset n d
  | L [A "esc"; A n] => SEsc n
  | L [A "req"; A n] => SReq n
  | _ => SLit ""
  end.

Definition upper_ascii (a : ascii) : ascii :=
  let n := nat_of_ascii a in
  if Nat.leb 97 n && Nat.leb n 122 then ascii_of_nat (n - 32) else a.
Fixpoint to_upper (s : string) : string :=
  match s with EmptyString => EmptyString | String a r => String (upper_ascii a) (to_upper r) end.

Definition env := list (string * string).
Definition norm (ci : bool) (k : string) : string := if ci then to_upper k else k.
Definition eget (ci : bool) (e : env) (k : string) : option string := aget (norm ci k) e.
Definition eset (ci : bool) (e : env) (k v : string) : env := aset (norm ci k) v e.

Fixpoint eval_segs (ci : bool) (e : env) (l : list seg) : option string :=
  match l with
  | [] => Some ""
  | s :: r =>
      match eval_segs ci e r with
      | None => None
      | Some rest =>
          match s with
          | SLit x => Some (x ++ rest)
          | SVar n => Some (match eget ci e n with Some v => v | None => "" end ++ rest)
          | SDefault n d => Some (match eget ci e n with
                                  | Some v => if String.eqb v "" then d else v
                                  | None => d end ++ rest)
          | SUnset n d => Some (match eget ci e n with Some v => v | None => d end ++ rest)
          | SEsc n => Some ("$" ++ n ++ rest)
          | SReq n => match eget ci e n with Some v => Some (v ++ rest) | None => None end
          end
      end
  end.

(** a Go-side failure of ${n?} aborts even when a later segment would also fail; order is irrelevant for the verdict *)
Definition expand_tbl (ci : bool) (tbl : list (string * list seg)) (e : env) (s : string) : option string :=
  match aget s tbl with
  | Some segs => eval_segs ci e segs
  | None => Some s
  end.

Definition pair_of (s : sexp) : string * string :=
  match s with L [A a; A b] => (a, b) | _ => ("", "") end.

(** case: (prefer ci (env0 pairs) (block pairs) (table (raw (segs))...) (probe names) (probe segs)) *)
Definition run (c : sexp) : sexp :=
  match c with
  | L [pf; ci; L e0; L blk; L tbl; L probes; L psegs] =>
      let ci := bool_of ci in
      let table := map (fun t => match t with L [A raw; L segs] => (raw, map seg_of segs) | _ => ("", []) end) tbl in
      let e0 := fold_left (fun e p => eset ci e (fst (pair_of p)) (snd (pair_of p))) e0 [] in
      let m := fold_left (fun m p => set (fst (pair_of p)) (snd (pair_of p)) m) blk empty in
      match run_block (eget ci) (eset ci) (expand_tbl ci table) (bool_of pf) m e0 with
      | None => L [A "err"]
      | Some (m', e') =>
          match eval_segs ci e' (map seg_of psegs) with
          | None => L [A "err"]     (* the rest of the pipeline fails to interpolate *)
          | Some pr =>
              L [A "ok";
                 L (map (fun p => L [A (fst p); A (snd p)]) (range m'));
                 L (map (fun p => sopt A (eget ci e' (atom_of p))) probes);
                 L [A pr]]
          end
      end
  | _ => A "bad-case"
  end.
