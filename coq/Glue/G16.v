(** Glue for C16: (type name, document) -> destination value as JSON, for the
    library's reflective decoder model and for the reference decoder. *)
From Coq Require Import String List Bool.
From GP Require Import Base.Sexp Model.Gv Model.Jcs Model.Reflect Gen.TestStructs.
Import ListNotations.
Local Open Scope string_scope.

Definition run (c : sexp) : sexp :=
  match c with
  | L [A tn; doc] =>
      let t := TStruct tn in
      match unm test_structs 64 64 t (gv_of_sexp doc) (zero test_structs 64 t) with
      | UOk v => L [A "ok"; json_sexp (val_json test_structs 64 t v)]
      | UErr => L [A "err"]
      end
  | _ => A "bad-case"
  end.

(** the reference (YAML library) decoding, with object members sorted at every level *)
Definition run_ref (c : sexp) : sexp :=
  match c with
  | L [A tn; doc] =>
      let t := TStruct tn in
      json_sexp (canon (val_json test_structs 64 t (ref test_structs 64 64 t (gv_of_sexp doc))))
  | _ => A "bad-case"
  end.
