(** Glue for C14 (payload bytes), C01 (verify verdict under mutations) and
    C06 (SignSteps) with a symbolic instance of the signature scheme. *)
From Coq Require Import String List Bool Arith.
From GP Require Import Base.Sexp Model.Gv Model.Pipeline Model.Marshal Model.Jcs Model.Sign Model.Reparse.
Import ListNotations.
Local Open Scope string_scope.

Definition pair_of (s : sexp) : string * string :=
  match s with L [A a; A b] => (a, b) | _ => ("", "") end.

Definition step_of (s : sexp) : option command_step :=
  match gv_of_sexp s with
  | GMap m => match unm_command m with Ok c _ => Some c | Err => None end
  | _ => None
  end.

(** C14: (stepdoc (penv) repo alg) -> payload *)
Definition run_payload (c : sexp) : sexp :=
  match c with
  | L [sd; L pe; A repo; A alg] =>
      match step_of sd with
      | Some st => A (payload alg (sign_values st repo (map pair_of pe)))
      | None => A "step-does-not-parse"
      end
  | _ => A "bad-case"
  end.

(** symbolic scheme: keys are names; a signature value spells out key and payload *)
Definition sym_sgn (k : string) (p : string) : string := "S[" ++ k ++ "|" ++ p ++ "]".
Definition sym_vrf (pk : string) (p : string) (s : string) : bool := String.eqb s (sym_sgn pk p).
Definition sym_alg (k : string) : string := k.     (* the harness names each key by its algorithm + index *)

Definition ssign := sign string sym_alg sym_sgn.
Definition sverify := verify string sym_vrf.

(** C01: (orig: stepdoc (penv) repo key) (other: stepdoc|()) (mut: stepdoc (penv) repo key alg (fields)|"same" value-kind)
    value-kind: "same" | "other" (value of the other step signed with the same key) | "garbage" *)
Definition run_verify (c : sexp) : sexp :=
  match c with
  | L [L [sd; L pe; A repo; A key]; other; L [sd'; L pe'; A repo'; A key'; alg'; fields'; A vk]] =>
      match step_of sd, step_of sd' with
      | Some st, Some st' =>
          let sg := ssign key st repo (map pair_of pe) in
          let value :=
            if String.eqb vk "same" then sg_value sg
            else if String.eqb vk "other" then
                   match other with
                   | L [od] => match step_of od with
                               | Some ot => sg_value (ssign key ot repo (map pair_of pe))
                               | None => "none" end
                   | _ => "none" end
                 else "garbage" in
          let sg' := mkSig (match alg' with A "same" => sg_alg sg | A a => a | _ => sg_alg sg end)
                           (match fields' with
                            | A _ => sg_fields sg
                            | L fs => Some (map atom_of fs) end)
                           value in
          A (if sverify key' sg' st' repo' (map pair_of pe') then "verified" else "rejected")
      | _, _ => A "step-does-not-parse"
      end
  | _ => A "bad-case"
  end.

(** C06: ((steps doc) (penv) repo key) -> refused | per command step (deep, in order): (alg fields verified) *)
Fixpoint sigs_of (key : string) (repo : string) (pe : list (string * string)) (s : step) : list sexp :=
  match s with
  | SCommand c =>
      [match cs_sig c with
       | Some sg => L [A (sg_alg sg); L (map A (match sg_fields sg with Some l => l | None => [] end));
                       sbool (sverify key sg c repo pe)]
       | None => A "unsigned"
       end]
  | SGroup _ _ ss _ => concat (map (sigs_of key repo pe) ss)
  | _ => []
  end.

Definition erase_sig_step := fix er (s : step) : step :=
  match s with
  | SCommand c => SCommand (mkCmd (cs_key c) (cs_label c) (cs_command c) (cs_plugins c) (cs_env c) None
                                  (cs_matrix c) (cs_cache c) (cs_rem c))
  | SGroup k g ss rem => SGroup k g (map er ss) rem
  | o => o
  end.

Definition run_sign_steps (c : sexp) : sexp :=
  match c with
  | L [doc; L pe; A repo; A key] =>
      match parse_doc (gv_of_sexp doc) with
      | Err => A "doc-does-not-parse"
      | Ok p _ =>
          let pe := map pair_of pe in
          match sign_steps string sym_alg sym_sgn key repo pe (pp_steps p) with
          | None => L [A "refused"]
          | Some ss' =>
              L [A "signed"; L (concat (map (sigs_of key repo pe) ss'));
                 sbool (sexp_eqb (json_sexp (JArr (map mj_step (map erase_sig_step ss'))))
                                 (json_sexp (JArr (map mj_step (map erase_sig_step (pp_steps p))))))]
          end
      end
  | _ => A "bad-case"
  end.

(** C02: ((doc) (penv) repo key (extra env pairs)) -> sign every step, marshal to JSON, re-parse,
    verify every command step with the pipeline env plus unrelated variables *)
Fixpoint verdicts (key : string) (repo : string) (pe : list (string * string)) (s : step) : list sexp :=
  match s with
  | SCommand c =>
      [match cs_sig c with
       | Some sg => sbool (sverify key sg c repo pe)
       | None => A "unsigned"
       end]
  | SGroup _ _ ss _ => concat (map (verdicts key repo pe) ss)
  | _ => []
  end.

Definition run_roundtrip (c : sexp) : sexp :=
  match c with
  | L [doc; L pe; A repo; A key; L extra] =>
      match parse_doc (gv_of_sexp doc) with
      | Err => A "doc-does-not-parse"
      | Ok p _ =>
          let pe := map pair_of pe in
          match sign_steps string sym_alg sym_sgn key repo pe (pp_steps p) with
          | None => L [A "refused"]
          | Some ss' =>
              let p1 := mkPipeline ss' (pp_env p) (pp_rem p) (pp_nosteps p) in
              match reparse_json p1 with
              | Err => L [A "reparse-error"]
              | Ok p2 _ => L [A "ok"; L (concat (map (verdicts key repo (pe ++ map pair_of extra)) (pp_steps p2)))]
              end
          end
      end
  | _ => A "bad-case"
  end.
