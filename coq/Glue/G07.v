From Coq Require Import String List Bool.
From GP Require Import Base.Sexp Model.Gv Model.YamlGraph.
Import ListNotations.
Local Open Scope string_scope.

Definition node_of (s : sexp) : ynode :=
  match s with
  | L [A "s"; m; ck; dec] => YScalar (bool_of m) (opt_of atom_of ck) (opt_of gv_of_sexp dec)
  | L (A "q" :: ids) => YSeq (map nat_of ids)
  | L (A "m" :: ids) => YMap (map nat_of ids)
  | L [A "a"; t] => YAlias (nat_of t)
  | L (A "d" :: ids) => YDoc (map nat_of ids)
  | _ => YOther
  end.

(** case: (root nodes...) *)
Definition run (c : sexp) : sexp :=
  match c with
  | L (root :: nodes) =>
      match decode_yaml (map node_of nodes) (nat_of root) with
      | DOk v => L [A "ok"; gv_sexp v]
      | DErr => L [A "err"]
      | DFuel => L [A "out-of-fuel"]
      end
  | _ => A "bad-case"
  end.
