(** Glue for C03 / C13 (and the parse+marshal leg of others):
    case = decoded document; observation = (status, marshalled JSON). *)
From Coq Require Import String List Bool.
From GP Require Import Base.Sexp Model.Gv Model.Pipeline Model.Marshal Model.Reparse.
Import ListNotations.
Local Open Scope string_scope.

Definition status_sexp (p : pipeline) (w : nat) : sexp :=
  if Nat.eqb w 0 && negb (pp_nosteps p) then L [A "ok"]
  else L [A "warn"; snat w; sbool (pp_nosteps p)].

Fixpoint count_step (s : step) : nat :=
  match s with
  | SGroup _ _ ss _ => S (fold_right (fun x a => count_step x + a) 0 ss)
  | _ => 1
  end.
Definition count_steps (l : list step) : nat := fold_right (fun x a => count_step x + a) 0 l.

Definition run (c : sexp) : sexp :=
  match parse_doc (gv_of_sexp c) with
  | Err => L [A "err"]
  | Ok p w =>
      L [status_sexp p w; snat (count_steps (pp_steps p));
         match marshal_json p with Some j => json_sexp j | None => A "marshal-error" end]
  end.

(** C09: document -> marshalled JSON of the first parse, and of the re-parse of that JSON *)
Definition run_reparse (c : sexp) : sexp :=
  match parse_doc (gv_of_sexp c) with
  | Err => L [A "err"]
  | Ok p _ =>
      match marshal_json p with
      | None => L [A "marshal-error"]
      | Some j1 =>
          match reparse_json p with
          | Err => L [json_sexp j1; A "reparse-error"]
          | Ok p2 _ => L [json_sexp j1; match marshal_json p2 with Some j2 => json_sexp j2 | None => A "marshal-error" end]
          end
      end
  end.

(** C09 (YAML leg): document -> member-sorted value tree of yaml.Marshal's output, and the marshalled
    JSON of the re-parse of that output *)
From GP Require Import Model.MarshalYaml.
Definition run_reparse_yaml (c : sexp) : sexp :=
  match parse_doc (gv_of_sexp c) with
  | Err => L [A "err"]
  | Ok p _ =>
      match marshal_yaml p with
      | None => L [A "marshal-error"]
      | Some y =>
          match reparse_yaml p with
          | Err => L [gv_sexp (gv_sorted y); A "reparse-error"]
          | Ok p2 _ => L [gv_sexp (gv_sorted y); match marshal_json p2 with Some j2 => json_sexp j2 | None => A "marshal-error" end]
          end
      end
  end.

(** C03 (declarative side): document -> the normal form nf writes, or none *)
From GP Require Import Model.NormalForm.
Definition run_nf (c : sexp) : sexp :=
  match nf (gv_of_sexp c) with
  | Some j => json_sexp j
  | None => A "none"
  end.
