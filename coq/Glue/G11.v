From Coq Require Import String List.
From GP Require Import Base.Sexp Model.Matrix.
Import ListNotations.
Local Open Scope string_scope.

Definition pair_of (s : sexp) : string * string :=
  match s with L [A a; A b] => (a, b) | _ => ("", "") end.
Definition adj_of (s : sexp) : option adjustment :=
  match s with
  | L [L w; A sk] =>
      Some (mkAdj (map pair_of w)
                  (if String.eqb sk "absent" then SkAbsent
                   else if String.eqb sk "true" then SkBool true
                   else if String.eqb sk "false" then SkBool false else SkOther))
  | _ => None
  end.
Definition setup_entry_of (s : sexp) : string * option (list string) :=
  match s with
  | L [A d; L [L vs]] => (d, Some (map atom_of vs))
  | L [A d; _] => (d, None)
  | _ => ("", None)
  end.
Definition matrix_of (s : sexp) : option matrix :=
  match s with
  | L [L su; L ad] => Some (mkMatrix (map setup_entry_of su) (map adj_of ad))
  | _ => None
  end.

Definition run (c : sexp) : sexp :=
  match c with
  | L [m; L p] => A (if accepted (validate (matrix_of m) (map pair_of p)) then "accept" else "reject")
  | _ => A "bad-case"
  end.
