(** Glue for C04: parse, interpolate with an environment (env block first, then
    the rest of the pipeline), marshal. *)
From Coq Require Import String List Bool Arith.
From GP Require Import Base.Sexp Model.Gv Model.OMap Model.Pipeline Model.Marshal Model.EnvBlock
     Model.Interpolate Model.Interp.
From GP Require Glue.G10.
Import ListNotations.
Local Open Scope string_scope.

Definition interpolate_pipeline (prefer : bool) (env0 : list (string * string)) (p : pipeline)
  : option (pipeline * list (string * string)) :=
  let blk := match pp_env p with
             | Some l => Some (fold_left (fun m kv => set (fst kv) (snd kv) m) l empty)
             | None => None end in
  match (match blk with
         | None => Some (None, env0)
         | Some m =>
             match run_block (G10.eget false) (G10.eset false) (fun e s => expand_simple e s) prefer m env0 with
             | Some (m', e') => Some (Some (range m'), e')
             | None => None
             end
         end) with
  | None => None
  | Some (envblk, e') =>
      match interp_pipeline_rest (expand_simple e') (mkPipeline (pp_steps p) envblk (pp_rem p) (pp_nosteps p)) with
      | Some p' => Some (p', e')
      | None => None
      end
  end.

(** case: (doc (env pairs)) -> ("ok" json) | ("err") *)
Definition run (c : sexp) : sexp :=
  match c with
  | L [doc; L e0] =>
      match parse_doc (gv_of_sexp doc) with
      | Err => A "doc-does-not-parse"
      | Ok p _ =>
          match interpolate_pipeline false (map G10.pair_of e0) p with
          | None => L [A "err"]
          | Some (p', _) =>
              match marshal_json p' with
              | Some j => L [A "ok"; json_sexp j]
              | None => L [A "marshal-error"]
              end
          end
      end
  | _ => A "bad-case"
  end.
