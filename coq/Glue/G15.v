From Coq Require Import String List.
From GP Require Import Base.Sexp Model.Kinds.
Import ListNotations.
Local Open Scope string_scope.
(** case: ("map" (type?) (keys...)) | ("scalar" s) *)
Definition run (c : sexp) : sexp :=
  match c with
  | L [A "map"; ty; L keys] => A (kind_name (kind_of_map (opt_of atom_of ty) (map atom_of keys)))
  | L [A "scalar"; A s] => A (kind_name (kind_of_scalar s))
  | _ => A "bad-case"
  end.
