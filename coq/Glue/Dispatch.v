From Coq Require Import String List.
From GP Require Import Base.Sexp.
From GP Require Glue.G05 Glue.G17 Glue.G11 Glue.G12 Glue.G15 Glue.G18 Glue.G03 Glue.G07 Glue.G10 Glue.G14 Glue.G04 Glue.G16.
Import ListNotations.
Local Open Scope string_scope.

Definition dispatch (prop : string) (c : sexp) : sexp :=
  if String.eqb prop "C05" then G05.run c
  else if String.eqb prop "C05nil" then G05.run_nil
  else if String.eqb prop "C17" then G17.run c
  else if String.eqb prop "C11" then G11.run c
  else if String.eqb prop "C12" then G12.run c
  else if String.eqb prop "C15" then G15.run c
  else if String.eqb prop "C18" then G18.run c
  else if String.eqb prop "C03" then G03.run c
  else if String.eqb prop "C03nf" then G03.run_nf c
  else if String.eqb prop "C07" then G07.run c
  else if String.eqb prop "C10" then G10.run c
  else if String.eqb prop "C14" then G14.run_payload c
  else if String.eqb prop "C01" then G14.run_verify c
  else if String.eqb prop "C06" then G14.run_sign_steps c
  else if String.eqb prop "C04" then G04.run c
  else if String.eqb prop "C09" then G03.run_reparse c
  else if String.eqb prop "C09yaml" then G03.run_reparse_yaml c
  else if String.eqb prop "C02" then G14.run_roundtrip c
  else if String.eqb prop "C16" then G16.run c
  else if String.eqb prop "C16ref" then G16.run_ref c
  else if String.eqb prop "C12step" then G12.run_step c
  else A "unknown-property".
