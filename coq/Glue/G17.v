From Coq Require Import String List.
From GP Require Import Base.Sexp Model.Plugin.
Import ListNotations.
Definition run (c : sexp) : sexp := A (full_source (atom_of c)).
