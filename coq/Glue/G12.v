From Coq Require Import String List.
From GP Require Import Base.Sexp Model.Gv Model.Pipeline Model.Marshal Model.MatrixInterp Model.MatrixStep.
Import ListNotations.
Local Open Scope string_scope.

Definition pair_of (s : sexp) : string * string :=
  match s with L [A a; A b] => (a, b) | _ => ("", "") end.

(** case: (perm string) -> ("ok" out) | ("err") *)
Definition run (c : sexp) : sexp :=
  match c with
  | L [L p; A s] =>
      match transform_result (repl_of_perm (map pair_of p)) s with
      | Some o => L [A "ok"; A o]
      | None => L [A "err"]
      end
  | _ => A "bad-case"
  end.

(** step level: (stepdoc perm) -> ("ok" json of the step) | ("err") *)
Definition run_step (c : sexp) : sexp :=
  match c with
  | L [sd; L p] =>
      match gv_of_sexp sd with
      | GMap m =>
          match unm_command m with
          | Ok st _ =>
              match interpolate_matrix_permutation st (map pair_of p) with
              | MOk st' => L [A "ok"; json_sexp (mj_command st')]
              | _ => L [A "err"]
              end
          | Err => A "step-does-not-parse"
          end
      | _ => A "step-does-not-parse"
      end
  | _ => A "bad-case"
  end.
