From Coq Require Import String List.
From GP Require Import Base.Sexp Model.MatrixInterp.
Import ListNotations.
Local Open Scope string_scope.

Definition pair_of (s : sexp) : string * string :=
  match s with L [A a; A b] => (a, b) | _ => ("", "") end.

(** case: (perm string) -> ("ok" out) | ("err") *)
Definition run (c : sexp) : sexp :=
  match c with
  | L [L p; A s] =>
      match transform_result (repl_of_perm (map pair_of p)) s with
      | Some o => L [A "ok"; A o]
      | None => L [A "err"]
      end
  | _ => A "bad-case"
  end.
