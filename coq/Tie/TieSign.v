(** Tables regenerated from signature/pipeline_invariants.go and sign.go
    against the model's constants. *)
From Coq Require Import String List Bool.
From GP Require Import Gen.SignFields Gen.Consts Model.Sign.
Import ListNotations.
Local Open Scope string_scope.

Definition mem (s : string) (l : list string) : bool := existsb (String.eqb s) l.
Definition set_eqb (a b : list string) : bool :=
  forallb (fun x => mem x b) a && forallb (fun x => mem x a) b.

(** SignedFields() signs exactly the five documented fields, from the documented sources *)
Theorem tie_signed_fields :
  set_eqb signed_fields_keys mandatory_fields = true /\
  signed_fields_values = ["c.Command"; "EmptyToNilMap(c.Env)"; "EmptyToNilSlice(c.Plugins)";
                          "EmptyToNilPtr(c.Matrix)"; "c.RepositoryURL"] /\
  signed_fields_keys = ["command"; "env"; "plugins"; "matrix"; "repository_url"].
Proof. vm_compute. repeat split; reflexivity. Qed.
(** the mandatory set enforced at verification = the default signed set *)
Theorem tie_required_fields : set_eqb required_fields mandatory_fields = true.
Proof. vm_compute. reflexivity. Qed.
(** ValuesForFields produces, per field name, the same expression SignedFields signs *)
Theorem tie_values_for_fields :
  values_for_fields_cases =
  [("command", "command", "c.Command"); ("env", "env", "EmptyToNilMap(c.Env)");
   ("plugins", "plugins", "EmptyToNilSlice(c.Plugins)"); ("matrix", "matrix", "EmptyToNilPtr(c.Matrix)");
   ("repository_url", "repository_url", "c.RepositoryURL")].
Proof. vm_compute. reflexivity. Qed.
Theorem tie_env_prefix : env_namespace_prefix = env_prefix.
Proof. vm_compute. reflexivity. Qed.
Theorem tie_payload_tags : payload_json_tags = ["alg"; "values"].
Proof. vm_compute. reflexivity. Qed.
