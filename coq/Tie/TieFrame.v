(** C19: no hidden shared state, observers do not write.  Decided over the
    tables regenerated from the source (Gen/Frame.v): no function assigns to,
    deletes from, or takes the address of a package-level variable; the
    observer methods never write through their receiver, directly or by calling
    a writing method on it. *)
From Coq Require Import String List Bool.
From GP Require Import Gen.Frame.
Import ListNotations.
Local Open Scope string_scope.

Theorem tie_no_global_writes : global_writes = [].
Proof. vm_compute. reflexivity. Qed.

Definition observers : list (string * string) :=
  [("ordered", "Map.Len"); ("ordered", "Map.IsZero"); ("ordered", "Map.Get"); ("ordered", "Map.Contains");
   ("ordered", "Map.Range"); ("ordered", "Map.ToMap"); ("ordered", "Map.MarshalJSON"); ("ordered", "Map.MarshalYAML");
   ("pipeline", "Pipeline.MarshalJSON"); ("pipeline", "CommandStep.MarshalJSON"); ("pipeline", "GroupStep.MarshalJSON");
   ("pipeline", "WaitStep.MarshalJSON"); ("pipeline", "WaitStep.MarshalYAML"); ("pipeline", "InputStep.MarshalJSON");
   ("pipeline", "InputStep.MarshalYAML"); ("pipeline", "TriggerStep.MarshalJSON"); ("pipeline", "UnknownStep.MarshalJSON");
   ("pipeline", "UnknownStep.MarshalYAML"); ("pipeline", "Plugin.MarshalJSON"); ("pipeline", "Plugin.MarshalYAML");
   ("pipeline", "Plugin.FullSource"); ("pipeline", "Matrix.MarshalJSON"); ("pipeline", "Matrix.MarshalYAML");
   ("pipeline", "Matrix.IsEmpty"); ("pipeline", "Matrix.isSimple"); ("pipeline", "Matrix.validatePermutation");
   ("pipeline", "MatrixSetup.MarshalJSON"); ("pipeline", "MatrixSetup.MarshalYAML");
   ("pipeline", "MatrixAdjustment.MarshalJSON"); ("pipeline", "MatrixAdjustment.ShouldSkip");
   ("pipeline", "MatrixAdjustmentWith.MarshalJSON"); ("pipeline", "MatrixAdjustmentWith.MarshalYAML");
   ("pipeline", "Cache.MarshalJSON"); ("pipeline", "matrixInterpolator.Transform"); ("pipeline", "envInterpolator.Transform");
   ("signature", "CommandStepWithInvariants.SignedFields"); ("signature", "CommandStepWithInvariants.ValuesForFields");
   ("warning", "Warning.Error"); ("warning", "Warning.Unwrap")].

Definition writes_of (pkg name : string) : list string :=
  map (fun r => snd r)
      (filter (fun r => String.eqb (fst (fst r)) pkg && String.eqb (snd (fst r)) name) receiver_writes).

Theorem tie_observers_do_not_write :
  forallb (fun o => match writes_of (fst o) (snd o) with [] => true | _ => false end) observers = true.
Proof. vm_compute. reflexivity. Qed.

(** sanity: the table does see the mutators *)
Theorem tie_mutators_seen :
  negb (match writes_of "ordered" "Map.Set" with [] => true | _ => false end) &&
  negb (match writes_of "ordered" "Map.Delete" with [] => true | _ => false end) &&
  negb (match writes_of "ordered" "Map.Replace" with [] => true | _ => false end) = true.
Proof. vm_compute. reflexivity. Qed.

(** no package-level variable can carry mutable state reachable through its methods: every package-level
    variable is initialised by an error constructor, a compiled regexp, a function value or a literal, the one
    exception being the slice ValidSigningAlgorithms (built once by concatenating three literal slices, and
    never written: tie_no_global_writes).  A variable initialised by any other call (a constructor returning
    an object with mutating methods, e.g. a shared env) or not initialised at all is hidden shared state. *)
Definition inert_kind (k : string) : bool :=
  existsb (String.eqb k) ["error"; "regexp"; "func"; "literal"; "nil-conversion"].
Theorem tie_globals_inert :
  filter (fun r => negb (inert_kind (snd r))) package_global_kinds
  = [("jwkutil", "ValidSigningAlgorithms", "other-call")].
Proof. vm_compute. reflexivity. Qed.
