(** Which fields each interpolate method visits, and under which transformer
    (regenerated from the source into Gen/InterpScope.v), against the scope the
    properties C12 and C04 document. *)
From Coq Require Import String List Bool.
From GP Require Import Gen.InterpScope Gen.Consts.
Import ListNotations.
Local Open Scope string_scope.

Definition mem (s : string) (l : list string) : bool := existsb (String.eqb s) l.
Definition set_eqb (a b : list string) : bool :=
  forallb (fun x => mem x b) a && forallb (fun x => mem x a) b.

(** substring test for the guard, e.g. "envInterpolator" inside "envInterpolator|x" *)
Fixpoint prefix (p s : string) : bool :=
  match p, s with
  | EmptyString, _ => true
  | String a p', String b s' => Ascii.eqb a b && prefix p' s'
  | _, _ => false
  end.
Fixpoint contains (p s : string) : bool :=
  prefix p s || match s with EmptyString => false | String _ r => contains p r end.

(** fields visited when the transformer is [tf] (guard "" = always), with the helper used *)
Definition visited (tf : string) (tbl : list (string * string * string)) : list (string * string) :=
  map (fun r => (snd (fst r), snd r))
      (filter (fun r => String.eqb (fst (fst r)) "" || contains tf (fst (fst r))) tbl).
Definition visited_fields tf tbl := map snd (visited tf tbl).

(** matrix interpolation of a command step: command, label, plugins, env VALUES, unknown fields — nothing else *)
Theorem tie_matrix_scope_command_step :
  set_eqb (visited_fields "matrixInterpolator" interp_CommandStep)
          ["Command"; "Label"; "Plugins"; "Env"; "RemainingFields"] = true /\
  mem "interpolateMapValues" (map fst (filter (fun r => String.eqb (snd r) "Env") (visited "matrixInterpolator" interp_CommandStep))) = true /\
  mem "interpolateMap" (map fst (filter (fun r => String.eqb (snd r) "Env") (visited "matrixInterpolator" interp_CommandStep))) = false.
Proof. vm_compute. repeat split; reflexivity. Qed.

(** the matrix definition does not interpolate itself with matrix tokens *)
Theorem tie_matrix_not_into_matrix :
  hd ("", "", "") interp_Matrix = ("matrixInterpolator", "return", "").
Proof. vm_compute. reflexivity. Qed.

(** env interpolation of a command step: every string-bearing field except Signature *)
Theorem tie_env_scope_command_step :
  set_eqb (visited_fields "envInterpolator" interp_CommandStep)
          ["Command"; "Label"; "Plugins"; "Key"; "Env"; "Matrix"; "Cache"; "RemainingFields"] = true /\
  mem "Signature" (visited_fields "envInterpolator" interp_CommandStep) = false.
Proof. vm_compute. repeat split; reflexivity. Qed.

Theorem tie_env_scope_other_steps :
  set_eqb (visited_fields "envInterpolator" interp_GroupStep) ["Key"; "Group"; "Steps"; "RemainingFields"] = true /\
  visited_fields "envInterpolator" interp_WaitStep = ["Contents"] /\
  visited_fields "envInterpolator" interp_InputStep = ["Contents"] /\
  visited_fields "envInterpolator" interp_TriggerStep = ["Contents"] /\
  visited_fields "envInterpolator" interp_UnknownStep = ["Contents"] /\
  set_eqb (visited_fields "envInterpolator" interp_Plugin) ["Source"; "Config"] = true /\
  set_eqb (visited_fields "envInterpolator" interp_Matrix) ["Setup"; "Adjustments"; "RemainingFields"] = true /\
  set_eqb (visited_fields "envInterpolator" interp_MatrixAdjustment) ["With"; "Skip"; "RemainingFields"] = true /\
  set_eqb (visited_fields "envInterpolator" interp_Cache) ["Name"; "Paths"; "Size"; "RemainingFields"] = true.
Proof. vm_compute. repeat split; reflexivity. Qed.

(** the regexp literal the scanner of Model/MatrixInterp.v was written for *)
Theorem tie_matrix_token_re : matrix_token_re = "\{\{\s*matrix(\.[\w-\.]+)?\s*\}\}".
Proof. vm_compute. reflexivity. Qed.
