(** The step-kind tables regenerated from steps.go / step_scalar.go equal the
    documented rule table the model uses. *)
From Coq Require Import String List Bool.
From GP Require Import Gen.Kinds Model.Kinds.
Import ListNotations.
Local Open Scope string_scope.

Definition go_kind (n : string) : option kind :=
  if String.eqb n "CommandStep" then Some KCommand
  else if String.eqb n "WaitStep" then Some KWait
  else if String.eqb n "InputStep" then Some KInput
  else if String.eqb n "TriggerStep" then Some KTrigger
  else if String.eqb n "GroupStep" then Some KGroup
  else None.

Definition kind_eqb (a b : kind) : bool :=
  match a, b with
  | KCommand, KCommand | KWait, KWait | KInput, KInput | KTrigger, KTrigger | KGroup, KGroup => true
  | KUnknown ErrUnknownStepType, KUnknown ErrUnknownStepType => true
  | KUnknown ErrStepTypeInference, KUnknown ErrStepTypeInference => true
  | _, _ => false
  end.

Fixpoint list_eqb {T U} (e : T -> U -> bool) (a : list T) (b : list U) : bool :=
  match a, b with
  | [], [] => true
  | x :: a', y :: b' => e x y && list_eqb e a' b'
  | _, _ => false
  end.

Definition row_eqb (g : list string * string) (s : list string * kind) : bool :=
  list_eqb String.eqb (fst g) (fst s) &&
  match go_kind (snd g) with Some k => kind_eqb k (snd s) | None => false end.

Theorem tie_step_by_type : list_eqb row_eqb step_by_type type_table = true.
Proof. vm_compute. reflexivity. Qed.
Theorem tie_step_by_type_default : step_by_type_default = ("nil", "ErrUnknownStepType").
Proof. vm_compute. reflexivity. Qed.
Theorem tie_step_by_key_inference : list_eqb row_eqb step_by_key_inference families = true.
Proof. vm_compute. reflexivity. Qed.
Theorem tie_step_by_key_inference_default : step_by_key_inference_default = ("nil", "ErrStepTypeInference").
Proof. vm_compute. reflexivity. Qed.
Theorem tie_new_scalar_step : list_eqb row_eqb new_scalar_step scalar_table = true.
Proof. vm_compute. reflexivity. Qed.
Theorem tie_new_scalar_step_default : new_scalar_step_default = ("UnknownStep", "ErrUnknownStepType").
Proof. vm_compute. reflexivity. Qed.
