(** The allow-lists regenerated from jwkutil/validate.go equal the tables the
    model uses (jwa.X identifiers mapped to their string names). *)
From Coq Require Import String List Bool.
From GP Require Import Gen.Jwk Model.Jwk.
Import ListNotations.
Local Open Scope string_scope.

Definition jwa_name (id : string) : string :=
  if String.eqb id "jwa.RSA" then "RSA" else if String.eqb id "jwa.EC" then "EC"
  else if String.eqb id "jwa.OKP" then "OKP" else if String.eqb id "jwa.OctetSeq" then "oct"
  else if String.eqb id "jwa.PS512" then "PS512" else if String.eqb id "jwa.ES512" then "ES512"
  else if String.eqb id "jwa.EdDSA" then "EdDSA" else id.

Theorem tie_valid_algs_for_key_type :
  map (fun r => (jwa_name (fst r), map jwa_name (snd r))) valid_algs_for_key_type = valid_algs_for_kty.
Proof. vm_compute. reflexivity. Qed.
Theorem tie_valid_signing_algorithms : map jwa_name valid_signing_algorithms = valid_signing_algs.
Proof. vm_compute. reflexivity. Qed.
Theorem tie_valid_key_types : map jwa_name valid_key_types = valid_ktys.
Proof. vm_compute. reflexivity. Qed.
(** the order of the checks in Validate, as the sequence of sentinel errors it can return *)
Theorem tie_validate_order : validate_error_sequence =
  ["ErrKeyMissingAlg"; "ErrInvalidSigningAlgorithm"; "ErrUnsupportedSigningAlgorithm";
   "ErrUnsupportedKeyType"; "ErrUnsupportedSigningAlgorithmForKeyType"].
Proof. vm_compute. reflexivity. Qed.
