(** The marshal models against the struct tags regenerated from the source.

    For every struct the library marshals through its tags (inlineFriendlyMarshalJSON
    for JSON, yaml.v3's struct encoder for YAML), the member names the model writes
    for a value with every field filled are exactly the tag keys, and the member
    names it writes for the zero value are exactly the keys whose tag has no
    `omitempty` - both read off Gen/Structs.v, which the translator regenerates from
    /repo on every run.  A tag renamed, added, removed, or gaining / losing
    `omitempty` in the source breaks one of these computations. *)
From Coq Require Import String List Bool ZArith.
From GP Require Import Base.Sexp Gen.Structs Model.Gv Model.Decode Model.Plugin Model.Pipeline Model.Marshal Model.MarshalYaml.
Import ListNotations.
Local Open Scope string_scope.
Local Open Scope list_scope.

Definition mem (s : string) (l : list string) : bool := existsb (String.eqb s) l.
Definition set_eqb (a b : list string) : bool :=
  forallb (fun x => mem x b) a && forallb (fun x => mem x a) b.

Fixpoint has_opt (o : string) (l : list string) : bool :=
  match l with [] => false | x :: r => String.eqb x o || has_opt o r end.
Definition omitempty (r : field_row) : bool := has_opt "omitempty" (tl (split_comma (row_yaml r))).

Definition keyed_rows (rows : list field_row) : list field_row :=
  filter (fun r => match classify r with FKeyed => true | _ => false end) rows.
Definition all_keys (rows : list field_row) : list string := map primary_key (keyed_rows rows).
Definition kept_keys (rows : list field_row) : list string :=
  map primary_key (filter (fun r => negb (omitempty r)) (keyed_rows rows)).
Definition has_inline (rows : list field_row) : bool :=
  existsb (fun r => match classify r with FInline => true | _ => false end) rows.

Definition jkeys (j : json) : list string := match j with JObj l => map fst l | _ => [] end.
Definition ykeys (g : gv) : list string := match g with GMap l => map fst l | _ => [] end.

(** witnesses: every field filled / every field zero *)
Definition sig_full := mkSig "EdDSA" (Some ["command"]) "v".
Definition adj_full := mkMAdj (Some [("os", "linux")]) (GBool true) [].
Definition adj_zero := mkMAdj None GNull [].
Definition mx_full := mkMx (Some [("os", Some ["linux"])]) [Some adj_full] [].
Definition mx_zero := mkMx None [] [("zz", GInt 1%Z)].          (* an extra key keeps it out of the simple form *)
Definition cache_full := mkCache false "n" ["p"] "s" [].
Definition cache_zero := mkCache false "" [] "" [].
Definition cache_off_full := mkCache true "n" ["p"] "s" [].
Definition cmd_full := mkCmd "k" "l" "c" [mkPlugin "docker#v1" GNull] [("A", "1")] (Some sig_full) (Some mx_full) (Some cache_full) [].
Definition cmd_zero := mkCmd "" "" "" [] [] None None None [].
Definition grp_full := SGroup "k" (Some "g") [SCommand cmd_zero] [].
Definition grp_zero := SGroup "" None [] [].
Definition pp_full := mkPipeline [SCommand cmd_zero] (Some [("A", "1")]) [] false.
Definition pp_zero := mkPipeline [] None [] false.

(** JSON side *)
Theorem tie_json_command :
  set_eqb (jkeys (mj_command cmd_full)) (all_keys struct_CommandStep) = true /\
  set_eqb (jkeys (mj_command cmd_zero)) (kept_keys struct_CommandStep) = true /\ has_inline struct_CommandStep = true.
Proof. vm_compute. repeat split; reflexivity. Qed.
Theorem tie_json_group :
  set_eqb (jkeys (mj_step grp_full)) (all_keys struct_GroupStep) = true /\
  set_eqb (jkeys (mj_step grp_zero)) (kept_keys struct_GroupStep) = true /\ has_inline struct_GroupStep = true.
Proof. vm_compute. repeat split; reflexivity. Qed.
Theorem tie_json_pipeline :
  set_eqb (jkeys (mj_pipeline pp_full)) (all_keys struct_Pipeline) = true /\
  set_eqb (jkeys (mj_pipeline pp_zero)) (kept_keys struct_Pipeline) = true /\ has_inline struct_Pipeline = true.
Proof. vm_compute. repeat split; reflexivity. Qed.
Theorem tie_json_matrix :
  set_eqb (jkeys (mj_matrix mx_full)) (all_keys struct_Matrix) = true /\
  set_eqb (jkeys (mj_matrix mx_zero)) ("zz" :: kept_keys struct_Matrix) = true /\ has_inline struct_Matrix = true.
Proof. vm_compute. repeat split; reflexivity. Qed.
Theorem tie_json_adjustment :
  set_eqb (jkeys (mj_adj (Some adj_full))) (all_keys struct_MatrixAdjustment) = true /\
  set_eqb (jkeys (mj_adj (Some adj_zero))) (kept_keys struct_MatrixAdjustment) = true /\ has_inline struct_MatrixAdjustment = true.
Proof. vm_compute. repeat split; reflexivity. Qed.
(** Cache: MarshalJSON writes `false` for a disabled cache, so `Disabled` itself never appears in JSON *)
Theorem tie_json_cache :
  set_eqb ("disabled" :: jkeys (mj_cache cache_full)) (all_keys struct_Cache) = true /\
  set_eqb (jkeys (mj_cache cache_zero)) (kept_keys struct_Cache) = true /\ has_inline struct_Cache = true /\
  mj_cache cache_off_full = JBool false.
Proof. vm_compute. repeat split; reflexivity. Qed.
Theorem tie_json_signature :
  jkeys (mj_sig sig_full) = all_keys struct_Signature /\ kept_keys struct_Signature = all_keys struct_Signature /\
  map row_json struct_Signature = all_keys struct_Signature.
Proof. vm_compute. repeat split; reflexivity. Qed.

(** YAML side: yaml.v3 writes the fields in declaration order *)
Theorem tie_yaml_command :
  ykeys (my_command cmd_full) = all_keys struct_CommandStep /\ ykeys (my_command cmd_zero) = kept_keys struct_CommandStep.
Proof. vm_compute. split; reflexivity. Qed.
Theorem tie_yaml_group :
  ykeys (my_step grp_full) = all_keys struct_GroupStep /\ ykeys (my_step grp_zero) = kept_keys struct_GroupStep.
Proof. vm_compute. split; reflexivity. Qed.
Theorem tie_yaml_pipeline :
  ykeys (my_pipeline pp_full) = all_keys struct_Pipeline /\ ykeys (my_pipeline pp_zero) = kept_keys struct_Pipeline.
Proof. vm_compute. split; reflexivity. Qed.
Theorem tie_yaml_matrix :
  ykeys (my_matrix mx_full) = all_keys struct_Matrix /\ ykeys (my_matrix mx_zero) = kept_keys struct_Matrix ++ ["zz"].
Proof. vm_compute. split; reflexivity. Qed.
Theorem tie_yaml_adjustment :
  ykeys (my_adj (Some adj_full)) = all_keys struct_MatrixAdjustment /\
  ykeys (my_adj (Some adj_zero)) = kept_keys struct_MatrixAdjustment.
Proof. vm_compute. split; reflexivity. Qed.
Theorem tie_yaml_cache :
  ykeys (my_cache cache_off_full) = all_keys struct_Cache /\ ykeys (my_cache cache_zero) = kept_keys struct_Cache.
Proof. vm_compute. split; reflexivity. Qed.
Theorem tie_yaml_signature : ykeys (my_sig sig_full) = all_keys struct_Signature.
Proof. vm_compute. reflexivity. Qed.
