(** Ties between the constants regenerated from the Go source (Gen/Consts.v)
    and the constants the hand-written model uses.  Decided by computation over
    the finite generated tables. *)
From Coq Require Import String List Bool.
From GP Require Import Gen.Consts Model.Plugin.
Import ListNotations.

Definition mem (s : string) (l : list string) : bool := existsb (String.eqb s) l.

(** plugin.go:FullSource uses exactly the suffix, host and default organisation
    the model was written with *)
Theorem tie_plugin_consts :
  mem plugin_suffix full_source_literals && mem plugin_host full_source_literals &&
  mem plugin_org full_source_literals && mem "#" full_source_literals &&
  mem "/" full_source_literals && mem "." full_source_literals && mem "\" full_source_literals = true.
Proof. vm_compute. reflexivity. Qed.
