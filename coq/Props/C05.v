(** C05 — the ordered map is a correct ordered dictionary under every
    operation sequence.  Only statements; every proof is [exact lemma]. *)
From Coq Require Import String List Arith Bool.
From GP Require Import Model.OMap Proofs.OMapProofs Proofs.OMapFromItems Proofs.SmallLaws.
Import ListNotations.

Section C05.
  Variable V : Type.
  Variable veq : V -> V -> bool.
  Hypothesis veq_spec : forall x y, veq x y = true <-> x = y.

  (** every history of Set / Replace / Delete from the empty (or zero-value)
      map reaches a state satisfying the representation invariant ... *)
  Theorem inv_reachable : forall ops, Inv V (fold_left (@step V) ops empty).
  Proof. exact (OMapProofs.inv_reachable V). Qed.

  (** ... whose abstraction is the list-of-pairs model run on the same history *)
  Theorem abs_refines : forall ops,
      abs (fold_left (@step V) ops empty) = fold_left (@spec_step V) ops [].
  Proof. exact (OMapProofs.abs_refines V). Qed.

  (** one step, from any state satisfying the invariant (not only reachable ones) *)
  Theorem step_refines : forall m o, Inv V m ->
      Inv V (step m o) /\ abs (step m o) = spec_step (abs m) o.
  Proof. intros m o H; split; [exact (OMapProofs.inv_step V m o H) | exact (OMapProofs.abs_step V m o H)]. Qed.

  (** the constructor from a pair list (MapFromItems) is such a history: it satisfies the invariant and its
      abstraction is the list model built from the same pairs (a repeated key is one entry: first position,
      last value - Proofs/OMapFromItems.v from_items_repeated_key) *)
  Theorem from_items_inv : forall l, Inv V (from_items V l).
  Proof. exact (OMapFromItems.from_items_inv V). Qed.
  Theorem from_items_refines : forall l, abs (from_items V l) = spec_from_items V l.
  Proof. exact (OMapFromItems.from_items_refines V). Qed.

  (** the list model is a dictionary: a key set twice is one entry with the last value; lookups of other keys are
      unaffected *)
  Theorem p_set_same_key_twice : forall k v1 v2 (l : pairs V), p_set k v2 (p_set k v1 l) = p_set k v2 l.
  Proof. exact (SmallLaws.p_set_same_key_twice V). Qed.
  Theorem p_set_lookup : forall k v (l : pairs V), p_get k (p_set k v l) = Some v.
  Proof. exact (SmallLaws.p_set_lookup V). Qed.
  Theorem p_set_keeps_others : forall k k' v (l : pairs V), k <> k' -> p_get k' (p_set k v l) = p_get k' l.
  Proof. exact (SmallLaws.p_set_keeps_others V). Qed.

  (** the list model is a dictionary: keys stay distinct *)
  Theorem keys_distinct : forall m, Inv V m -> NoDup (map fst (abs m)).
  Proof. exact (OMapProofs.abs_nodup V). Qed.

  (** Len, IsZero, Get, Contains, Range agree with the list model (ToMap and
      the JSON / YAML encoders are built from Range in the code) *)
  Theorem observers_agree : forall m, Inv V m ->
      len m = length (abs m) /\
      is_zero m = (match abs m with [] => true | _ => false end) /\
      (forall k, get k m = p_get k (abs m)) /\
      (forall k, contains k m = p_has k (abs m)) /\
      range m = abs m.
  Proof. exact (OMapProofs.observers_agree V). Qed.

  (** Equal is total (the model function has no failing branch; the index
      bound is what the fix of finding F1 added) and decides list equality *)
  Theorem equal_correct : forall a b, Inv V a -> Inv V b ->
      equal veq a b = p_eqb veq (abs a) (abs b).
  Proof. exact (OMapProofs.equal_correct V veq). Qed.

  Theorem equal_iff : forall a b, Inv V a -> Inv V b ->
      (equal veq a b = true <-> abs a = abs b).
  Proof. exact (OMapProofs.equal_iff V veq veq_spec). Qed.

  Theorem equal_refl : forall a, Inv V a -> equal veq a a = true.
  Proof. exact (OMapProofs.equal_refl V veq veq_spec). Qed.

  Theorem equal_sym : forall a b, Inv V a -> Inv V b -> equal veq a b = equal veq b a.
  Proof. exact (OMapProofs.equal_sym V veq veq_spec). Qed.

  (** renaming every visited key from inside a Range callback *)
  Theorem range_rename_refines : forall fk fv m, Inv V m ->
      Inv V (range_rename fk fv m) /\ abs (range_rename fk fv m) = p_rename fk fv (abs m).
  Proof. exact (OMapProofs.range_rename_refines V). Qed.
End C05.

(** non-vacuity: a reachable state with a tombstone and a rename onto an existing key *)
Example c05_nonvacuous :
  abs (fold_left (@step nat) [OSet "x"%string 1; OSet "y"%string 2; OReplace "x"%string "y"%string 3] empty)
  = [("y"%string, 3)].
Proof. vm_compute. reflexivity. Qed.

Print Assumptions inv_reachable.
Print Assumptions from_items_inv.
Print Assumptions from_items_refines.
Print Assumptions p_set_same_key_twice.
Print Assumptions p_set_lookup.
Print Assumptions p_set_keeps_others.
Print Assumptions abs_refines.
Print Assumptions step_refines.
Print Assumptions keys_distinct.
Print Assumptions observers_agree.
Print Assumptions equal_correct.
Print Assumptions equal_iff.
Print Assumptions equal_refl.
Print Assumptions equal_sym.
Print Assumptions range_rename_refines.
