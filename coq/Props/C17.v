(** C17 — plugin source canonicalisation follows the documented rules and is
    idempotent.  Statements only. *)
From Coq Require Import String List Ascii Bool.
From GP Require Import Model.Plugin Proofs.PluginProofs.
Import ListNotations.
Local Open Scope string_scope.

(** name[#ref] -> github.com/buildkite-plugins/name-buildkite-plugin[#ref] *)
Theorem expand_bare : forall n r, is_name n = true -> ok_opt_ref r = true ->
  full_source (n ++ opt_ref r) = "github.com/buildkite-plugins/" ++ n ++ "-buildkite-plugin" ++ opt_ref r.
Proof. exact PluginProofs.expand_bare. Qed.

(** org/name[#ref] -> github.com/org/name-buildkite-plugin[#ref] *)
Theorem expand_org : forall o n r, is_name o = true -> is_name n = true -> ok_opt_ref r = true ->
  full_source (o ++ "/" ++ n ++ opt_ref r) = "github.com/" ++ o ++ "/" ++ n ++ "-buildkite-plugin" ++ opt_ref r.
Proof. exact PluginProofs.expand_org. Qed.

(** paths (leading '/', '.', '\') are left as written *)
Theorem leave_path : forall s,
  first_is "/"%char s || first_is "."%char s || first_is "\"%char s = true -> full_source s = s.
Proof. exact PluginProofs.leave_path. Qed.

(** a ':' in the first path segment: URLs with a scheme, scp-style, C:\... *)
Theorem leave_colon : forall s,
  has_char ":"%char (fst (cut "/"%char (fst (cut "#"%char s)))) = true -> full_source s = s.
Proof. exact PluginProofs.leave_colon. Qed.

(** three or more path segments are left as written *)
Theorem leave_three_segments : forall s,
  3 <= length (split "/"%char (fst (cut "#"%char s))) -> full_source s = s.
Proof. exact PluginProofs.leave_three_segments. Qed.

(** canonicalising twice = canonicalising once, on the documented forms *)
Theorem idempotent : forall s, in_domain s = true -> full_source (full_source s) = full_source s.
Proof. exact PluginProofs.idempotent. Qed.

Print Assumptions expand_bare.
Print Assumptions expand_org.
Print Assumptions leave_path.
Print Assumptions leave_colon.
Print Assumptions leave_three_segments.
Print Assumptions idempotent.
