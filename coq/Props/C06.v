(** C06 — signing a step list signs every command step at every depth, or refuses. *)
From Coq Require Import String List Ascii Bool Arith Permutation.
From GP Require Import Model.Gv Model.Pipeline Model.Marshal Model.Jcs Model.Sign Proofs.JcsProofs Proofs.SignProofs.
Import ListNotations.
Local Open Scope string_scope.

Section C06.
  Variable K PK : Type.
  Variable pub : K -> PK.
  Variable alg_of : K -> string.
  Variable sgn : K -> string -> string.
  Variable vrf : PK -> string -> string -> bool.
  Hypothesis vrf_ideal : forall pk m s, vrf pk m s = true <-> exists k, pk = pub k /\ s = sgn k m.

  (** refusal exactly when a step of unknown kind occurs anywhere, at any depth *)
  Theorem sign_steps_refuses_iff : forall k repo penv ss,
    sign_steps K alg_of sgn k repo penv ss = None <-> existsb has_unknown ss = true.
  Proof. exact (SignProofs.sign_steps_refuses_iff K alg_of sgn). Qed.
  (** nothing but signatures changes *)
  Theorem sign_steps_frame : forall k repo penv ss ss',
    sign_steps K alg_of sgn k repo penv ss = Some ss' -> map erase_sig ss' = map erase_sig ss.
  Proof. exact (SignProofs.sign_steps_frame K alg_of sgn). Qed.
  (** every command step at every depth carries the signature of that very step *)
  Theorem sign_steps_signs_all : forall k repo penv ss ss',
    sign_steps K alg_of sgn k repo penv ss = Some ss' ->
    forall c, In c (concat (map commands_deep ss')) -> cs_sig c = Some (sign K alg_of sgn k c repo penv).
  Proof. exact (SignProofs.sign_steps_signs_all K alg_of sgn). Qed.
  (** which verifies, names the key's algorithm, and lists exactly the sorted field names *)
  Theorem sign_steps_verify : forall k repo penv ss ss',
    NoDup (map fst penv) ->
    sign_steps K alg_of sgn k repo penv ss = Some ss' ->
    forall c sg, In c (concat (map commands_deep ss')) -> cs_sig c = Some sg ->
      verify PK vrf (pub k) sg c repo penv = true /\ sg_alg sg = alg_of k /\
      sg_fields sg = Some (map fst (sort_keys (sign_values c repo penv))).
  Proof. exact (SignProofs.sign_steps_verify K PK pub alg_of sgn vrf vrf_ideal JcsProofs.ser_perm). Qed.
End C06.

(** the field names: the five mandatory fields plus one env::NAME per pipeline variable
    not shadowed by the step's own env *)
Theorem signed_field_names : forall c repo penv f,
  In f (map fst (sign_values c repo penv)) <->
  In f mandatory_fields \/ exists n, f = (env_prefix ++ n)%string /\ ahas n penv = true /\ ahas n (cs_env c) = false.
Proof. exact SignProofs.sign_values_keys. Qed.

Print Assumptions sign_steps_refuses_iff.
Print Assumptions sign_steps_frame.
Print Assumptions sign_steps_signs_all.
Print Assumptions sign_steps_verify.
Print Assumptions signed_field_names.
