(** C16 — the reflective unmarshaler assigns every input key to exactly one
    destination (struct level: tag / lower-cased name / first present alias /
    inline catch-all), and on alias-free targets and well-typed documents the
    whole recursive decoder agrees with the structural reference decoder (the
    YAML library's own decoding). *)
From Coq Require Import String List Ascii Bool Arith Permutation ZArith.
From GP Require Import Model.Gv Model.Decode Model.Reflect Gen.Structs Gen.TestStructs Proofs.DecodeProofs Proofs.ReflectProofs.
Import ListNotations.
Local Open Scope string_scope.
Local Open Scope list_scope.

(** each input key is consumed by exactly one place *)
Theorem partition_exact : forall fields m,
  NoDup (map fst m) -> keys_disjoint fields ->
  let p := partition_keys fields m in
  Permutation (map fst m) (consumed p ++ map fst (leftover p)) /\
  NoDup (consumed p ++ map fst (leftover p)).
Proof. exact DecodeProofs.partition_exact. Qed.

(** the field whose tag names it, else the field that lists it as its first present alias when the primary key is absent *)
Theorem match_rule : forall fields m r k v,
  In (r, k, v) (assigned (partition_keys fields m)) ->
  In r fields /\ classify r = FKeyed /\ aget k m = Some v /\
  (k = primary_key r \/
   (aget (primary_key r) m = None /\ first_alias (split_comma (row_aliases r)) m = Some (k, v))).
Proof. exact DecodeProofs.match_rule. Qed.

Theorem assigned_complete : forall fields m r k v,
  In r fields -> classify r = FKeyed -> field_lookup r m = Some (k, v) ->
  In (r, k, v) (assigned (partition_keys fields m)).
Proof. exact DecodeProofs.assigned_complete. Qed.

Theorem first_alias_spec : forall aliases m k v,
  first_alias aliases m = Some (k, v) ->
  exists pre post, aliases = pre ++ k :: post /\ k <> "" /\ aget k m = Some v /\
                   forall a, In a pre -> a = "" \/ aget a m = None.
Proof. exact DecodeProofs.first_alias_spec. Qed.

(** absent keys leave fields untouched *)
Theorem absent_untouched : forall fields m r,
  (forall k, In k (field_keys r) -> aget k m = None) ->
  forall k v, ~ In (r, k, v) (assigned (partition_keys fields m)).
Proof. exact DecodeProofs.absent_untouched. Qed.

(** else the inline catch-all, in document order, values untouched *)
Theorem leftover_spec : forall fields m,
  leftover (partition_keys fields m) =
  filter (fun kv => negb (existsb (String.eqb (fst kv)) (consumed (partition_keys fields m)))) m.
Proof. exact DecodeProofs.leftover_spec. Qed.
Theorem unknown_key_leftover : forall fields m k v,
  In (k, v) m -> (forall r, In r (keyed fields) -> ~ In k (field_keys r)) ->
  In (k, v) (leftover (partition_keys fields m)).
Proof. exact DecodeProofs.unknown_key_leftover. Qed.

(** `-` and unexported fields never receive anything *)
Theorem skipped_never_assigned : forall fields m r k v,
  classify r <> FKeyed -> ~ In (r, k, v) (assigned (partition_keys fields m)).
Proof. exact DecodeProofs.skipped_never_assigned. Qed.

(** the hypothesis holds for every struct descriptor regenerated from the library source *)
Theorem library_structs_disjoint :
  keys_disjoint struct_Pipeline /\ keys_disjoint struct_CommandStep /\
  keys_disjoint struct_CommandStep_UnmarshalOrdered_anon0 /\ keys_disjoint struct_GroupStep /\
  keys_disjoint struct_Matrix /\ keys_disjoint struct_MatrixAdjustment /\ keys_disjoint struct_Cache /\
  keys_disjoint struct_Signature.
Proof. exact DecodeProofs.library_structs_disjoint. Qed.

(** AGREEMENT WITH THE LIBRARY DECODER: for every family of struct descriptors without aliases, with
    pairwise distinct keys and field names, at most one inline field per struct, and by-value struct
    nesting below [zf], and for every target type and every document well-typed for it (any depth,
    any size), the generic decoder run on the zero value succeeds and yields exactly what the
    structural reference decoder yields *)
Theorem unm_agrees_ref : forall structs zf,
  alias_free structs -> keys_ok structs -> one_inline structs -> zero_closed structs zf ->
  forall fuel t g, well_typed structs fuel t g = true ->
    unm structs zf fuel t g (zero structs zf t) = UOk (ref structs zf fuel t g).
Proof. exact ReflectProofs.unm_agrees_ref. Qed.
Theorem unm_total_on_well_typed : forall structs zf,
  alias_free structs -> keys_ok structs -> one_inline structs -> zero_closed structs zf ->
  forall fuel t g, well_typed structs fuel t g = true ->
    unm structs zf fuel t g (zero structs zf t) <> UErr.
Proof. exact ReflectProofs.unm_total_on_well_typed. Qed.
(** the hypotheses hold of the alias-free part of the type family the harness decodes into
    (regenerated from harness/cmd/run/c16types.go by the translator) *)
Theorem family_unm_agrees_ref : forall zf fuel t g, 2 <= zf ->
  well_typed plain_family fuel t g = true ->
  unm plain_family zf fuel t g (zero plain_family zf t) = UOk (ref plain_family zf fuel t g).
Proof. exact ReflectProofs.family_unm_agrees_ref. Qed.
(** non-vacuity and necessity of the nesting bound: ReflectProofs.well_typed_example,
    well_typed_inline_example, zero_closed_needed (vm_compute) *)

Print Assumptions partition_exact.
Print Assumptions match_rule.
Print Assumptions assigned_complete.
Print Assumptions first_alias_spec.
Print Assumptions absent_untouched.
Print Assumptions leftover_spec.
Print Assumptions unknown_key_leftover.
Print Assumptions skipped_never_assigned.
Print Assumptions library_structs_disjoint.
Print Assumptions unm_agrees_ref.
Print Assumptions unm_total_on_well_typed.
Print Assumptions family_unm_agrees_ref.
