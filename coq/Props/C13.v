(** C13 — Parse is total: a complete result unless it hard-fails.
    (From the decoded node graph on; the byte-level scanner is yaml.v3's and is
    only exercised by the correspondence's mutation stream.) *)
From Coq Require Import String List Ascii Bool Arith ZArith.
From GP Require Import Base.Sexp Model.Gv Model.Decode Model.Kinds Model.Pipeline Model.Marshal Gen.Structs
     Proofs.PipelineProofs Proofs.SmallLaws.
Import ListNotations.
Local Open Scope string_scope.

(** the model functions are total by construction; the only artificial failure,
    fuel exhaustion, cannot happen with the fuel parse_doc picks: more changes nothing *)
Theorem fuel_stable : forall g f, S (gv_depth g) <= f -> parse f g = parse_doc g.
Proof. exact PipelineProofs.fuel_stable. Qed.

(** exactly one step per entry of the input step sequence, in order ... *)
Theorem steps_one_per_entry : forall f l ss w, unm_steps f (GSeq l) = Ok ss w -> length ss = length l.
Proof. exact PipelineProofs.steps_one_per_entry. Qed.
Theorem steps_pointwise : forall f l ss w, unm_steps (S f) (GSeq l) = Ok ss w ->
  Forall2 (fun g s => exists w', unm_step f g = Ok s w') l ss.
Proof. exact PipelineProofs.steps_pointwise. Qed.
(** ... recursively inside groups ... *)
Theorem group_steps_shape : forall f m k gr ss rem w,
  unm_step f (GMap m) = Ok (SGroup k gr ss rem) w ->
  match aget "steps" m with
  | Some (GSeq l) => length ss = length l
  | Some GNull | None => ss = []
  | Some _ => False
  end.
Proof. exact PipelineProofs.group_steps_shape. Qed.
(** ... and at the top (a usable result always has a step list) *)
Theorem parse_steps_shape : forall g p w, parse_doc g = Ok p w ->
  match g with
  | GSeq l => length (pp_steps p) = length l
  | GMap m => match aget "steps" m with
              | Some (GSeq l) => length (pp_steps p) = length l
              | Some GNull | None => pp_steps p = []
              | Some _ => False
              end
  | _ => False
  end.
Proof. exact PipelineProofs.parse_steps_shape. Qed.

(** unknown steps hold their input verbatim and every fallback is reported *)
Theorem unknown_verbatim : forall f g c w, unm_step f g = Ok (SUnknown c) w -> c = g /\ w = 1.
Proof. exact PipelineProofs.unknown_verbatim. Qed.
Theorem warnings_count_unknown : forall f g ss w, unm_steps f g = Ok ss w -> w = count_unknown ss.
Proof. exact PipelineProofs.warnings_count_unknown. Qed.
Theorem parse_warnings : forall g p w, parse_doc g = Ok p w -> w = count_unknown (pp_steps p).
Proof. exact PipelineProofs.parse_warnings. Qed.

(** a usable result marshals, for documents without non-finite floats *)
Theorem usable_marshals : forall g p w, parse_doc g = Ok p w -> gv_finite g = true -> marshal_json p <> None.
Proof. exact PipelineProofs.usable_marshals. Qed.
(** the hypothesis is needed: known finding F5 (.nan / .inf) *)
Theorem usable_marshals_refuted : exists g p w, parse_doc g = Ok p w /\ marshal_json p = None.
Proof. exact PipelineProofs.usable_marshals_refuted. Qed.

(** a document that is neither a mapping nor a list (null, a scalar) is a hard error - never a usable result with a
    nil step list; a null entry of a top-level step list is a hard error too, and inside a group it makes the group an
    unknown step that holds the original mapping, with one warning *)
Theorem parse_doc_scalar_err : forall g,
  (match g with GMap _ | GSeq _ => False | _ => True end) -> parse_doc g = Err.
Proof. exact SmallLaws.parse_doc_scalar_err. Qed.
Theorem parse_doc_null_step_entry : forall before after,
  parse_doc (GSeq (before ++ GNull :: after)) = Err.
Proof. exact SmallLaws.parse_doc_null_step_entry. Qed.
Theorem unm_step_group_null_entry : forall fuel m before after,
  is_group_map m ->
  field "Steps" (partition_keys struct_GroupStep m) = Some (GSeq (before ++ GNull :: after)) ->
  unm_step (S fuel) (GMap m) = Ok (SUnknown (GMap m)) 1.
Proof. exact SmallLaws.unm_step_group_null_entry. Qed.

Print Assumptions fuel_stable.
Print Assumptions parse_doc_scalar_err.
Print Assumptions parse_doc_null_step_entry.
Print Assumptions unm_step_group_null_entry.
Print Assumptions steps_one_per_entry.
Print Assumptions steps_pointwise.
Print Assumptions group_steps_shape.
Print Assumptions parse_steps_shape.
Print Assumptions unknown_verbatim.
Print Assumptions warnings_count_unknown.
Print Assumptions parse_warnings.
Print Assumptions usable_marshals.
Print Assumptions usable_marshals_refuted.
