(** C02 — signed steps still verify after JSON/YAML serialisation and re-parse.
    Composition of: C01/C06 (what was signed verifies), C14 (the payload depends
    only on canonical content, nil and empty containers identified), C17
    (canonical plugin sources are fixpoints) and C09 (re-parsing the marshalled
    pipeline yields the same normal form), joined by Proofs/RoundtripLink.v: equal
    marshallings have equal signed content. *)
From Coq Require Import String List Ascii Bool Arith Permutation.
From GP Require Import Model.Gv Model.Decode Model.Plugin Model.Pipeline Model.Marshal Model.Reparse Model.Jcs Model.Sign
     Proofs.MarshalProofs Proofs.JcsProofs Proofs.SignProofs Proofs.RoundtripProofs Proofs.PluginProofs Proofs.ReparseProofs Proofs.RoundtripLink Model.MarshalYaml Proofs.YamlLegProofs Proofs.SignedPipelineRoundtrip.
Import ListNotations.
Local Open Scope string_scope.

(** verification reads the presented step only through its signed content *)
Theorem verify_payload_ext : forall sg c c' repo penv,
  same_signed_content c c' -> verify_payload sg c' repo penv = verify_payload sg c repo penv.
Proof. exact RoundtripProofs.verify_payload_ext. Qed.

Section C02.
  Variable K PK : Type.
  Variable pub : K -> PK.
  Variable alg_of : K -> string.
  Variable sgn : K -> string -> string.
  Variable vrf : PK -> string -> string -> bool.
  Hypothesis vrf_ideal : forall pk m s, vrf pk m s = true <-> exists k, pk = pub k /\ s = sgn k m.

  (** a signed step replaced by any step with the same signed content - which is what marshalling
      and re-parsing yields - verifies, given a verification env that contains the pipeline env
      plus any unrelated variables *)
  Theorem signed_roundtrip : forall k c c' repo penv penv',
    NoDup (map fst penv) -> NoDup (map fst penv') ->
    (forall n v, aget n penv = Some v -> aget n penv' = Some v) ->
    same_signed_content c c' ->
    verify PK vrf (pub k) (sign K alg_of sgn k c repo penv) c' repo penv' = true.
  Proof. exact (RoundtripProofs.signed_roundtrip K PK pub alg_of sgn vrf vrf_ideal). Qed.

  (** END TO END (JSON leg): marshal the signed command step, read the JSON back with
      CommandStep.UnmarshalOrdered: the decoder accepts it and the signature verifies against the
      re-read step *)
  Theorem signature_survives_reparse : forall k c repo penv penv',
    cmd_ok c -> NoDup (map fst penv) -> NoDup (map fst penv') ->
    (forall n v, aget n penv = Some v -> aget n penv' = Some v) ->
    exists c', unm_command (gmap (members (mj_command c))) = Ok c' 0 /\
               verify PK vrf (pub k) (sign K alg_of sgn k c repo penv) c' repo penv' = true.
  Proof. exact (RoundtripLink.signature_survives_reparse K PK pub alg_of sgn vrf vrf_ideal). Qed.

  (** END TO END (YAML leg): the same through the value tree of yaml.Marshal's output *)
  Theorem signature_survives_yaml_reparse : forall k c repo penv penv',
    cmd_ok c -> cmd_y_ok c -> NoDup (map fst penv) -> NoDup (map fst penv') ->
    (forall n v, aget n penv = Some v -> aget n penv' = Some v) ->
    exists c', unm_command (match my_command c with GMap m => m | _ => [] end) = Ok c' 0 /\
               verify PK vrf (pub k) (sign K alg_of sgn k c repo penv) c' repo penv' = true.
  Proof. exact (YamlLegProofs.signature_survives_yaml_reparse K PK pub alg_of sgn vrf vrf_ideal). Qed.

  (** THE WHOLE PIPELINE.  Sign every step of a pipeline, marshal it, parse the output again as a whole:
      every command step at every group depth comes back as a command step (none lost, none demoted: same
      number, position by position the same signed content and the same signature) and its signature
      verifies under the public key with any env that contains the signing env *)
  Theorem signed_pipeline_survives_json : forall k repo penv penv' p ss,
    sign_steps K alg_of sgn k repo penv (pp_steps p) = Some ss ->
    let p1 := with_steps p ss in
    pipeline_fix_ok p1 -> NoDup (map fst penv) -> NoDup (map fst penv') ->
    (forall n v, aget n penv = Some v -> aget n penv' = Some v) ->
    exists p2 w, reparse_json p1 = Ok p2 w /\
      (forall c, In c (concat (map commands_deep (pp_steps p2))) ->
         exists sg, cs_sig c = Some sg /\ verify PK vrf (pub k) sg c repo penv' = true) /\
      length (concat (map commands_deep (pp_steps p2))) = length (concat (map commands_deep ss)) /\
      Forall2 (fun c c' => same_signed_content c c' /\ cs_sig c' = cs_sig c)
              (concat (map commands_deep ss)) (concat (map commands_deep (pp_steps p2))).
  Proof. exact (SignedPipelineRoundtrip.signed_pipeline_survives_json K PK pub alg_of sgn vrf vrf_ideal). Qed.
  Theorem signed_pipeline_survives_yaml : forall k repo penv penv' p ss,
    sign_steps K alg_of sgn k repo penv (pp_steps p) = Some ss ->
    let p1 := with_steps p ss in
    pipeline_fix_ok p1 -> yaml_side_ok p1 -> NoDup (map fst penv) -> NoDup (map fst penv') ->
    (forall n v, aget n penv = Some v -> aget n penv' = Some v) ->
    exists p2 w, reparse_yaml p1 = Ok p2 w /\
      (forall c, In c (concat (map commands_deep (pp_steps p2))) ->
         exists sg, cs_sig c = Some sg /\ verify PK vrf (pub k) sg c repo penv' = true) /\
      length (concat (map commands_deep (pp_steps p2))) = length (concat (map commands_deep ss)) /\
      Forall2 (fun c c' => same_signed_content c c' /\ cs_sig c' = cs_sig c)
              (concat (map commands_deep ss)) (concat (map commands_deep (pp_steps p2))).
  Proof. exact (SignedPipelineRoundtrip.signed_pipeline_survives_yaml K PK pub alg_of sgn vrf vrf_ideal). Qed.
  (** signing preserves the structural side condition, so it can be asked of the parsed, unsigned pipeline *)
  Theorem sign_steps_preserves_fix_ok : forall k repo penv p ss,
    sign_steps K alg_of sgn k repo penv (pp_steps p) = Some ss -> pipeline_fix_ok p -> pipeline_fix_ok (with_steps p ss).
  Proof. exact (SignedPipelineRoundtrip.sign_steps_preserves_fix_ok K alg_of sgn). Qed.
End C02.

(** the link: command steps whose JSON marshallings are equal have the same signed content, and the
    re-read of a marshalled step marshals to the same JSON *)
Theorem mj_command_signed_content : forall c c',
  cmd_ok c -> cmd_ok c' -> mj_command c' = mj_command c -> same_signed_content c c'.
Proof. exact RoundtripLink.mj_command_signed_content. Qed.
Theorem command_roundtrip_signed_content : forall c, cmd_ok c ->
  exists c', unm_command (gmap (members (mj_command c))) = Ok c' 0 /\ same_signed_content c c'.
Proof. exact RoundtripLink.command_roundtrip_signed_content. Qed.

(** map insertion / iteration order and document key order are irrelevant (C14) *)
Theorem payload_order_insensitive : forall a vs vs', NoDup (map fst vs) -> Permutation vs vs' ->
  payload a vs = payload a vs'.
Proof. exact (SignProofs.payload_order_insensitive JcsProofs.ser_perm). Qed.
(** short versus canonical plugin source spelling: the canonical spelling is a fixpoint (C17) *)
Theorem canonical_source_stable : forall s, in_domain s = true -> full_source (full_source s) = full_source s.
Proof. exact PluginProofs.idempotent. Qed.
(** nil versus empty env / plugins / matrix give the same signed value *)
Theorem nil_empty_identified : forall c repo,
  (cs_env c = [] -> field_value c repo "env" = Some JNull) /\
  (cs_plugins c = [] -> field_value c repo "plugins" = Some JNull) /\
  (cs_matrix c = None -> field_value c repo "matrix" = Some JNull) /\
  (forall m, cs_matrix c = Some m -> matrix_is_empty m = true -> field_value c repo "matrix" = Some JNull).
Proof.
  intros c repo. unfold field_value. cbn.
  repeat split; intros; repeat match goal with H : _ = _ |- _ => rewrite H end; reflexivity.
Qed.

Print Assumptions verify_payload_ext.
Print Assumptions signed_roundtrip.
Print Assumptions payload_order_insensitive.
Print Assumptions canonical_source_stable.
Print Assumptions nil_empty_identified.
Print Assumptions signature_survives_reparse.
Print Assumptions mj_command_signed_content.
Print Assumptions command_roundtrip_signed_content.
Print Assumptions signature_survives_yaml_reparse.
Print Assumptions signed_pipeline_survives_json.
Print Assumptions signed_pipeline_survives_yaml.
Print Assumptions sign_steps_preserves_fix_ok.
