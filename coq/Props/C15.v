(** C15 — step kinds are chosen by the documented rule table. *)
From Coq Require Import String List Bool.
From GP Require Import Model.Kinds Proofs.KindsProofs.
Import ListNotations.
Local Open Scope string_scope.

Theorem kind_by_type_table :
  kind_by_type "command" = KCommand /\ kind_by_type "script" = KCommand /\
  kind_by_type "wait" = KWait /\ kind_by_type "waiter" = KWait /\
  kind_by_type "block" = KInput /\ kind_by_type "input" = KInput /\ kind_by_type "manual" = KInput /\
  kind_by_type "trigger" = KTrigger /\ kind_by_type "group" = KGroup.
Proof. exact KindsProofs.kind_by_type_table. Qed.

Theorem kind_by_type_unknown : forall t, ~ In t known_types ->
  kind_by_type t = KUnknown ErrUnknownStepType.
Proof. exact KindsProofs.kind_by_type_unknown. Qed.

(** for every key set: the first family in the documented order with a key present wins *)
Theorem kind_by_keys_priority : forall keys pre fam k post,
  families = (pre ++ (fam, k) :: post)%list ->
  (forall f k', In (f, k') pre -> forall x, In x f -> ~ In x keys) ->
  (exists x, In x fam /\ In x keys) ->
  kind_by_keys keys = k.
Proof. exact KindsProofs.kind_by_keys_priority. Qed.

Theorem kind_by_keys_none : forall keys,
  (forall x, In x the_ten_keys -> ~ In x keys) ->
  kind_by_keys keys = KUnknown ErrStepTypeInference.
Proof. exact KindsProofs.kind_by_keys_none. Qed.

(** additional keys never change the decision *)
Theorem extra_keys_irrelevant : forall keys extra,
  (forall x, In x extra -> ~ In x the_ten_keys) ->
  kind_by_keys (keys ++ extra)%list = kind_by_keys keys.
Proof. exact KindsProofs.extra_keys_irrelevant. Qed.

Theorem key_set_only : forall keys keys',
  (forall x, In x keys <-> In x keys') -> kind_by_keys keys = kind_by_keys keys'.
Proof. exact KindsProofs.key_set_only. Qed.

Theorem type_overrides_keys : forall t keys keys', kind_of_map (Some t) keys = kind_of_map (Some t) keys'.
Proof. exact KindsProofs.type_overrides_keys. Qed.

(** anything else becomes unknown, with the sentinel identifying why — never a different known kind *)
Theorem unknown_classified : forall ty keys s,
  kind_of_map ty keys = KUnknown s ->
  (exists t, ty = Some t /\ ~ In t known_types /\ s = ErrUnknownStepType) \/
  (ty = None /\ (forall x, In x the_ten_keys -> ~ In x keys) /\ s = ErrStepTypeInference).
Proof. exact KindsProofs.unknown_classified. Qed.

Theorem kind_of_scalar_table :
  kind_of_scalar "wait" = KWait /\ kind_of_scalar "waiter" = KWait /\
  kind_of_scalar "block" = KInput /\ kind_of_scalar "input" = KInput /\ kind_of_scalar "manual" = KInput.
Proof. exact KindsProofs.kind_of_scalar_table. Qed.

Theorem kind_of_scalar_unknown : forall s,
  ~ In s ["wait"; "waiter"; "block"; "input"; "manual"] -> kind_of_scalar s = KUnknown ErrUnknownStepType.
Proof. exact KindsProofs.kind_of_scalar_unknown. Qed.

Print Assumptions kind_by_type_table.
Print Assumptions kind_by_type_unknown.
Print Assumptions kind_by_keys_priority.
Print Assumptions kind_by_keys_none.
Print Assumptions extra_keys_irrelevant.
Print Assumptions key_set_only.
Print Assumptions type_overrides_keys.
Print Assumptions unknown_classified.
Print Assumptions kind_of_scalar_table.
Print Assumptions kind_of_scalar_unknown.
