(** C03 — parse then marshal yields the documented normal form with no data
    loss.  The normal form itself is the executable composition
    [marshal_json ∘ parse_doc] (Model/Pipeline.v, Model/Marshal.v), tied to the
    library by the correspondence check; the theorems below state what it
    guarantees for every document: nothing the schema does not name is lost,
    duplicated or re-typed, at every struct level. *)
From Coq Require Import String List Ascii Bool Arith ZArith Sorted.
From GP Require Import Base.Sexp Model.Gv Model.Decode Model.Kinds Model.Plugin Model.Pipeline Model.Marshal
     Gen.Structs Proofs.MarshalProofs.
From GP Require Import Model.NormalForm Proofs.NormalFormProofs.
Import ListNotations.
Local Open Scope string_scope.

(** typed fields win over inline ones; every key exactly once; keys sorted *)
Theorem inline_friendly_lookup : forall outline inline k,
  NoDup (map fst outline) -> NoDup (map fst inline) ->
  aget k (members (inline_friendly outline inline)) =
    match aget k outline with
    | Some j => Some j
    | None => option_map gv_json (aget k inline)
    end.
Proof. exact MarshalProofs.inline_friendly_lookup. Qed.
Theorem inline_friendly_nodup : forall outline inline,
  NoDup (map fst (members (inline_friendly outline inline))).
Proof. exact MarshalProofs.inline_friendly_nodup. Qed.
Theorem inline_friendly_keys : forall outline inline k,
  In k (map fst (members (inline_friendly outline inline))) <-> In k (map fst outline) \/ In k (map fst inline).
Proof. exact MarshalProofs.inline_friendly_keys. Qed.
Theorem inline_friendly_sorted : forall outline inline,
  StronglySorted (fun a b => String.leb a b = true) (map fst (members (inline_friendly outline inline))).
Proof. exact MarshalProofs.inline_friendly_sorted. Qed.

(** every key of a command step the schema does not name survives, once, unchanged *)
Theorem command_unknown_keys_survive : forall m c w k v,
  NoDup (map fst m) -> unm_command m = Ok c w -> In (k, v) m -> ~ In k command_schema_keys ->
  aget k (members (mj_command c)) = Some (gv_json v).
Proof. exact MarshalProofs.command_unknown_keys_survive. Qed.
Theorem command_members_nodup : forall c, NoDup (map fst (cs_rem c)) -> NoDup (map fst (members (mj_command c))).
Proof. exact MarshalProofs.command_members_nodup. Qed.
(** command / commands collapse into one `command` member *)
Theorem command_member : forall c, NoDup (map fst (cs_rem c)) ->
  aget "command" (members (mj_command c)) = Some (JStr (cs_command c)).
Proof. exact MarshalProofs.command_member. Qed.

Theorem pipeline_unknown_keys_survive : forall f m p w k v,
  NoDup (map fst m) -> parse f (GMap m) = Ok p w -> In (k, v) m -> k <> "steps" -> k <> "env" ->
  aget k (members (mj_pipeline p)) = Some (gv_json v).
Proof. exact MarshalProofs.pipeline_unknown_keys_survive. Qed.
Theorem group_unknown_keys_survive : forall f m k0 gr ss rem w k v,
  NoDup (map fst m) -> unm_step f (GMap m) = Ok (SGroup k0 gr ss rem) w -> In (k, v) m -> ~ In k group_schema_keys ->
  aget k (members (mj_step (SGroup k0 gr ss rem))) = Some (gv_json v).
Proof. exact MarshalProofs.group_unknown_keys_survive. Qed.
(** wait / input / trigger mappings and unknown steps are kept whole *)
Theorem contents_steps_verbatim : forall f m s w,
  unm_step f (GMap m) = Ok s w ->
  match s with
  | SWait sc ct => sc = "" /\ ct = m
  | SInput sc ct => sc = "" /\ ct = m
  | STrigger ct => ct = m
  | SUnknown c => c = GMap m
  | _ => True
  end.
Proof. exact MarshalProofs.contents_steps_verbatim. Qed.
Theorem matrix_unknown_keys_survive : forall m mx w k v,
  NoDup (map fst m) -> unm_matrix (GMap m) = Ok (Some mx) w -> In (k, v) m -> k <> "setup" -> k <> "adjustments" ->
  aget k (members (mj_matrix mx)) = Some (gv_json v).
Proof. exact MarshalProofs.matrix_unknown_keys_survive. Qed.
Theorem cache_unknown_keys_survive : forall m ca w k v,
  NoDup (map fst m) -> unm_cache (GMap m) = Ok (Some ca) w -> In (k, v) m ->
  ~ In k ["disabled"; "name"; "paths"; "size"] -> ca_disabled ca = false ->
  aget k (members (mj_cache ca)) = Some (gv_json v).
Proof. exact MarshalProofs.cache_unknown_keys_survive. Qed.
(** plugins: single-entry objects keyed by canonical source, empty configs null, mapping order kept *)
Theorem plugin_shape : forall p, exists cfg, mj_plugin p = JObj [(full_source (pl_source p), cfg)] /\
  (pl_config p = GUMap [] \/ pl_config p = GSeq [] \/ pl_config p = GNull -> cfg = JNull).
Proof. exact MarshalProofs.plugin_shape. Qed.
Theorem plugins_of_mapping_order : forall m, map pl_source (plugins_of_map m) = map fst m.
Proof. exact MarshalProofs.plugins_of_mapping_order. Qed.

(** non-vacuity: the normal form of a small document using an alias, both command keys' shorthand,
    a plugin mapping and an unknown key *)
Example c03_example :
  option_map json_sexp
    (match parse_doc (GSeq [GMap [("commands", GSeq [GStr "a"; GInt 2%Z]); ("name", GStr "N");
                                  ("plugins", GMap [("docker#v1", GMap [])]); ("zzz", GBool true)]]) with
     | Ok p _ => marshal_json p | Err => None end)
  = Some (json_sexp (JObj [("steps", JArr [JObj [("command", JStr ("a" ++ nl ++ "2")); ("label", JStr "N");
        ("plugins", JArr [JObj [("github.com/buildkite-plugins/docker-buildkite-plugin#v1", JNull)]]);
        ("zzz", JBool true)]])])).
Proof. vm_compute. reflexivity. Qed.

(** THE DOCUMENTED NORMAL FORM.  [nf] (Model/NormalForm.v) describes the normal form directly on the document
    tree, from the property text, without the typed intermediate pipeline and without the parser or the
    marshaller; parsing and marshalling yields exactly it (hard errors and marshal failures included), for
    every document with distinct keys in every mapping.  [nf] is also run against the real library on every
    generated document (dispatch C03nf). *)
Theorem parse_marshal_nf : forall d, wf_doc d ->
  (match parse_doc d with Ok p _ => marshal_json p | Err => None end) = nf d.
Proof. exact NormalFormProofs.parse_marshal_nf. Qed.
(** nothing is lost: every unknown key, at the top level and in every command step, is in the normal form with
    its value unchanged *)
Theorem nf_keeps_unknown_keys : forall m j,
  wf_doc (GMap m) -> nf (GMap m) = Some j ->
  (forall k v, In (k, v) m -> k <> "steps" -> k <> "env" ->
     aget k (members j) = Some (gv_json v)) /\
  (forall l, aget "steps" m = Some (GSeq l) ->
     exists js, aget "steps" (members j) = Some (JArr js) /\
       Forall2 (fun s sj => forall sm, s = GMap sm -> kind_of_mapping sm = Some KCommand ->
                  forall k v, In (k, v) sm -> ~ In k command_schema_keys ->
                    aget k (members sj) = Some (gv_json v)) l js).
Proof. exact NormalFormProofs.nf_keeps_unknown_keys. Qed.

Print Assumptions inline_friendly_lookup.
Print Assumptions inline_friendly_nodup.
Print Assumptions inline_friendly_keys.
Print Assumptions inline_friendly_sorted.
Print Assumptions command_unknown_keys_survive.
Print Assumptions command_members_nodup.
Print Assumptions command_member.
Print Assumptions pipeline_unknown_keys_survive.
Print Assumptions group_unknown_keys_survive.
Print Assumptions contents_steps_verbatim.
Print Assumptions matrix_unknown_keys_survive.
Print Assumptions cache_unknown_keys_survive.
Print Assumptions plugin_shape.
Print Assumptions plugins_of_mapping_order.
Print Assumptions parse_marshal_nf.
Print Assumptions nf_keeps_unknown_keys.
