(** C14 — the canonical signing payload is deterministic, order-insensitive
    and injective. *)
From Coq Require Import String List Ascii Bool Arith Permutation.
From GP Require Import Model.Gv Model.Pipeline Model.Marshal Model.Jcs Model.Sign Proofs.JcsProofs Proofs.SignProofs.
Import ListNotations.
Local Open Scope string_scope.

(** the payload is a function of algorithm name and field map (deterministic by construction);
    any order of the field map, at every nesting level, gives the same bytes *)
Theorem payload_order_insensitive : forall a vs vs', NoDup (map fst vs) -> Permutation vs vs' ->
  payload a vs = payload a vs'.
Proof. exact (SignProofs.payload_order_insensitive JcsProofs.ser_perm). Qed.
Theorem ser_canon : forall j, ser (canon j) = ser j.
Proof. exact JcsProofs.ser_canon. Qed.
Theorem ser_perm : forall l l', NoDup (map fst l) -> Permutation l l' -> ser (JObj l) = ser (JObj l').
Proof. exact JcsProofs.ser_perm. Qed.

(** INJECTIVE: equal bytes mean equal algorithm name and equal canonical content,
    so characters moved between adjacent fields, between a key and its value, or
    between a step env entry and an env:: entry always change the payload *)
Theorem ser_injective : forall a b, wf_json a = true -> wf_json b = true -> ser a = ser b -> canon a = canon b.
Proof. exact JcsProofs.ser_injective. Qed.
Theorem payload_injective : forall a vs a' vs', wf_values vs -> wf_values vs' ->
  payload a vs = payload a' vs' -> a = a' /\ canon (JObj vs) = canon (JObj vs').
Proof. exact (SignProofs.payload_injective JcsProofs.ser_injective JcsProofs.canon_obj_lookup JcsProofs.canon_str). Qed.
Theorem canon_obj_lookup : forall l l' k,
  NoDup (map fst l) -> NoDup (map fst l') -> canon (JObj l) = canon (JObj l') ->
  option_map canon (aget k l) = option_map canon (aget k l').
Proof. exact JcsProofs.canon_obj_lookup. Qed.
Theorem esc_injective : forall s s', esc s = esc s' -> s = s'.
Proof. exact JcsProofs.esc_injective. Qed.

(** what is signed: the five mandatory fields from the step (nil and empty env /
    plugins / matrix identified) and one env:: entry per unshadowed pipeline variable;
    the env:: namespace cannot collide with an object field *)
Theorem sign_values_mandatory : forall c repo penv f, In f mandatory_fields ->
  aget f (sign_values c repo penv) = field_value c repo f.
Proof. exact SignProofs.sign_values_mandatory. Qed.
Theorem sign_values_env : forall c repo penv n v, NoDup (map fst penv) ->
  aget n penv = Some v -> ahas n (cs_env c) = false ->
  aget (env_prefix ++ n)%string (sign_values c repo penv) = Some (JStr v).
Proof. exact SignProofs.sign_values_env. Qed.
Theorem sign_values_keys : forall c repo penv f,
  In f (map fst (sign_values c repo penv)) <->
  In f mandatory_fields \/ exists n, f = (env_prefix ++ n)%string /\ ahas n penv = true /\ ahas n (cs_env c) = false.
Proof. exact SignProofs.sign_values_keys. Qed.
Theorem sign_values_nodup : forall c repo penv, NoDup (map fst (sign_values c repo penv)).
Proof. exact SignProofs.sign_values_nodup. Qed.

Print Assumptions payload_order_insensitive.
Print Assumptions ser_canon.
Print Assumptions ser_perm.
Print Assumptions ser_injective.
Print Assumptions payload_injective.
Print Assumptions canon_obj_lookup.
Print Assumptions esc_injective.
Print Assumptions sign_values_mandatory.
Print Assumptions sign_values_env.
Print Assumptions sign_values_keys.
Print Assumptions sign_values_nodup.
