(** C08 — order-significant mappings keep document order through decode and encode. *)
From Coq Require Import String List Bool Arith.
From GP Require Import Model.Gv Model.YamlGraph Model.Pipeline Model.Marshal Proofs.OrderProofs Proofs.MarshalProofs Proofs.YamlGraphProofs Proofs.SmallLaws.
Import ListNotations.
Local Open Scope string_scope.
Local Open Scope list_scope.

(** decoding a mapping: the keys of the result are the yielded keys in first-yield order
    (the pairs a mapping yields list merged pairs where the merge key stands: Model/YamlGraph.range) *)
Theorem oset_fold_keys : forall (ps : list (string * gv)) (acc : list (string * gv)),
  map fst (fold_left (fun m kv => oset (fst kv) (snd kv) m) ps acc)
  = map fst acc ++ first_occ (map fst acc) (map fst ps).
Proof. exact OrderProofs.oset_fold_keys. Qed.
(** pairs from a merge keep their relative order and are never re-ordered around explicit pairs *)
Theorem skip_keys_first : forall keys ps out keys' k v,
  skip_keys keys ps = (out, keys') -> In (k, v) out ->
  exists pre post, ps = pre ++ (k, v) :: post /\ ~ In k (map fst pre).
Proof. exact YamlGraphProofs.skip_keys_first. Qed.

(** the pipeline env block *)
Theorem env_block_parse_order : forall l e w,
  unm_env_block (GMap l) = Ok (Some e) w -> map fst e = map fst l.
Proof. exact OrderProofs.env_block_parse_order. Qed.
Theorem env_block_marshal_order : forall e, map fst (match mj_env_block e with JObj l => l | _ => [] end) = map fst e.
Proof. exact OrderProofs.env_block_marshal_order. Qed.
(** plugins written as one mapping *)
Theorem plugins_of_mapping_order : forall m, map pl_source (plugins_of_map m) = map fst m.
Proof. exact MarshalProofs.plugins_of_mapping_order. Qed.
(** any mapping nested inside unknown fields or unknown steps *)
Theorem nested_mapping_order : forall l, match gv_json (GMap l) with JObj m => map fst m = map fst l | _ => False end.
Proof. exact OrderProofs.nested_mapping_order. Qed.

(** merged keys stand where the merge key stood (example by computation):
    {a: e, <<: *b, z: e} with b = {m1: m, m2: m} *)
Example merge_position_example :
  let sc := fun s => YScalar false (Some s) (Some (GStr s)) in
  let st := [YMap [1; 2; 3; 4; 5; 2]; sc "a"; sc "e"; YScalar true None (Some (GStr "<<")); YAlias 6; sc "z";
             YMap [7; 8; 9; 8]; sc "m1"; sc "m"; sc "m2"] in
  decode_yaml st 0 = DOk (GMap [("a", GStr "e"); ("m1", GStr "m"); ("m2", GStr "m"); ("z", GStr "e")]).
Proof. vm_compute. reflexivity. Qed.

(** two keys of one mapping that canonicalise to the same string are ONE entry: it stands where the first stood and
    holds the value written last *)
Theorem oset_same_key_twice : forall k v1 v2 l, oset k v2 (oset k v1 l) = oset k v2 l.
Proof. exact SmallLaws.oset_same_key_twice. Qed.
Theorem oset_keeps_first_position : forall k v l, In k (map fst l) -> map fst (oset k v l) = map fst l.
Proof. exact SmallLaws.oset_keeps_first_position. Qed.
Theorem oset_new_key_appends : forall k v l, ~ In k (map fst l) -> oset k v l = l ++ [(k, v)].
Proof. exact SmallLaws.oset_new_key_appends. Qed.
Theorem oset_lookup : forall k v l, aget k (oset k v l) = Some v.
Proof. exact SmallLaws.oset_lookup. Qed.

Print Assumptions oset_fold_keys.
Print Assumptions oset_same_key_twice.
Print Assumptions oset_keeps_first_position.
Print Assumptions oset_new_key_appends.
Print Assumptions oset_lookup.
Print Assumptions skip_keys_first.
Print Assumptions env_block_parse_order.
Print Assumptions env_block_marshal_order.
Print Assumptions plugins_of_mapping_order.
Print Assumptions nested_mapping_order.
