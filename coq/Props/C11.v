(** C11 — matrix permutation validation equals the matrix specification. *)
From Coq Require Import String List Bool Arith Permutation.
From GP Require Import Model.Matrix Proofs.MatrixProofs.
Import ListNotations.

(** accepted exactly when: each dimension named once, every adjustment
    well-formed, (a combination of the setup values or equal to an adjustment's
    tuple), and no adjustment with the same tuple is marked skip *)
Theorem validate_ok_iff : forall m p, validate m p = Accept <-> accepts m p.
Proof. exact MatrixProofs.validate_ok_iff. Qed.

Theorem should_skip_spec : forall a,
  should_skip a = true <-> (askip a = SkBool true \/ askip a = SkOther).
Proof. exact MatrixProofs.should_skip_spec. Qed.

(** independent of the order in which Go ranges over the permutation map ... *)
Theorem validate_perm_order : forall m p p', Permutation p p' ->
  (validate m p = Accept <-> validate m p' = Accept).
Proof. exact MatrixProofs.validate_perm_order. Qed.

(** ... and over the setup map *)
Theorem validate_setup_order : forall su su' adjs p,
  NoDup (map fst su) -> Permutation su su' ->
  (validate (Some (mkMatrix su adjs)) p = Accept <-> validate (Some (mkMatrix su' adjs)) p = Accept).
Proof. exact MatrixProofs.validate_setup_order. Qed.

Theorem accepted_dims_exact : forall m p,
  NoDup (map fst p) -> NoDup (map fst (msetup m)) -> validate (Some m) p = Accept ->
  forall d, In d (map fst p) <-> In d (map fst (msetup m)).
Proof. exact MatrixProofs.accepted_dims_exact. Qed.

(** a step without a matrix accepts only the empty permutation *)
Theorem validate_nil_matrix : forall p, validate None p = Accept <-> p = [].
Proof. exact MatrixProofs.validate_nil_matrix. Qed.

Print Assumptions validate_ok_iff.
Print Assumptions should_skip_spec.
Print Assumptions validate_perm_order.
Print Assumptions validate_setup_order.
Print Assumptions accepted_dims_exact.
Print Assumptions validate_nil_matrix.
