(** C18 — only approved asymmetric key/algorithm pairs pass key validation;
    loading returns the requested (or only) key, validated. *)
From Coq Require Import String List Bool.
From GP Require Import Model.Jwk Proofs.JwkProofs.
Import ListNotations.
Local Open Scope string_scope.

(** for every algorithm name and key type (arbitrary strings, not a listed set) *)
Theorem validate_ok_iff : forall k,
  validate k = None <->
  (k_valid k = true /\ k_has_alg k = true /\ k_is_sig k = true /\ approved (k_kty k) (k_alg k)).
Proof. exact JwkProofs.validate_ok_iff. Qed.

Theorem validate_rejects_oct : forall k, k_kty k = "oct" -> validate k <> None.
Proof. exact JwkProofs.validate_rejects_oct. Qed.
Theorem validate_rejects_missing_alg : forall k, k_has_alg k = false -> validate k <> None.
Proof. exact JwkProofs.validate_rejects_missing_alg. Qed.
Theorem validate_rejects_non_signature : forall k, k_is_sig k = false -> validate k <> None.
Proof. exact JwkProofs.validate_rejects_non_signature. Qed.

Theorem load_ok_spec : forall ks id n k,
  load ks id = inl (n, k) ->
  validate k = None /\
  ((id = "" /\ exists kid, ks = [(kid, k)] /\ n = 0) \/
   (id <> "" /\ exists pre post, ks = (pre ++ (id, k) :: post)%list /\ n = length pre /\
                  forall kid' k', In (kid', k') pre -> kid' <> id)).
Proof. exact JwkProofs.load_ok_spec. Qed.

Theorem load_fails_ambiguous : forall ks, length ks <> 1 -> load ks "" = inr LNoKeyID.
Proof. exact JwkProofs.load_fails_ambiguous. Qed.
Theorem load_fails_absent : forall ks id, id <> "" -> (forall k, ~ In (id, k) ks) -> load ks id = inr LNotFound.
Proof. exact JwkProofs.load_fails_absent. Qed.
Theorem load_fails_invalid : forall ks id n k e,
  (id = "" /\ ks = [(fst (hd ("", k) ks), k)] /\ n = 0 \/ id <> "" /\ find_kid id 0 ks = Some (n, k)) ->
  validate k = Some e -> load ks id = inr (LInvalid e).
Proof. exact JwkProofs.load_fails_invalid. Qed.

Example c18_nonvacuous :
  validate (mkKey true true true "EdDSA" "OKP") = None /\
  validate (mkKey true true true "ES256" "EC") = Some EUnsupportedSigningAlg /\
  validate (mkKey true true true "PS512" "EC") = Some EUnsupportedAlgForKeyType.
Proof. repeat split; vm_compute; reflexivity. Qed.

Print Assumptions validate_ok_iff.
Print Assumptions validate_rejects_oct.
Print Assumptions validate_rejects_missing_alg.
Print Assumptions validate_rejects_non_signature.
Print Assumptions load_ok_spec.
Print Assumptions load_fails_ambiguous.
Print Assumptions load_fails_absent.
Print Assumptions load_fails_invalid.
