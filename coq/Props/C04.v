(** C04 — env interpolation reaches every string exactly once, deterministically.
    Parametric in the expansion function (no idempotence assumed, which is what
    makes "exactly once" meaningful). Field scope: Tie/TieScope.v. *)
From Coq Require Import String List Ascii Bool Arith Permutation.
From GP Require Import Model.Gv Model.Pipeline Model.Interp Proofs.InterpProofs Proofs.InterpPipelineProofs.
Import ListNotations.
Local Open Scope string_scope.

Section C04.
  Variable expand : string -> option string.

  (** errors are reported: the walk fails exactly when some visited string fails to expand *)
  Theorem interp_gv_ok_iff : forall g,
    interp_gv expand g <> None <-> (forall s, In s (gv_strings g) -> expand s <> None).
  Proof. exact (InterpProofs.interp_gv_ok_iff expand). Qed.

  (** EXACTLY ONCE: the strings of the result (keys and values, at every depth) are the single
      expansions of the strings of the input, as multisets, when no key of a mapping expands onto
      another key of the same mapping (collisions follow Replace's documented semantics, C05/C10) *)
  Theorem interp_gv_strings : forall g g',
    interp_gv expand g = Some g' -> no_collision expand g ->
    Permutation (gv_strings g') (map (ex expand) (gv_strings g)).
  Proof. exact (InterpProofs.interp_gv_strings expand). Qed.

  (** order-preserving maps keep their order *)
  Theorem interp_gv_omap_order : forall l g',
    interp_gv expand (GMap l) = Some g' ->
    NoDup (map (fun kv => ex expand (fst kv)) l) -> no_capture expand (map fst l) ->
    exists l', g' = GMap l' /\ map fst l' = map (fun kv => ex expand (fst kv)) l.
  Proof. exact (InterpProofs.interp_gv_omap_order expand). Qed.

  (** DETERMINISTIC: independent of the order in which Go ranges over a map (fix of finding F3) *)
  Theorem interp_umap_perm : forall V (fv : V -> option V) l l',
    NoDup (map fst l) -> Permutation l l' -> interp_umap expand fv l = interp_umap expand fv l'.
  Proof. exact (InterpProofs.interp_umap_perm expand). Qed.
  Theorem interp_gv_umap_perm : forall l l',
    NoDup (map fst l) -> Permutation l l' -> interp_gv expand (GUMap l) = interp_gv expand (GUMap l').
  Proof. exact (InterpProofs.interp_gv_umap_perm expand). Qed.

  (** the only exception: signatures are left untouched; nothing else in the structure changes *)
  Theorem interp_command_sig : forall c c', interp_command expand c = Some c' -> cs_sig c' = cs_sig c.
  Proof. exact (InterpProofs.interp_command_sig expand). Qed.
  Theorem interp_command_fields : forall c c', interp_command expand c = Some c' ->
    expand (cs_command c) = Some (cs_command c') /\ expand (cs_label c) = Some (cs_label c') /\
    expand (cs_key c) = Some (cs_key c') /\ length (cs_plugins c') = length (cs_plugins c) /\
    (match cs_matrix c, cs_matrix c' with None, None => True | Some _, Some _ => True | _, _ => False end) /\
    (match cs_cache c, cs_cache c' with
     | None, None => True
     | Some a, Some b => expand (ca_name a) = Some (ca_name b) /\ expand (ca_size a) = Some (ca_size b) /\
                         length (ca_paths b) = length (ca_paths a) /\ ca_disabled b = ca_disabled a
     | _, _ => False end).
  Proof. exact (InterpProofs.interp_command_fields expand). Qed.
  Theorem interp_step_shape : forall s s', interp_step expand s = Some s' -> same_shape s s'.
  Proof. exact (InterpProofs.interp_step_shape expand). Qed.

  (** THE WHOLE PIPELINE.  step_strings / pipeline_rest_strings (Proofs/InterpPipelineProofs.v) list every string
      in scope - keys as well as values, at any depth, in every step kind and in unknown fields: command, label,
      key, plugin sources and configs, env names and values, matrix (dimension names, values, adjustments with
      their `with`, skip and unknown fields), cache (name, paths, size, unknown fields), group key and name, the
      contents of wait / input / trigger steps, unknown steps, unknown fields of every level; NOT the signatures. *)

  (** errors are reported: the call fails exactly when some string in scope fails to expand *)
  Theorem interp_step_ok_iff : forall s,
    interp_step expand s <> None <-> (forall str, In str (step_strings s) -> expand str <> None).
  Proof. exact (InterpPipelineProofs.interp_step_ok_iff expand). Qed.
  Theorem interp_pipeline_rest_ok_iff : forall p,
    interp_pipeline_rest expand p <> None <-> (forall str, In str (pipeline_rest_strings p) -> expand str <> None).
  Proof. exact (InterpPipelineProofs.interp_pipeline_rest_ok_iff expand). Qed.

  (** EXACTLY ONCE, everywhere: the strings of the result are the single expansions of the strings of the input
      (as multisets), when no two keys of one mapping expand onto each other *)
  Theorem interp_step_strings : forall s s',
    interp_step expand s = Some s' -> step_no_collision expand s ->
    Permutation (step_strings s') (map (ex expand) (step_strings s)).
  Proof. exact (InterpPipelineProofs.interp_step_strings expand). Qed.
  Theorem interp_pipeline_rest_strings : forall p p',
    interp_pipeline_rest expand p = Some p' -> pipeline_no_collision expand p ->
    Permutation (pipeline_rest_strings p') (map (ex expand) (pipeline_rest_strings p)).
  Proof. exact (InterpPipelineProofs.interp_pipeline_rest_strings expand). Qed.

  (** the one exception: the signature of every command step, at every depth, is what it was *)
  Theorem interp_step_sigs : forall s s', interp_step expand s = Some s' -> step_sigs s' = step_sigs s.
  Proof. exact (InterpPipelineProofs.interp_step_sigs expand). Qed.
  Theorem interp_pipeline_rest_sigs : forall p p',
    interp_pipeline_rest expand p = Some p' -> pipeline_sigs p' = pipeline_sigs p.
  Proof. exact (InterpPipelineProofs.interp_pipeline_rest_sigs expand). Qed.
End C04.

(** the side condition is needed: two env names that expand onto each other lose an entry *)
Theorem env_collision_counterexample :
  let s := SCommand (mkCmd "" "" "" [] [("$A", "1"); ("a", "2")] None None None []) in
  exists s', interp_step demo_expand s = Some s' /\
             ~ Permutation (step_strings s') (map (ex demo_expand) (step_strings s)).
Proof. exact InterpPipelineProofs.env_collision_counterexample. Qed.

(** the no-capture hypothesis is needed (a rename onto a later entry's name deletes that entry) *)
Theorem omap_capture_counterexample :
  let expand := fun s => if String.eqb s "a" then Some "b" else if String.eqb s "b" then Some "c" else Some s in
  NoDup (map (fun kv : string * gv => ex expand (fst kv)) [("a", GNull); ("b", GNull)]) /\
  interp_gv expand (GMap [("a", GNull); ("b", GNull)]) = Some (GMap [("b", GNull)]).
Proof. exact InterpProofs.omap_capture_counterexample. Qed.

Print Assumptions interp_gv_ok_iff.
Print Assumptions interp_gv_strings.
Print Assumptions interp_gv_omap_order.
Print Assumptions interp_umap_perm.
Print Assumptions interp_gv_umap_perm.
Print Assumptions interp_command_sig.
Print Assumptions interp_command_fields.
Print Assumptions interp_step_shape.
Print Assumptions omap_capture_counterexample.
Print Assumptions interp_step_ok_iff.
Print Assumptions interp_pipeline_rest_ok_iff.
Print Assumptions interp_step_strings.
Print Assumptions interp_pipeline_rest_strings.
Print Assumptions interp_step_sigs.
Print Assumptions interp_pipeline_rest_sigs.
Print Assumptions env_collision_counterexample.
