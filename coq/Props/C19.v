(** C19 — no hidden shared state; observers do not mutate.
    The source-level facts are Tie/TieFrame.v (decided over tables regenerated
    from the code on every run).  Model level: every observer of the models is
    a function of its argument only (there is no state to thread), and the
    operations that do produce new states have explicit frames. *)
From Coq Require Import String List Bool.
From GP Require Import Model.OMap Model.Pipeline Model.Sign Proofs.SignProofs Tie.TieFrame Gen.Frame.
Import ListNotations.
Local Open Scope string_scope.

Theorem no_global_writes : global_writes = [].
Proof. exact TieFrame.tie_no_global_writes. Qed.
Theorem observers_do_not_write :
  forallb (fun o => match writes_of (fst o) (snd o) with [] => true | _ => false end) observers = true.
Proof. exact TieFrame.tie_observers_do_not_write. Qed.

(** signing attaches signatures and changes nothing else *)
Theorem sign_steps_frame : forall (K : Type) (alg_of : K -> string) (sgn : K -> string -> string) k repo penv ss ss',
  sign_steps K alg_of sgn k repo penv ss = Some ss' -> map erase_sig ss' = map erase_sig ss.
Proof. exact SignProofs.sign_steps_frame. Qed.

Print Assumptions no_global_writes.
Print Assumptions observers_do_not_write.
Print Assumptions sign_steps_frame.
