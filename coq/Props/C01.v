(** C01 — any semantic change to signed step content makes verification fail.
    Over an IDEAL signature scheme: cryptographic unforgeability of the JWS
    algorithms is replaced by the two laws below (partial facet, DESIGN §5). *)
From Coq Require Import String List Ascii Bool Arith Permutation.
From GP Require Import Model.Gv Model.Pipeline Model.Marshal Model.Jcs Model.Sign Proofs.JcsProofs Proofs.SignProofs.
From GP Require Glue.G14.
Import ListNotations.
Local Open Scope string_scope.

Section C01.
  Variable K PK : Type.
  Variable pub : K -> PK.
  Variable alg_of : K -> string.
  Variable sgn : K -> string -> string.
  Variable vrf : PK -> string -> string -> bool.
  Hypothesis vrf_ideal : forall pk m s, vrf pk m s = true <-> exists k, pk = pub k /\ s = sgn k m.
  Hypothesis sgn_inj : forall k m k' m', sgn k m = sgn k' m' -> pub k = pub k' /\ m = m'.

  (** Verify rebuilds the payload from the PRESENTED step: success means the value was made,
      by a key with that public half, for exactly the payload the presented data give *)
  Theorem verify_true_inv : forall pk sg c repo penv,
    verify PK vrf pk sg c repo penv = true ->
    exists p k2, verify_payload sg c repo penv = Some p /\ pk = pub k2 /\ sg_value sg = sgn k2 p.
  Proof. exact (SignProofs.verify_true_inv K PK pub sgn vrf vrf_ideal). Qed.

  (** SOUNDNESS: if the value is the one Sign produced, verification succeeds only under the
      matching public key, with the algorithm name unaltered, the same set of signed fields,
      and canonical signed content equal to what was signed *)
  Theorem verify_sound : forall k c repo penv pk sg' c' repo' penv',
    sg_value sg' = sg_value (sign K alg_of sgn k c repo penv) ->
    verify PK vrf pk sg' c' repo' penv' = true ->
    wf_values (sign_values c repo penv) ->
    (forall req, verify_payload sg' c' repo' penv' = Some (payload (sg_alg sg') req) -> NoDup (map fst req) -> wf_values req) ->
    pk = pub k /\ sg_alg sg' = alg_of k /\
    exists fields req, sg_fields sg' = Some fields /\
      verify_payload sg' c' repo' penv' = Some (payload (sg_alg sg') req) /\
      (forall f, In f (map fst req) <-> In f fields) /\
      canon (JObj req) = canon (JObj (sign_values c repo penv)).
  Proof. exact (SignProofs.verify_sound K PK pub alg_of sgn vrf vrf_ideal sgn_inj
                  JcsProofs.ser_injective JcsProofs.canon_obj_lookup JcsProofs.canon_str). Qed.

  (** per mutation class *)
  Theorem verify_sound_command : forall k c repo penv pk sg' c' repo' penv',
    sg_value sg' = sg_value (sign K alg_of sgn k c repo penv) ->
    verify PK vrf pk sg' c' repo' penv' = true ->
    wf_values (sign_values c repo penv) ->
    (forall req, verify_payload sg' c' repo' penv' = Some (payload (sg_alg sg') req) -> NoDup (map fst req) -> wf_values req) ->
    cs_command c' = cs_command c.
  Proof. exact (SignProofs.verify_sound_command K PK pub alg_of sgn vrf vrf_ideal sgn_inj
                  JcsProofs.ser_injective JcsProofs.canon_obj_lookup JcsProofs.canon_str). Qed.
  Theorem verify_sound_repo : forall k c repo penv pk sg' c' repo' penv',
    sg_value sg' = sg_value (sign K alg_of sgn k c repo penv) ->
    verify PK vrf pk sg' c' repo' penv' = true ->
    wf_values (sign_values c repo penv) ->
    (forall req, verify_payload sg' c' repo' penv' = Some (payload (sg_alg sg') req) -> NoDup (map fst req) -> wf_values req) ->
    repo' = repo.
  Proof. exact (SignProofs.verify_sound_repo K PK pub alg_of sgn vrf vrf_ideal sgn_inj
                  JcsProofs.ser_injective JcsProofs.canon_obj_lookup JcsProofs.canon_str). Qed.
  (** env, plugins (canonical sources, configs, ORDER), matrix: equal canonical JSON *)
  Theorem verify_sound_field : forall k c repo penv pk sg' c' repo' penv',
    sg_value sg' = sg_value (sign K alg_of sgn k c repo penv) ->
    verify PK vrf pk sg' c' repo' penv' = true ->
    wf_values (sign_values c repo penv) ->
    (forall req, verify_payload sg' c' repo' penv' = Some (payload (sg_alg sg') req) -> NoDup (map fst req) -> wf_values req) ->
    forall f, In f mandatory_fields ->
      option_map canon (field_value c' repo' f) = option_map canon (field_value c repo f).
  Proof. exact (SignProofs.verify_sound_field K PK pub alg_of sgn vrf vrf_ideal sgn_inj
                  JcsProofs.ser_injective JcsProofs.canon_obj_lookup JcsProofs.canon_str). Qed.
  (** every signed pipeline env variable must be present, unshadowed, with the signed value *)
  Theorem verify_sound_env_var : forall k c repo penv pk sg' c' repo' penv',
    sg_value sg' = sg_value (sign K alg_of sgn k c repo penv) ->
    verify PK vrf pk sg' c' repo' penv' = true ->
    wf_values (sign_values c repo penv) ->
    (forall req, verify_payload sg' c' repo' penv' = Some (payload (sg_alg sg') req) -> NoDup (map fst req) -> wf_values req) ->
    NoDup (map fst penv) -> NoDup (map fst penv') ->
    forall n v, aget n penv = Some v -> ahas n (cs_env c) = false -> aget n penv' = Some v /\ ahas n (cs_env c') = false.
  Proof. exact (SignProofs.verify_sound_env_var K PK pub alg_of sgn vrf vrf_ideal sgn_inj
                  JcsProofs.ser_injective JcsProofs.canon_obj_lookup JcsProofs.canon_str). Qed.
  (** the signed-field list: dropping a mandatory field or a signed env::X, or adding one, fails *)
  Theorem verify_sound_fields : forall k c repo penv pk sg' c' repo' penv',
    sg_value sg' = sg_value (sign K alg_of sgn k c repo penv) ->
    verify PK vrf pk sg' c' repo' penv' = true ->
    wf_values (sign_values c repo penv) ->
    (forall req, verify_payload sg' c' repo' penv' = Some (payload (sg_alg sg') req) -> NoDup (map fst req) -> wf_values req) ->
    forall f, (exists fields, sg_fields sg' = Some fields /\ In f fields) <-> In f (map fst (sign_values c repo penv)).
  Proof. exact (SignProofs.verify_sound_fields K PK pub alg_of sgn vrf vrf_ideal sgn_inj
                  JcsProofs.ser_injective JcsProofs.canon_obj_lookup JcsProofs.canon_str). Qed.
  (** any key other than the signing key *)
  Theorem verify_other_key_fails : forall k c repo penv pk sg' c' repo' penv',
    sg_value sg' = sg_value (sign K alg_of sgn k c repo penv) -> pk <> pub k ->
    verify PK vrf pk sg' c' repo' penv' = false.
  Proof. exact (SignProofs.verify_other_key_fails K PK pub alg_of sgn vrf vrf_ideal sgn_inj). Qed.
  (** and the unaltered signature does verify (extra unrelated env variables allowed) *)
  Theorem sign_then_verify : forall k c repo penv penv',
    NoDup (map fst penv) -> NoDup (map fst penv') ->
    (forall n v, aget n penv = Some v -> aget n penv' = Some v) ->
    verify PK vrf (pub k) (sign K alg_of sgn k c repo penv) c repo penv' = true.
  Proof. exact (SignProofs.sign_then_verify K PK pub alg_of sgn vrf vrf_ideal JcsProofs.ser_perm). Qed.
End C01.

(** the wf premise on the signed step is dischargeable from per-field well-formedness *)

(** the two laws are satisfiable (non-vacuity): a two-key symbolic scheme *)
Definition toy_sgn (k : bool) (p : string) : string := String (if k then "T"%char else "F"%char) p.
Definition toy_vrf (pk : bool) (p s : string) : bool := String.eqb s (toy_sgn pk p).
Theorem ideal_scheme_exists :
  (forall pk m s, toy_vrf pk m s = true <-> exists k, pk = (fun x : bool => x) k /\ s = toy_sgn k m) /\
  (forall k m k' m', toy_sgn k m = toy_sgn k' m' -> (fun x : bool => x) k = (fun x : bool => x) k' /\ m = m').
Proof.
  split.
  - intros pk m s. unfold toy_vrf. rewrite String.eqb_eq. split.
    + intros H. exists pk. split; [reflexivity | exact H].
    + intros [k [H1 H2]]. subst. reflexivity.
  - intros k m k' m' H. unfold toy_sgn in H. inversion H as [[H1 H2]]. split; [|reflexivity].
    destruct k, k'; try reflexivity; discriminate H1.
Qed.

Print Assumptions verify_true_inv.
Print Assumptions verify_sound.
Print Assumptions verify_sound_command.
Print Assumptions verify_sound_repo.
Print Assumptions verify_sound_field.
Print Assumptions verify_sound_env_var.
Print Assumptions verify_sound_fields.
Print Assumptions verify_other_key_fails.
Print Assumptions sign_then_verify.
