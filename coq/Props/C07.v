(** C07 — YAML anchors, aliases and merges resolve per the merge rules; value
    cycles are rejected, merge cycles tolerated, always in bounded time. *)
From Coq Require Import String List Bool Arith Relations.
From GP Require Import Model.Gv Model.YamlGraph Proofs.YamlGraphProofs Proofs.YamlSem.
Import ListNotations.

(** bounded time, no stack exhaustion: for every graph (cyclic or not) the fuel
    the entry points use never runs out *)
Theorem range_total : forall st n, range (S (length st)) st [] n <> RFuel.
Proof. exact YamlGraphProofs.range_total. Qed.
Theorem decode_total : forall st root, decode_yaml st root <> DFuel.
Proof. exact YamlGraphProofs.decode_total. Qed.

Theorem decode_seen : forall f st seen n, In n seen -> decode (S f) st seen n = DErr.
Proof. exact YamlGraphProofs.decode_seen. Qed.
Theorem decode_ok_children : forall f st seen n v,
  decode (S f) st seen n = DOk v ->
  ~ In n seen /\ forall b, vchild st n b -> exists v', decode f st (n :: seen) b = DOk v'.
Proof. exact YamlGraphProofs.decode_ok_children. Qed.
(** a node that reaches itself through value edges never decodes *)
Theorem value_cycle_rejected : forall st f seen n v,
  clos_trans nat (vchild st) n n -> decode f st seen n <> DOk v.
Proof. exact YamlGraphProofs.value_cycle_rejected. Qed.

(** the merge rules at the level of one mapping *)
Theorem skip_keys_spec : forall keys ps out keys',
  skip_keys keys ps = (out, keys') ->
  (forall k v, In (k, v) out -> ~ In k keys) /\
  NoDup (map fst out) /\
  (forall k v, In (k, v) out -> In (k, v) ps) /\
  (forall k, In k (map fst ps) -> ~ In k keys -> In k (map fst out)) /\
  (forall k, In k keys' <-> In k keys \/ In k (map fst out)).
Proof. exact YamlGraphProofs.skip_keys_spec. Qed.
Theorem skip_keys_first : forall keys ps out keys' k v,
  skip_keys keys ps = (out, keys') -> In (k, v) out ->
  exists pre post, ps = pre ++ (k, v) :: post /\ ~ In k (map fst pre).
Proof. exact YamlGraphProofs.skip_keys_first. Qed.
Theorem explicit_keys_spec : forall st content ks,
  explicit_keys st content = Some ks ->
  forall i k v, nth_error content (2 * i) = Some k -> nth_error content (2 * i + 1) = Some v ->
     is_merge_key st k = false -> exists ck, ckey_of st k = Some ck /\ In ck ks.
Proof. exact YamlGraphProofs.explicit_keys_spec. Qed.

(** THE VALUES YAML PRESCRIBES.  [sem] (Proofs/YamlSem.v) is the denotation of a node written from the merge
    specification alone - a mapping's pairs are its own pairs in order with every `<<` entry replaced, where
    it stands, by the pairs of its sources (an alias to a mapping, a mapping, or a sequence of those,
    recursively), explicit keys of the mapping beating merged ones and the first merged occurrence beating
    later ones; aliases denote their target's value; no `merged` set, no key threading through the graph.
    On every graph without a cycle below the root the decoder computes exactly that, errors included. *)
Theorem decode_refines_sem : forall st root, acyclic st root ->
  (forall v, decode_yaml st root = DOk v <-> sem_yaml st root = Some v) /\
  (decode_yaml st root = DErr <-> sem_yaml st root = None).
Proof. exact YamlSem.decode_refines_sem. Qed.
(** the substantive lemma: skipping mapping nodes already merged into the current top-level mapping never
    changes the pairs a mapping yields *)
Theorem merged_shortcut_harmless : forall st n content,
  acyclic st n -> node st n = YMap content ->
  (forall ps, (exists mg, range (S (length st)) st [] n = ROk ps mg) <-> flat_yaml st n = Some ps) /\
  (range (S (length st)) st [] n = RErr <-> flat_yaml st n = None).
Proof. exact YamlSem.merged_shortcut_harmless. Qed.
Theorem sem_fuel_independent : forall st n g, acyclic st n -> S (length st) <= g -> sem g st n = sem_yaml st n.
Proof. exact YamlSem.sem_fuel_independent. Qed.
(** in the property's words, for a mapping with one merge (Section OneMerge of Proofs/YamlSem.v):
    explicit_beats_merged, earlier_source_beats_later, merged_keys_stand_at_merge_position; merge cycles are
    outside [acyclic] and covered by decode_total (merge_cycle_outside_domain shows one decoding fine) *)

Print Assumptions range_total.
Print Assumptions decode_total.
Print Assumptions decode_seen.
Print Assumptions decode_ok_children.
Print Assumptions value_cycle_rejected.
Print Assumptions skip_keys_spec.
Print Assumptions skip_keys_first.
Print Assumptions explicit_keys_spec.
Print Assumptions decode_refines_sem.
Print Assumptions merged_shortcut_harmless.
Print Assumptions sem_fuel_independent.
