(** C07 — YAML anchors, aliases and merges resolve per the merge rules; value
    cycles are rejected, merge cycles tolerated, always in bounded time. *)
From Coq Require Import String List Bool Arith Relations.
From GP Require Import Model.Gv Model.YamlGraph Proofs.YamlGraphProofs.
Import ListNotations.

(** bounded time, no stack exhaustion: for every graph (cyclic or not) the fuel
    the entry points use never runs out *)
Theorem range_total : forall st n, range (S (length st)) st [] n <> RFuel.
Proof. exact YamlGraphProofs.range_total. Qed.
Theorem decode_total : forall st root, decode_yaml st root <> DFuel.
Proof. exact YamlGraphProofs.decode_total. Qed.

Theorem decode_seen : forall f st seen n, In n seen -> decode (S f) st seen n = DErr.
Proof. exact YamlGraphProofs.decode_seen. Qed.
Theorem decode_ok_children : forall f st seen n v,
  decode (S f) st seen n = DOk v ->
  ~ In n seen /\ forall b, vchild st n b -> exists v', decode f st (n :: seen) b = DOk v'.
Proof. exact YamlGraphProofs.decode_ok_children. Qed.
(** a node that reaches itself through value edges never decodes *)
Theorem value_cycle_rejected : forall st f seen n v,
  clos_trans nat (vchild st) n n -> decode f st seen n <> DOk v.
Proof. exact YamlGraphProofs.value_cycle_rejected. Qed.

(** the merge rules at the level of one mapping *)
Theorem skip_keys_spec : forall keys ps out keys',
  skip_keys keys ps = (out, keys') ->
  (forall k v, In (k, v) out -> ~ In k keys) /\
  NoDup (map fst out) /\
  (forall k v, In (k, v) out -> In (k, v) ps) /\
  (forall k, In k (map fst ps) -> ~ In k keys -> In k (map fst out)) /\
  (forall k, In k keys' <-> In k keys \/ In k (map fst out)).
Proof. exact YamlGraphProofs.skip_keys_spec. Qed.
Theorem skip_keys_first : forall keys ps out keys' k v,
  skip_keys keys ps = (out, keys') -> In (k, v) out ->
  exists pre post, ps = pre ++ (k, v) :: post /\ ~ In k (map fst pre).
Proof. exact YamlGraphProofs.skip_keys_first. Qed.
Theorem explicit_keys_spec : forall st content ks,
  explicit_keys st content = Some ks ->
  forall i k v, nth_error content (2 * i) = Some k -> nth_error content (2 * i + 1) = Some v ->
     is_merge_key st k = false -> exists ck, ckey_of st k = Some ck /\ In ck ks.
Proof. exact YamlGraphProofs.explicit_keys_spec. Qed.

Print Assumptions range_total.
Print Assumptions decode_total.
Print Assumptions decode_seen.
Print Assumptions decode_ok_children.
Print Assumptions value_cycle_rejected.
Print Assumptions skip_keys_spec.
Print Assumptions skip_keys_first.
Print Assumptions explicit_keys_spec.
