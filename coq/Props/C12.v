(** C12 — matrix interpolation replaces exactly the permutation's tokens
    (string level: the token scanner; the field scope is Tie/TieScope.v). *)
From Coq Require Import String List Ascii Bool.
From GP Require Import Model.MatrixInterp Proofs.MatrixInterpProofs.
From GP Require Import Model.Gv Model.Pipeline Model.Interp Model.MatrixStep Proofs.MatrixStepProofs.
From GP Require Model.Matrix.
Import ListNotations.
Local Open Scope string_scope.

(** the matcher accepts exactly "{{" ws* "matrix" [ "." dim+ ] ws* "}}" ... *)
Theorem match_token_sound : forall s key n, match_token s = Some (key, n) ->
  exists t rest, s = t ++ rest /\ is_token t key /\ String.length t = n.
Proof. exact MatrixInterpProofs.match_token_sound. Qed.
Theorem match_token_complete : forall t key rest, is_token t key ->
  match_token (t ++ rest) = Some (key, String.length t).
Proof. exact MatrixInterpProofs.match_token_complete. Qed.
(** ... and from one start position there is at most one token *)
Theorem token_unique : forall t key t' key' r r',
  is_token t key -> is_token t' key' -> t ++ r = t' ++ r' -> t = t' /\ key = key'.
Proof. exact MatrixInterpProofs.token_unique. Qed.

(** strings without tokens (near-misses included) are unchanged *)
Theorem transform_token_free : forall repl s, token_free s -> transform repl s = (s, []).
Proof. exact MatrixInterpProofs.transform_token_free. Qed.

(** leftmost, non-overlapping, single pass; replacement text is not rescanned *)
Theorem transform_step : forall repl plain t key rest,
  (forall a b, plain = a ++ b -> b <> "" -> match_token (b ++ t ++ rest) = None) ->
  is_token t key ->
  transform repl (plain ++ t ++ rest) =
    (let (o, u) := transform repl rest in
     match repl key with
     | Some v => (plain ++ v ++ o, u)
     | None => (plain ++ o, key :: u)
     end).
Proof. exact MatrixInterpProofs.transform_step. Qed.

(** a token naming a dimension the permutation lacks makes the call fail *)
Theorem transform_unknown_fails : forall repl plain t key rest,
  (forall a b, plain = a ++ b -> b <> "" -> match_token (b ++ t ++ rest) = None) ->
  is_token t key -> repl key = None ->
  transform_result repl (plain ++ t ++ rest) = None.
Proof. exact MatrixInterpProofs.transform_unknown_fails. Qed.

Theorem transform_result_spec : forall repl s,
  transform_result repl s = (match snd (transform repl s) with [] => Some (fst (transform repl s)) | _ => None end).
Proof. exact MatrixInterpProofs.transform_result_spec. Qed.

Theorem repl_of_perm_anon : forall p, repl_of_perm p "" = Matrix.assoc "" p.
Proof. exact MatrixInterpProofs.repl_of_perm_anon. Qed.
Theorem repl_of_perm_dim : forall p d, d <> "" -> repl_of_perm p (String "."%char d) = Matrix.assoc d p.
Proof. exact MatrixInterpProofs.repl_of_perm_dim. Qed.

(** STEP LEVEL.  After a valid permutation is applied only command, label, plugins, env VALUES and
    unknown fields can differ: the step key, env names, the matrix definition, the cache and the
    signature are unchanged *)
Theorem accepted_step_frame : forall c p c',
  interpolate_matrix_permutation c p = MOk c' ->
  cs_key c' = cs_key c /\ cs_sig c' = cs_sig c /\ cs_matrix c' = cs_matrix c /\ cs_cache c' = cs_cache c /\
  map fst (cs_env c') = map fst (cs_env c).
Proof. exact MatrixStepProofs.accepted_step_frame. Qed.
(** an empty permutation changes nothing *)
Theorem empty_permutation_identity : forall c,
  Matrix.validate (option_map to_vmatrix (cs_matrix c)) [] = Matrix.Accept ->
  interpolate_matrix_permutation c [] = MOk c.
Proof. exact MatrixStepProofs.empty_permutation_identity. Qed.
(** a rejected permutation never produces a (modified) step (C11) *)
Theorem rejected_yields_no_step : forall c p,
  Matrix.validate (option_map to_vmatrix (cs_matrix c)) p <> Matrix.Accept ->
  interpolate_matrix_permutation c p = MRejected.
Proof. exact MatrixStepProofs.rejected_yields_no_step. Qed.

Print Assumptions accepted_step_frame.
Print Assumptions empty_permutation_identity.
Print Assumptions rejected_yields_no_step.
Print Assumptions match_token_sound.
Print Assumptions match_token_complete.
Print Assumptions token_unique.
Print Assumptions transform_token_free.
Print Assumptions transform_step.
Print Assumptions transform_unknown_fails.
Print Assumptions transform_result_spec.
Print Assumptions repl_of_perm_anon.
Print Assumptions repl_of_perm_dim.
