(** C12 — matrix interpolation replaces exactly the permutation's tokens
    (string level: the token scanner; the field scope is Tie/TieScope.v). *)
From Coq Require Import String List Ascii Bool.
From GP Require Import Model.MatrixInterp Proofs.MatrixInterpProofs.
From GP Require Import Model.Gv Model.Pipeline Model.Interp Model.MatrixStep Proofs.MatrixStepProofs Proofs.MatrixStepContent.
From GP Require Model.Matrix.
Import ListNotations.
Local Open Scope string_scope.

(** the matcher accepts exactly "{{" ws* "matrix" [ "." dim+ ] ws* "}}" ... *)
Theorem match_token_sound : forall s key n, match_token s = Some (key, n) ->
  exists t rest, s = t ++ rest /\ is_token t key /\ String.length t = n.
Proof. exact MatrixInterpProofs.match_token_sound. Qed.
Theorem match_token_complete : forall t key rest, is_token t key ->
  match_token (t ++ rest) = Some (key, String.length t).
Proof. exact MatrixInterpProofs.match_token_complete. Qed.
(** ... and from one start position there is at most one token *)
Theorem token_unique : forall t key t' key' r r',
  is_token t key -> is_token t' key' -> t ++ r = t' ++ r' -> t = t' /\ key = key'.
Proof. exact MatrixInterpProofs.token_unique. Qed.

(** strings without tokens (near-misses included) are unchanged *)
Theorem transform_token_free : forall repl s, token_free s -> transform repl s = (s, []).
Proof. exact MatrixInterpProofs.transform_token_free. Qed.

(** leftmost, non-overlapping, single pass; replacement text is not rescanned *)
Theorem transform_step : forall repl plain t key rest,
  (forall a b, plain = a ++ b -> b <> "" -> match_token (b ++ t ++ rest) = None) ->
  is_token t key ->
  transform repl (plain ++ t ++ rest) =
    (let (o, u) := transform repl rest in
     match repl key with
     | Some v => (plain ++ v ++ o, u)
     | None => (plain ++ o, key :: u)
     end).
Proof. exact MatrixInterpProofs.transform_step. Qed.

(** a token naming a dimension the permutation lacks makes the call fail *)
Theorem transform_unknown_fails : forall repl plain t key rest,
  (forall a b, plain = a ++ b -> b <> "" -> match_token (b ++ t ++ rest) = None) ->
  is_token t key -> repl key = None ->
  transform_result repl (plain ++ t ++ rest) = None.
Proof. exact MatrixInterpProofs.transform_unknown_fails. Qed.

Theorem transform_result_spec : forall repl s,
  transform_result repl s = (match snd (transform repl s) with [] => Some (fst (transform repl s)) | _ => None end).
Proof. exact MatrixInterpProofs.transform_result_spec. Qed.

Theorem repl_of_perm_anon : forall p, repl_of_perm p "" = Matrix.assoc "" p.
Proof. exact MatrixInterpProofs.repl_of_perm_anon. Qed.
Theorem repl_of_perm_dim : forall p d, d <> "" -> repl_of_perm p (String "."%char d) = Matrix.assoc d p.
Proof. exact MatrixInterpProofs.repl_of_perm_dim. Qed.

(** STEP LEVEL.  After a valid permutation is applied only command, label, plugins, env VALUES and
    unknown fields can differ: the step key, env names, the matrix definition, the cache and the
    signature are unchanged *)
Theorem accepted_step_frame : forall c p c',
  interpolate_matrix_permutation c p = MOk c' ->
  cs_key c' = cs_key c /\ cs_sig c' = cs_sig c /\ cs_matrix c' = cs_matrix c /\ cs_cache c' = cs_cache c /\
  map fst (cs_env c') = map fst (cs_env c).
Proof. exact MatrixStepProofs.accepted_step_frame. Qed.
(** an empty permutation changes nothing *)
Theorem empty_permutation_identity : forall c,
  Matrix.validate (option_map to_vmatrix (cs_matrix c)) [] = Matrix.Accept ->
  interpolate_matrix_permutation c [] = MOk c.
Proof. exact MatrixStepProofs.empty_permutation_identity. Qed.
(** a rejected permutation never produces a (modified) step (C11) *)
Theorem rejected_yields_no_step : forall c p,
  Matrix.validate (option_map to_vmatrix (cs_matrix c)) p <> Matrix.Accept ->
  interpolate_matrix_permutation c p = MRejected.
Proof. exact MatrixStepProofs.rejected_yields_no_step. Qed.

(** STEP LEVEL, CONTENT.  With T the single-pass replacement of the permutation, every in-scope field of the
    result is the image under T of the field it came from: command, label, plugin sources, every string and
    every mapping key inside plugin configs, env VALUES (names and order untouched), unknown fields (keys and
    values; [map_gv] / [map_rem] are the closed forms of the model's walkers, renames included) *)
Theorem accepted_step_content : forall c p c',
  interpolate_matrix_permutation c p = MOk c' -> p <> [] ->
  cs_command c' = T p (cs_command c) /\
  cs_label c' = T p (cs_label c) /\
  map pl_source (cs_plugins c') = map (fun pl => T p (pl_source pl)) (cs_plugins c) /\
  map pl_config (cs_plugins c') = map (fun pl => map_gv (T p) (pl_config pl)) (cs_plugins c) /\
  Forall2 (fun pl pl' => interp_gv (total (T p)) (pl_config pl) = Some (pl_config pl')) (cs_plugins c) (cs_plugins c') /\
  cs_env c' = map (fun kv => (fst kv, T p (snd kv))) (cs_env c) /\
  map fst (cs_env c') = map fst (cs_env c) /\
  map snd (cs_env c') = map (fun kv => T p (snd kv)) (cs_env c) /\
  cs_rem c' = map_rem (T p) (cs_rem c) /\
  interp_rem (total (T p)) (cs_rem c) = Some (cs_rem c') /\
  cs_key c' = cs_key c /\ cs_matrix c' = cs_matrix c /\ cs_sig c' = cs_sig c /\ cs_cache c' = cs_cache c.
Proof. exact MatrixStepContent.accepted_step_content. Qed.
(** no token is left: when the values carry no `{{` and do not end in `{`, and every `{{` of the in-scope
    strings opens a token, the result contains no `{{` at all.  Both hypotheses are needed because the single
    pass does not rescan: replacement text can join its surroundings into a new token
    (MatrixStepContent.accepted_step_token_free_counterexample, ..._counterexample_value) *)
Theorem accepted_step_token_free : forall c p c',
  interpolate_matrix_permutation c p = MOk c' -> p <> [] ->
  open_free_perm p ->
  (forall s, In s (in_scope_strings c) -> opens_are_tokens s) ->
  forall s', In s' (in_scope_strings c') ->
    has_oo s' = false /\ token_free s' /\ ~ has_known_token p s' /\ (forall Q, ~ contains_token Q s').
Proof. exact MatrixStepContent.accepted_step_token_free. Qed.
(** the call fails exactly when some in-scope string carries a token of a dimension the permutation lacks *)
Theorem unknown_token_fails_iff : forall c p,
  p <> [] -> Matrix.validate (option_map to_vmatrix (cs_matrix c)) p = Matrix.Accept ->
  (interpolate_matrix_permutation c p = MUnknownToken <->
   exists s, In s (in_scope_strings c) /\ has_unknown_token p s).
Proof. exact MatrixStepContent.unknown_token_fails_iff. Qed.
Theorem result_trichotomy : forall c p,
  let R := interpolate_matrix_permutation c p in
  let V := Matrix.validate (option_map to_vmatrix (cs_matrix c)) p in
  let U := exists s, In s (in_scope_strings c) /\ has_unknown_token p s in
  (R = MRejected <-> V <> Matrix.Accept) /\
  (R = MUnknownToken <-> V = Matrix.Accept /\ p <> [] /\ U) /\
  ((exists c', R = MOk c') <-> V = Matrix.Accept /\ (p = [] \/ ~ U)) /\
  (R = MRejected \/ R = MUnknownToken \/ exists c', R = MOk c') /\
  ~ (R = MRejected /\ R = MUnknownToken) /\
  ~ (R = MRejected /\ exists c', R = MOk c') /\
  ~ (R = MUnknownToken /\ exists c', R = MOk c').
Proof. exact MatrixStepContent.result_trichotomy. Qed.

Print Assumptions accepted_step_frame.
Print Assumptions empty_permutation_identity.
Print Assumptions rejected_yields_no_step.
Print Assumptions match_token_sound.
Print Assumptions match_token_complete.
Print Assumptions token_unique.
Print Assumptions transform_token_free.
Print Assumptions transform_step.
Print Assumptions transform_unknown_fails.
Print Assumptions transform_result_spec.
Print Assumptions repl_of_perm_anon.
Print Assumptions repl_of_perm_dim.
Print Assumptions accepted_step_content.
Print Assumptions accepted_step_token_free.
Print Assumptions unknown_token_fails_iff.
Print Assumptions result_trichotomy.
