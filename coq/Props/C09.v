(** C09 — the normal form is a fixpoint, the same via JSON and YAML, and deterministic. *)
From Coq Require Import String List Ascii Bool Arith ZArith Permutation.
From GP Require Import Base.Sexp Model.Gv Model.Pipeline Model.Marshal Model.Reparse Model.MarshalYaml
     Proofs.MarshalProofs Proofs.DeterminismProofs Proofs.ReparseProofs Proofs.YamlLegProofs.
Import ListNotations.
Local Open Scope string_scope.

(** DETERMINISTIC: marshalling is a function of the content; the order in which Go ranges over the
    inline map / builds the field map is irrelevant *)
Theorem inline_friendly_deterministic : forall outline outline' inline inline',
  NoDup (map fst outline) -> NoDup (map fst inline) ->
  Permutation outline outline' -> Permutation inline inline' ->
  inline_friendly outline inline = inline_friendly outline' inline'.
Proof. exact DeterminismProofs.inline_friendly_deterministic. Qed.

(** FIXPOINT, by computation on a document exercising every shorthand *)
Example reparse_fixpoint_example :
  let g := GMap [("env", GMap [("B", GInt 1%Z); ("A", GStr "x")]);
                 ("steps", GSeq [GMap [("commands", GSeq [GStr "a"; GStr "b"]); ("name", GStr "N"); ("id", GStr "k");
                                       ("plugins", GMap [("docker#v1", GMap [("z", GInt 1%Z); ("a", GBool true)])]);
                                       ("matrix", GMap [("adjustments", GSeq [GMap [("with", GStr "x"); ("skip", GBool true)]])]);
                                       ("cache", GStr "p"); ("zzz", GSeq [GNull])];
                                 GStr "wait"; GMap [("block", GStr "ok?")];
                                 GMap [("group", GNull); ("steps", GSeq [GStr "frob"])]])] in
  match parse_doc g with
  | Ok p _ => match reparse_json p with
              | Ok p2 _ => sexp_eqb (json_sexp (mj_pipeline p2)) (json_sexp (mj_pipeline p))
              | Err => false end
  | Err => false
  end = true.
Proof. vm_compute. reflexivity. Qed.

(** the excluded class (known finding F17): an empty key / label with a surviving alias *)
Example empty_primary_alias_refuted :
  let g := GSeq [GMap [("command", GStr "x"); ("key", GStr ""); ("id", GStr "promoted")]] in
  match parse_doc g with
  | Ok p _ => match reparse_json p with
              | Ok p2 _ => negb (sexp_eqb (json_sexp (mj_pipeline p2)) (json_sexp (mj_pipeline p)))
              | Err => false end
  | Err => false
  end = true.
Proof. vm_compute. reflexivity. Qed.

(** FIXPOINT (JSON leg), for every pipeline satisfying the structural side condition ... *)
Theorem reparse_fixpoint : forall p, pipeline_fix_ok p ->
  exists p' w', reparse_json p = Ok p' w' /\ mj_pipeline p' = mj_pipeline p.
Proof. exact ReparseProofs.reparse_fixpoint. Qed.
(** ... which every pipeline PARSED from a document with distinct keys and re-readable number tokens
    satisfies, outside three explicit classes: an empty key / label next to a surviving alias (F17),
    plugin sources on which canonicalisation is not idempotent (outside C17's domain), and typed steps
    that fell back to unknown although their own mapping would select a known kind (malformed input) *)
Theorem parse_result_fix_ok : forall g p w,
  parse_doc g = Ok p w -> doc_ok g ->
  no_empty_primary_with_alias p -> plugin_sources_canonical p -> no_fallback_unknown p ->
  pipeline_fix_ok p.
Proof. exact ReparseProofs.parse_result_fix_ok. Qed.
(** parse, marshal, re-parse, marshal: the second marshalling equals the first (idempotent normal form) *)
Theorem parse_marshal_reparse : forall g p w,
  parse_doc g = Ok p w -> doc_ok g ->
  no_empty_primary_with_alias p -> plugin_sources_canonical p -> no_fallback_unknown p ->
  exists p' w', reparse_json p = Ok p' w' /\ mj_pipeline p' = mj_pipeline p.
Proof. exact ReparseProofs.parse_marshal_reparse. Qed.

(** FIXPOINT (YAML leg): Parse(yaml.Marshal(p)) marshals like p. [yaml_side_ok] collects what the YAML
    leg needs beyond the JSON leg: coherent float tokens in free-form values, and three nil-versus-empty
    classes in which yaml.v3 and encoding/json spell "nothing" differently (a signature without
    signed_fields: null / []; an empty top-level env: {} / omitted; an empty Go map as skip) - each kept
    as a counterexample by computation in Proofs/YamlLegProofs.v; the harness oracle identifies nil and
    empty at exactly those positions *)
Theorem reparse_yaml_fixpoint : forall p, pipeline_fix_ok p -> yaml_side_ok p ->
  exists p' w', reparse_yaml p = Ok p' w' /\ mj_pipeline p' = mj_pipeline p.
Proof. exact YamlLegProofs.reparse_yaml_fixpoint. Qed.
(** BOTH FORMATS CARRY THE SAME DATA: the two re-parses marshal identically *)
Theorem yaml_json_legs_agree : forall p, pipeline_fix_ok p -> yaml_side_ok p ->
  exists pj wj py wy, reparse_json p = Ok pj wj /\ reparse_yaml p = Ok py wy /\ mj_pipeline py = mj_pipeline pj.
Proof. exact YamlLegProofs.yaml_json_legs_agree. Qed.
(** ... for everything Parse returns (outside the named classes), and the YAML encoder does not panic there *)
Theorem parse_marshal_reparse_yaml : forall g p w,
  parse_doc g = Ok p w -> doc_ok g ->
  no_empty_primary_with_alias p -> plugin_sources_canonical p -> no_fallback_unknown p ->
  float_tokens_coherent g -> signatures_list_fields p -> env_not_empty p ->
  exists pj wj py wy, reparse_json p = Ok pj wj /\ reparse_yaml p = Ok py wy /\
                      mj_pipeline py = mj_pipeline p /\ mj_pipeline pj = mj_pipeline p.
Proof. exact YamlLegProofs.parse_marshal_reparse_yaml. Qed.
Theorem fix_ok_marshals_yaml : forall p, pipeline_fix_ok p -> yaml_side_ok p ->
  marshal_yaml p = Some (my_pipeline p).
Proof. exact YamlLegProofs.fix_ok_marshals_yaml. Qed.

(** every Marshal shape is accepted by the matching UnmarshalOrdered (the stand-alone decoders included) *)
Theorem sig_roundtrip : forall s, unm_sig (gv_of_json (mj_sig s)) = Ok (Some s) 0.
Proof. exact ReparseProofs.sig_roundtrip. Qed.
Theorem cache_roundtrip : forall c, cache_fix_ok c ->
  exists c', unm_cache (gv_of_json (mj_cache c)) = Ok (Some c') 0 /\ mj_cache c' = mj_cache c.
Proof. exact ReparseProofs.cache_roundtrip. Qed.
Theorem matrix_roundtrip : forall m, matrix_fix_ok m ->
  exists m', unm_matrix (gv_of_json (mj_matrix m)) = Ok (Some m') 0 /\ mj_matrix m' = mj_matrix m.
Proof. exact ReparseProofs.matrix_roundtrip. Qed.
Theorem plugins_roundtrip : forall ps, Forall plugin_fix_ok ps ->
  exists ps', unm_plugins (gv_of_json (JArr (map mj_plugin ps))) = Ok ps' 0 /\ map mj_plugin ps' = map mj_plugin ps.
Proof. exact ReparseProofs.plugins_roundtrip. Qed.
Theorem command_roundtrip : forall c, cmd_ok c ->
  exists c', unm_command (gmap (members (mj_command c))) = Ok c' 0 /\ mj_command c' = mj_command c.
Proof. exact ReparseProofs.command_roundtrip. Qed.
Theorem step_roundtrip : forall s, step_fix_ok s ->
  forall f, gv_depth (gv_of_json (mj_step s)) <= f ->
  exists s' w, unm_step f (gv_of_json (mj_step s)) = Ok s' w /\ mj_step s' = mj_step s.
Proof. exact ReparseProofs.step_roundtrip. Qed.
(** free-form values re-read to themselves when their number tokens do *)
Theorem gv_json_of_json : forall j, json_stable j -> gv_json (gv_of_json j) = j.
Proof. exact ReparseProofs.gv_json_of_json. Qed.

(** the hypotheses are satisfiable and each is needed: see Proofs/ReparseProofs.v demo_ok, demo_fixpoint,
    empty_primary_alias_counterexample, unstable_number_counterexample, plugin_source_counterexample,
    fallback_unknown_counterexample (all by vm_compute) *)

Print Assumptions inline_friendly_deterministic.
Print Assumptions reparse_fixpoint.
Print Assumptions parse_result_fix_ok.
Print Assumptions parse_marshal_reparse.
Print Assumptions sig_roundtrip.
Print Assumptions cache_roundtrip.
Print Assumptions matrix_roundtrip.
Print Assumptions plugins_roundtrip.
Print Assumptions command_roundtrip.
Print Assumptions step_roundtrip.
Print Assumptions gv_json_of_json.
Print Assumptions reparse_yaml_fixpoint.
Print Assumptions yaml_json_legs_agree.
Print Assumptions parse_marshal_reparse_yaml.
Print Assumptions fix_ok_marshals_yaml.
