(** C09 — the normal form is a fixpoint, the same via JSON and YAML, and deterministic. *)
From Coq Require Import String List Ascii Bool Arith ZArith Permutation.
From GP Require Import Base.Sexp Model.Gv Model.Pipeline Model.Marshal Model.Reparse
     Proofs.MarshalProofs Proofs.DeterminismProofs.
Import ListNotations.
Local Open Scope string_scope.

(** DETERMINISTIC: marshalling is a function of the content; the order in which Go ranges over the
    inline map / builds the field map is irrelevant *)
Theorem inline_friendly_deterministic : forall outline outline' inline inline',
  NoDup (map fst outline) -> NoDup (map fst inline) ->
  Permutation outline outline' -> Permutation inline inline' ->
  inline_friendly outline inline = inline_friendly outline' inline'.
Proof. exact DeterminismProofs.inline_friendly_deterministic. Qed.

(** FIXPOINT, by computation on a document exercising every shorthand *)
Example reparse_fixpoint_example :
  let g := GMap [("env", GMap [("B", GInt 1%Z); ("A", GStr "x")]);
                 ("steps", GSeq [GMap [("commands", GSeq [GStr "a"; GStr "b"]); ("name", GStr "N"); ("id", GStr "k");
                                       ("plugins", GMap [("docker#v1", GMap [("z", GInt 1%Z); ("a", GBool true)])]);
                                       ("matrix", GMap [("adjustments", GSeq [GMap [("with", GStr "x"); ("skip", GBool true)]])]);
                                       ("cache", GStr "p"); ("zzz", GSeq [GNull])];
                                 GStr "wait"; GMap [("block", GStr "ok?")];
                                 GMap [("group", GNull); ("steps", GSeq [GStr "frob"])]])] in
  match parse_doc g with
  | Ok p _ => match reparse_json p with
              | Ok p2 _ => sexp_eqb (json_sexp (mj_pipeline p2)) (json_sexp (mj_pipeline p))
              | Err => false end
  | Err => false
  end = true.
Proof. vm_compute. reflexivity. Qed.

(** the excluded class (known finding F17): an empty key / label with a surviving alias *)
Example empty_primary_alias_refuted :
  let g := GSeq [GMap [("command", GStr "x"); ("key", GStr ""); ("id", GStr "promoted")]] in
  match parse_doc g with
  | Ok p _ => match reparse_json p with
              | Ok p2 _ => negb (sexp_eqb (json_sexp (mj_pipeline p2)) (json_sexp (mj_pipeline p)))
              | Err => false end
  | Err => false
  end = true.
Proof. vm_compute. reflexivity. Qed.

Print Assumptions inline_friendly_deterministic.
