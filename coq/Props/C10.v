(** C10 — pipeline env block: definition order, runtime precedence, export to
    the caller.  Parametric in the expansion function (the interpolate library)
    and in the caller's environment with its own name equality. *)
From Coq Require Import String List Bool Arith.
From GP Require Import Model.Gv Model.OMap Model.EnvBlock Proofs.OMapProofs Proofs.EnvBlockProofs Proofs.MarshalProofs.
From GP Require Glue.G10.
Import ListNotations.

Section C10.
  Variable E : Type.
  Variable eget : E -> string -> option string.
  Variable eset : E -> string -> string -> E.
  Variable expand : E -> string -> option string.

  (** the concrete loop (Range over the slot slice + in-place Replace) IS the
      top-to-bottom list fold: same block, same environment, same error verdict *)
  Theorem env_block_refines : forall prefer m e, Inv string m ->
    match run_block eget eset expand prefer m e, spec_block eget eset expand prefer (abs m) e with
    | Some (m', e'), Some (l', e'') => Inv string m' /\ abs m' = l' /\ e' = e''
    | None, None => True
    | _, _ => False
    end.
  Proof. exact (EnvBlockProofs.env_block_refines E eget eset expand). Qed.

  (** each entry is expanded with the environment left by the entries before it *)
  Theorem spec_block_cons : forall prefer k v rest e,
    spec_block eget eset expand prefer ((k, v) :: rest) e =
    match visit eget eset expand prefer e k v with
    | Some (k', v', e') => spec_loop eget eset expand prefer (length rest) [(k', v')] (p_remove k' rest) e'
    | None => None
    end.
  Proof. exact (EnvBlockProofs.spec_block_cons E eget eset expand). Qed.

  (** whatever the flag, the block records the pipeline's expansion *)
  Theorem visit_records : forall prefer e k v k' v' e',
    visit eget eset expand prefer e k v = Some (k', v', e') ->
    expand e k = Some k' /\ expand e v = Some v'.
  Proof. exact (EnvBlockProofs.visit_records E eget eset expand). Qed.

  Variable norm : string -> string.
  Hypothesis get_norm : forall e a b, norm a = norm b -> eget e a = eget e b.
  Hypothesis get_set : forall e k v x,
    eget (eset e k v) x = if String.eqb (norm k) (norm x) then Some v else eget e x.

  (** write-back *)
  Theorem visit_writes_back : forall e k v k' v' e',
    visit eget eset expand false e k v = Some (k', v', e') -> eget e' k' = Some v'.
  Proof. exact (EnvBlockProofs.visit_writes_back E eget eset expand norm get_set). Qed.
  (** runtime precedence *)
  Theorem prefer_runtime_keeps : forall l e l' e' x v0,
    spec_block eget eset expand true l e = Some (l', e') ->
    eget e x = Some v0 -> eget e' x = Some v0.
  Proof. exact (EnvBlockProofs.prefer_runtime_keeps E eget eset expand norm get_norm get_set). Qed.
  Theorem prefer_runtime_step : forall e k v k' v' e',
    visit eget eset expand true e k v = Some (k', v', e') ->
    (eget e k' = None -> eget e' k' = Some v') /\ (forall v0, eget e k' = Some v0 -> e' = e).
  Proof. exact (EnvBlockProofs.prefer_runtime_step E eget eset expand norm get_set). Qed.
  Theorem block_names_defined : forall prefer l e l' e' k' v',
    spec_block eget eset expand prefer l e = Some (l', e') -> In (k', v') l' -> eget e' k' <> None.
  Proof. exact (EnvBlockProofs.block_names_defined E eget eset expand norm get_set). Qed.
End C10.

(** the environment laws are satisfiable: the case-sensitive and the
    case-insensitive environments used by the correspondence satisfy them *)
Theorem env_laws_instance : forall ci : bool,
  (forall e a b, G10.norm ci a = G10.norm ci b -> G10.eget ci e a = G10.eget ci e b) /\
  (forall e k v x, G10.eget ci (G10.eset ci e k v) x =
                   if String.eqb (G10.norm ci k) (G10.norm ci x) then Some v else G10.eget ci e x).
Proof.
  intros ci. split.
  - intros e a b H. unfold G10.eget. rewrite H. reflexivity.
  - intros e k v x. unfold G10.eget, G10.eset. rewrite MarshalProofs.aget_aset.
    rewrite String.eqb_sym. reflexivity.
Qed.

Print Assumptions env_block_refines.
Print Assumptions spec_block_cons.
Print Assumptions visit_records.
Print Assumptions visit_writes_back.
Print Assumptions prefer_runtime_keeps.
Print Assumptions prefer_runtime_step.
Print Assumptions block_names_defined.
Print Assumptions env_laws_instance.
