From Coq Require Extraction.
From Coq Require Import ExtrOcamlBasic.
From GP Require Import Base.Sexp Glue.Dispatch.
Extraction Language OCaml.
Extraction "model.ml" dispatch.
