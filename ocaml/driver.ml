(* Generic driver: reads lines PROP<TAB>CASE-SEXP<TAB>IMPL-OBS-SEXP, runs the
   extracted model (Model.dispatch) on CASE, compares the model observation to
   IMPL-OBS and prints one line per case: OK, or
   MISMATCH<TAB>lineno<TAB>prop<TAB>model-observation.
   Atoms are double-quoted with backslash escapes for quote, backslash, n, t, r
   and xHH for other non-printable bytes. *)
module M = Model

let coq_of_char (c : char) : M.ascii =
  let n = Char.code c in
  let b i = (n lsr i) land 1 = 1 in
  M.Ascii (b 0, b 1, b 2, b 3, b 4, b 5, b 6, b 7)

let char_of_coq (a : M.ascii) : char =
  match a with
  | M.Ascii (b0, b1, b2, b3, b4, b5, b6, b7) ->
    let v b i = if b then 1 lsl i else 0 in
    Char.chr (v b0 0 + v b1 1 + v b2 2 + v b3 3 + v b4 4 + v b5 5 + v b6 6 + v b7 7)

let coq_of_string (s : Stdlib.String.t) : M.string =
  let r = ref M.EmptyString in
  for i = String.length s - 1 downto 0 do r := M.String (coq_of_char s.[i], !r) done;
  !r

let string_of_coq (s : M.string) : Stdlib.String.t =
  let b = Buffer.create 16 in
  let rec go = function
    | M.EmptyString -> ()
    | M.String (a, r) -> Buffer.add_char b (char_of_coq a); go r in
  go s; Buffer.contents b

exception Parse_error of Stdlib.String.t

let parse (s : Stdlib.String.t) : M.sexp =
  let n = String.length s in
  let pos = ref 0 in
  let rec skip () = if !pos < n && s.[!pos] = ' ' then (incr pos; skip ()) in
  let hex c = match c with
    | '0'..'9' -> Char.code c - 48
    | 'a'..'f' -> Char.code c - 87
    | 'A'..'F' -> Char.code c - 55
    | _ -> raise (Parse_error "hex") in
  let rec item () : M.sexp =
    skip ();
    if !pos >= n then raise (Parse_error "eof");
    match s.[!pos] with
    | '(' ->
      incr pos;
      let acc = ref [] in
      let rec loop () =
        skip ();
        if !pos >= n then raise (Parse_error "eof in list");
        if s.[!pos] = ')' then incr pos
        else (acc := item () :: !acc; loop ()) in
      loop (); M.L (List.rev !acc)
    | '"' ->
      incr pos;
      let b = Buffer.create 16 in
      let rec loop () =
        if !pos >= n then raise (Parse_error "eof in atom");
        match s.[!pos] with
        | '"' -> incr pos
        | '\\' ->
          (match s.[!pos + 1] with
           | 'n' -> Buffer.add_char b '\n'; pos := !pos + 2
           | 't' -> Buffer.add_char b '\t'; pos := !pos + 2
           | 'r' -> Buffer.add_char b '\r'; pos := !pos + 2
           | 'x' -> Buffer.add_char b (Char.chr (hex s.[!pos + 2] * 16 + hex s.[!pos + 3])); pos := !pos + 4
           | c -> Buffer.add_char b c; pos := !pos + 2);
          loop ()
        | c -> Buffer.add_char b c; incr pos; loop () in
      loop (); M.A (coq_of_string (Buffer.contents b))
    | _ -> raise (Parse_error (Printf.sprintf "unexpected char at %d" !pos)) in
  item ()

let print_atom (b : Buffer.t) (s : Stdlib.String.t) =
  Buffer.add_char b '"';
  String.iter (fun c ->
      match c with
      | '"' -> Buffer.add_string b "\\\""
      | '\\' -> Buffer.add_string b "\\\\"
      | '\n' -> Buffer.add_string b "\\n"
      | '\t' -> Buffer.add_string b "\\t"
      | '\r' -> Buffer.add_string b "\\r"
      | c when Char.code c < 32 || Char.code c >= 127 ->
        Buffer.add_string b (Printf.sprintf "\\x%02x" (Char.code c))
      | c -> Buffer.add_char b c) s;
  Buffer.add_char b '"'

let rec print (b : Buffer.t) (x : M.sexp) =
  match x with
  | M.A s -> print_atom b (string_of_coq s)
  | M.L l ->
    Buffer.add_char b '(';
    List.iteri (fun i y -> if i > 0 then Buffer.add_char b ' '; print b y) l;
    Buffer.add_char b ')'

let to_string x = let b = Buffer.create 256 in print b x; Buffer.contents b

let () =
  let lineno = ref 0 in
  let mism = ref 0 in
  let echo = Array.length Sys.argv > 1 && Sys.argv.(1) = "--echo" in
  (try
     while true do
       let line = input_line stdin in
       incr lineno;
       match String.split_on_char '\t' line with
       | [prop; case; obs] ->
         let m = (try to_string (M.dispatch (coq_of_string prop) (parse case))
                  with Parse_error e -> "PARSE-ERROR " ^ e
                     | Stack_overflow -> "STACK-OVERFLOW") in
         if echo then print_endline m
         else if String.equal m obs then print_endline "OK"
         else (incr mism; Printf.printf "MISMATCH\t%d\t%s\t%s\n" !lineno prop m)
       | _ -> Printf.printf "BADLINE\t%d\n" !lineno
     done
   with End_of_file -> ());
  exit 0
