module verifharness

go 1.22.6

require (
	github.com/buildkite/go-pipeline v0.0.0
	github.com/buildkite/interpolate v0.1.5
	github.com/davecgh/go-spew v1.1.2-0.20180830191138-d8f796af33cc
	github.com/lestrrat-go/jwx/v2 v2.1.4
	gopkg.in/yaml.v3 v3.0.1
)

require (
	github.com/google/go-cmp v0.7.0 // indirect
	github.com/gowebpki/jcs v1.0.1 // indirect
	github.com/lestrrat-go/blackmagic v1.0.2 // indirect
	github.com/lestrrat-go/httpcc v1.0.1 // indirect
	github.com/lestrrat-go/httprc v1.0.6 // indirect
	github.com/lestrrat-go/iter v1.0.2 // indirect
	github.com/lestrrat-go/option v1.0.1 // indirect
	github.com/oleiade/reflections v1.1.0 // indirect
	golang.org/x/crypto v0.32.0 // indirect
)

replace github.com/buildkite/go-pipeline => /repo
