package main

import (
	"fmt"
	"go/ast"
	"go/parser"
	"go/token"
	"reflect"
	"strings"
)

// ---------------------------------------------------------------- Consts

func (p *pkg) varInit(name string) ast.Expr {
	for _, f := range p.files {
		for _, d := range f.Decls {
			gd, ok := d.(*ast.GenDecl)
			if !ok || (gd.Tok != token.VAR && gd.Tok != token.CONST) {
				continue
			}
			for _, s := range gd.Specs {
				vs := s.(*ast.ValueSpec)
				for i, n := range vs.Names {
					if n.Name == name && i < len(vs.Values) {
						return vs.Values[i]
					}
				}
			}
		}
	}
	fail("variable %s not found", name)
	return nil
}

func genConsts(root, sig *pkg) {
	var b strings.Builder
	re := root.varInit("matrixTokenRE")
	call, ok := re.(*ast.CallExpr)
	if !ok || len(call.Args) != 1 {
		fail("matrixTokenRE is not regexp.MustCompile(<literal>)")
	}
	lit, ok := strLit(call.Args[0])
	if !ok {
		fail("matrixTokenRE argument is not a string literal")
	}
	fmt.Fprintf(&b, "Definition matrix_token_re : string := %s.\n", coqStr(lit))
	fmt.Fprintf(&b, "Definition full_source_literals : list string := %s.\n", coqStrList(literals(root.funcDecl("Plugin", "FullSource").Body)))
	fmt.Fprintf(&b, "Definition new_matrix_interpolator_literals : list string := %s.\n", coqStrList(literals(root.funcDecl("", "newMatrixInterpolator").Body)))
	fmt.Fprintf(&b, "Definition matrix_transform_literals : list string := %s.\n", coqStrList(literals(root.funcDecl("matrixInterpolator", "Transform").Body)))
	pre, ok := strLit(sig.varInit("EnvNamespacePrefix"))
	if !ok {
		fail("EnvNamespacePrefix is not a string literal")
	}
	fmt.Fprintf(&b, "Definition env_namespace_prefix : string := %s.\n", coqStr(pre))
	emit("Consts.v", b.String())
}

// ---------------------------------------------------------------- Kinds

// kindOfReturn names the step type a return statement constructs.
func kindOfReturn(body []ast.Stmt) string {
	for _, st := range body {
		rs, ok := st.(*ast.ReturnStmt)
		if !ok || len(rs.Results) == 0 {
			continue
		}
		switch e := rs.Results[0].(type) {
		case *ast.CallExpr: // new(T)
			if id, ok := e.Fun.(*ast.Ident); ok && id.Name == "new" && len(e.Args) == 1 {
				return typeName(e.Args[0])
			}
		case *ast.UnaryExpr: // &T{...}
			if cl, ok := e.X.(*ast.CompositeLit); ok {
				return typeName(cl.Type)
			}
		case *ast.Ident:
			if e.Name == "nil" {
				return "nil"
			}
		}
		return "?"
	}
	return "?"
}

func sentinelIn(body []ast.Stmt) string {
	found := ""
	for _, st := range body {
		ast.Inspect(st, func(n ast.Node) bool {
			if id, ok := n.(*ast.Ident); ok && strings.HasPrefix(id.Name, "Err") && id.Name != "Errorf" && found == "" {
				found = id.Name
			}
			return true
		})
	}
	return found
}

func containsKeys(e ast.Expr) []string {
	var out []string
	ast.Inspect(e, func(n ast.Node) bool {
		if c, ok := n.(*ast.CallExpr); ok {
			if se, ok := c.Fun.(*ast.SelectorExpr); ok && se.Sel.Name == "Contains" && len(c.Args) == 1 {
				if s, ok := strLit(c.Args[0]); ok {
					out = append(out, s)
				}
			}
		}
		return true
	})
	return out
}

func firstSwitch(fd *ast.FuncDecl) *ast.SwitchStmt {
	var sw *ast.SwitchStmt
	ast.Inspect(fd.Body, func(n ast.Node) bool {
		if s, ok := n.(*ast.SwitchStmt); ok && sw == nil {
			sw = s
		}
		return sw == nil
	})
	if sw == nil {
		fail("no switch in %s", fd.Name.Name)
	}
	return sw
}

func genKinds(root *pkg) {
	var b strings.Builder
	emitTable := func(name string, fd *ast.FuncDecl, byContains bool) {
		sw := firstSwitch(fd)
		var rows []string
		def, sent := "?", ""
		for _, c := range sw.Body.List {
			cc := c.(*ast.CaseClause)
			if cc.List == nil {
				def, sent = kindOfReturn(cc.Body), sentinelIn(cc.Body)
				continue
			}
			var keys []string
			for _, e := range cc.List {
				if byContains {
					keys = append(keys, containsKeys(e)...)
				} else if s, ok := strLit(e); ok {
					keys = append(keys, s)
				} else {
					fail("%s: non-literal case label", fd.Name.Name)
				}
			}
			rows = append(rows, fmt.Sprintf("(%s, %s)", coqStrList(keys), coqStr(kindOfReturn(cc.Body))))
		}
		fmt.Fprintf(&b, "Definition %s : list (list string * string) := %s.\n", name, coqList(rows))
		fmt.Fprintf(&b, "Definition %s_default : string * string := (%s, %s).\n", name, coqStr(def), coqStr(sent))
	}
	emitTable("step_by_type", root.funcDecl("", "stepByType"), false)
	emitTable("step_by_key_inference", root.funcDecl("", "stepByKeyInference"), true)
	emitTable("new_scalar_step", root.funcDecl("", "NewScalarStep"), false)
	vs, ok := root.varInit("validStepScalars").(*ast.CompositeLit)
	if !ok {
		fail("validStepScalars is not a composite literal")
	}
	fmt.Fprintf(&b, "Definition valid_step_scalars : list string := %s.\n", coqStrList(literals(vs)))
	emit("Kinds.v", b.String())
}

// ---------------------------------------------------------------- Structs

func tagValue(tag, key string) (string, bool) {
	return reflect.StructTag(tag).Lookup(key)
}

func structRows(st *ast.StructType) []string {
	var rows []string
	for _, f := range st.Fields.List {
		tag := ""
		if f.Tag != nil {
			tag, _ = strLit(f.Tag)
		}
		y, hasY := tagValue(tag, "yaml")
		a, _ := tagValue(tag, "aliases")
		j, _ := tagValue(tag, "json")
		names := []string{}
		for _, n := range f.Names {
			names = append(names, n.Name)
		}
		if len(names) == 0 { // embedded
			names = []string{typeName(f.Type)}
		}
		for _, n := range names {
			rows = append(rows, fmt.Sprintf("(%s, (%s, %s), %s, %s, %s)", coqStr(n), coqBool(hasY), coqStr(y), coqStr(a), coqStr(j), coqStr(typeString(f.Type))))
		}
	}
	return rows
}

func genStructs(root *pkg) {
	var b strings.Builder
	b.WriteString("(* field row: (Go name, (has yaml tag, yaml tag), aliases tag, json tag, Go type) *)\n")
	b.WriteString("Definition field_row : Type := (string * (bool * string) * string * string * string)%type.\n")
	type named struct {
		name string
		st   *ast.StructType
	}
	var all []named
	files := []string{}
	for n := range root.files {
		files = append(files, n)
	}
	sortStrings(files)
	for _, fn := range files {
		f := root.files[fn]
		for _, d := range f.Decls {
			switch d := d.(type) {
			case *ast.GenDecl:
				if d.Tok != token.TYPE {
					continue
				}
				for _, s := range d.Specs {
					ts := s.(*ast.TypeSpec)
					if st, ok := ts.Type.(*ast.StructType); ok {
						all = append(all, named{ts.Name.Name, st})
					}
				}
			case *ast.FuncDecl:
				// anonymous structs inside methods (CommandStep.UnmarshalOrdered)
				if d.Body == nil {
					continue
				}
				recv := ""
				if d.Recv != nil && len(d.Recv.List) > 0 {
					recv = typeName(d.Recv.List[0].Type)
				}
				k := 0
				ast.Inspect(d.Body, func(n ast.Node) bool {
					if st, ok := n.(*ast.StructType); ok && st.Fields != nil && len(st.Fields.List) > 0 {
						// only structs carrying yaml tags matter
						has := false
						for _, f := range st.Fields.List {
							if f.Tag != nil && strings.Contains(f.Tag.Value, "yaml:") {
								has = true
							}
						}
						if has {
							all = append(all, named{fmt.Sprintf("%s_%s_anon%d", recv, d.Name.Name, k), st})
							k++
						}
					}
					return true
				})
			}
		}
	}
	for _, n := range all {
		fmt.Fprintf(&b, "Definition struct_%s : list field_row := %s.\n", n.name, coqList(structRows(n.st)))
	}
	names := []string{}
	for _, n := range all {
		names = append(names, n.name)
	}
	fmt.Fprintf(&b, "Definition struct_names : list string := %s.\n", coqStrList(names))
	emit("Structs.v", b.String())
}

func sortStrings(s []string) {
	for i := 1; i < len(s); i++ {
		for j := i; j > 0 && s[j] < s[j-1]; j-- {
			s[j], s[j-1] = s[j-1], s[j]
		}
	}
}

// ---------------------------------------------------------------- InterpScope

func fieldOfArg(e ast.Expr) string {
	switch t := e.(type) {
	case *ast.UnaryExpr:
		return fieldOfArg(t.X)
	case *ast.SelectorExpr:
		return t.Sel.Name
	case *ast.Ident:
		return t.Name
	}
	return "?"
}

func genInterpScope(root *pkg) {
	var b strings.Builder
	b.WriteString("(* per interpolate method: (guard transformer type or \"\", helper, field) in source order *)\n")
	var recvs []string
	rows := map[string][]string{}
	files := []string{}
	for n := range root.files {
		files = append(files, n)
	}
	sortStrings(files)
	for _, fn := range files {
		for _, d := range root.files[fn].Decls {
			fd, ok := d.(*ast.FuncDecl)
			if !ok || fd.Name.Name != "interpolate" || fd.Recv == nil {
				continue
			}
			recv := typeName(fd.Recv.List[0].Type)
			recvs = append(recvs, recv)
			var walk func(n ast.Node, guard string)
			walk = func(n ast.Node, guard string) {
				ast.Inspect(n, func(x ast.Node) bool {
					switch t := x.(type) {
					case *ast.TypeSwitchStmt:
						for _, c := range t.Body.List {
							cc := c.(*ast.CaseClause)
							g := []string{}
							for _, e := range cc.List {
								g = append(g, typeName(e))
							}
							for _, st := range cc.Body {
								walk(st, strings.Join(g, "|"))
							}
						}
						return false
					case *ast.IfStmt:
						// if _, is := tf.(T); is { return nil }
						if as, ok := t.Init.(*ast.AssignStmt); ok && len(as.Rhs) == 1 {
							if ta, ok := as.Rhs[0].(*ast.TypeAssertExpr); ok {
								rows[recv] = append(rows[recv], fmt.Sprintf("(%s, %s, %s)", coqStr(typeName(ta.Type)), coqStr("return"), coqStr("")))
								return false
							}
						}
					case *ast.CallExpr:
						switch f := t.Fun.(type) {
						case *ast.Ident:
							if strings.HasPrefix(f.Name, "interpolate") && len(t.Args) >= 2 {
								rows[recv] = append(rows[recv], fmt.Sprintf("(%s, %s, %s)", coqStr(guard), coqStr(f.Name), coqStr(fieldOfArg(t.Args[1]))))
							}
						case *ast.SelectorExpr:
							if f.Sel.Name == "interpolate" {
								rows[recv] = append(rows[recv], fmt.Sprintf("(%s, %s, %s)", coqStr(guard), coqStr(".interpolate"), coqStr(fieldOfArg(f.X))))
							}
							if f.Sel.Name == "Transform" && len(t.Args) == 1 {
								rows[recv] = append(rows[recv], fmt.Sprintf("(%s, %s, %s)", coqStr(guard), coqStr("Transform"), coqStr(fieldOfArg(t.Args[0]))))
							}
						}
					}
					return true
				})
			}
			walk(fd.Body, "")
		}
	}
	for _, r := range recvs {
		fmt.Fprintf(&b, "Definition interp_%s : list (string * string * string) := %s.\n", r, coqList(rows[r]))
	}
	fmt.Fprintf(&b, "Definition interp_receivers : list string := %s.\n", coqStrList(recvs))
	emit("InterpScope.v", b.String())
}

// ---------------------------------------------------------------- SignFields

func mapLitKeys(e ast.Expr) []string {
	cl, ok := e.(*ast.CompositeLit)
	if !ok {
		return nil
	}
	var out []string
	for _, el := range cl.Elts {
		if kv, ok := el.(*ast.KeyValueExpr); ok {
			if s, ok := strLit(kv.Key); ok {
				out = append(out, s)
			}
		}
	}
	return out
}

func genSignFields(sig *pkg) {
	var b strings.Builder
	sf := sig.funcDecl("CommandStepWithInvariants", "SignedFields")
	var sfKeys []string
	var sfVals []string
	ast.Inspect(sf.Body, func(n ast.Node) bool {
		if cl, ok := n.(*ast.CompositeLit); ok && sfKeys == nil {
			sfKeys = mapLitKeys(cl)
			for _, el := range cl.Elts {
				kv := el.(*ast.KeyValueExpr)
				sfVals = append(sfVals, exprString(kv.Value))
			}
		}
		return true
	})
	fmt.Fprintf(&b, "Definition signed_fields_keys : list string := %s.\n", coqStrList(sfKeys))
	fmt.Fprintf(&b, "Definition signed_fields_values : list string := %s.\n", coqStrList(sfVals))
	vf := sig.funcDecl("CommandStepWithInvariants", "ValuesForFields")
	var required []string
	ast.Inspect(vf.Body, func(n ast.Node) bool {
		if as, ok := n.(*ast.AssignStmt); ok && len(as.Lhs) == 1 && required == nil {
			if id, ok := as.Lhs[0].(*ast.Ident); ok && id.Name == "required" {
				required = mapLitKeys(as.Rhs[0])
			}
		}
		return true
	})
	fmt.Fprintf(&b, "Definition required_fields : list string := %s.\n", coqStrList(required))
	sw := firstSwitch(vf)
	var rows []string
	for _, c := range sw.Body.List {
		cc := c.(*ast.CaseClause)
		if cc.List == nil {
			continue
		}
		lab, _ := strLit(cc.List[0])
		outKey, outVal := "", ""
		for _, st := range cc.Body {
			if as, ok := st.(*ast.AssignStmt); ok {
				if ix, ok := as.Lhs[0].(*ast.IndexExpr); ok {
					outKey, _ = strLit(ix.Index)
					outVal = exprString(as.Rhs[0])
				}
			}
		}
		rows = append(rows, fmt.Sprintf("(%s, %s, %s)", coqStr(lab), coqStr(outKey), coqStr(outVal)))
	}
	fmt.Fprintf(&b, "Definition values_for_fields_cases : list (string * string * string) := %s.\n", coqList(rows))
	cp := sig.funcDecl("", "canonicalPayload")
	var tags []string
	ast.Inspect(cp.Body, func(n ast.Node) bool {
		if st, ok := n.(*ast.StructType); ok {
			for _, f := range st.Fields.List {
				if f.Tag != nil {
					t, _ := strLit(f.Tag)
					j, _ := tagValue(t, "json")
					tags = append(tags, j)
				}
			}
		}
		return true
	})
	fmt.Fprintf(&b, "Definition payload_json_tags : list string := %s.\n", coqStrList(tags))
	emit("SignFields.v", b.String())
}

func exprString(e ast.Expr) string {
	switch t := e.(type) {
	case *ast.SelectorExpr:
		return exprString(t.X) + "." + t.Sel.Name
	case *ast.Ident:
		return t.Name
	case *ast.CallExpr:
		args := []string{}
		for _, a := range t.Args {
			args = append(args, exprString(a))
		}
		return exprString(t.Fun) + "(" + strings.Join(args, ",") + ")"
	case *ast.BasicLit:
		return t.Value
	case *ast.CompositeLit:
		return "{}"
	}
	return fmt.Sprintf("%T", e)
}

// ---------------------------------------------------------------- Jwk

func selNames(e ast.Expr) []string {
	var out []string
	cl, ok := e.(*ast.CompositeLit)
	if !ok {
		return nil
	}
	for _, el := range cl.Elts {
		out = append(out, exprString(el))
	}
	return out
}

func genJwk(jwk *pkg) {
	var b strings.Builder
	m, ok := jwk.varInit("ValidAlgsForKeyType").(*ast.CompositeLit)
	if !ok {
		fail("ValidAlgsForKeyType is not a composite literal")
	}
	var rows []string
	for _, el := range m.Elts {
		kv := el.(*ast.KeyValueExpr)
		rows = append(rows, fmt.Sprintf("(%s, %s)", coqStr(exprString(kv.Key)), coqStrList(selNames(kv.Value))))
	}
	fmt.Fprintf(&b, "Definition valid_algs_for_key_type : list (string * list string) := %s.\n", coqList(rows))
	vsa := jwk.varInit("ValidSigningAlgorithms")
	call, ok := vsa.(*ast.CallExpr)
	var algs []string
	if ok && exprString(call.Fun) == "concat" {
		for _, a := range call.Args {
			algs = append(algs, selNames(jwk.varInit(exprString(a)))...)
		}
	} else {
		algs = selNames(vsa)
	}
	fmt.Fprintf(&b, "Definition valid_signing_algorithms : list string := %s.\n", coqStrList(algs))
	v := jwk.funcDecl("", "Validate")
	var kts []string
	ast.Inspect(v.Body, func(n ast.Node) bool {
		if as, ok := n.(*ast.AssignStmt); ok && len(as.Lhs) == 1 {
			if id, ok := as.Lhs[0].(*ast.Ident); ok && id.Name == "validKeyTypes" {
				kts = selNames(as.Rhs[0])
			}
		}
		return true
	})
	fmt.Fprintf(&b, "Definition valid_key_types : list string := %s.\n", coqStrList(kts))
	// the order of the checks in Validate, as the sequence of sentinel errors returned
	var seq []string
	ast.Inspect(v.Body, func(n ast.Node) bool {
		if rs, ok := n.(*ast.ReturnStmt); ok {
			found := ""
			ast.Inspect(rs, func(x ast.Node) bool {
				if id, ok := x.(*ast.Ident); ok && strings.HasPrefix(id.Name, "Err") && id.Name != "Errorf" && found == "" {
					found = id.Name
				}
				return true
			})
			if found != "" {
				seq = append(seq, found)
			}
		}
		return true
	})
	fmt.Fprintf(&b, "Definition validate_error_sequence : list string := %s.\n", coqStrList(seq))
	emit("Jwk.v", b.String())
}

// ---------------------------------------------------------------- Frame (C19)

// rootIdent: the identifier at the root of an lvalue expression (x, x.f, x[i], *x, x.f[i].g ...)
func rootIdent(e ast.Expr) *ast.Ident {
	switch t := e.(type) {
	case *ast.Ident:
		return t
	case *ast.SelectorExpr:
		return rootIdent(t.X)
	case *ast.IndexExpr:
		return rootIdent(t.X)
	case *ast.StarExpr:
		return rootIdent(t.X)
	case *ast.ParenExpr:
		return rootIdent(t.X)
	}
	return nil
}

func genFrame(pkgs map[string]*pkg) {
	var b strings.Builder
	b.WriteString("(* C19: package-level variables and the places that write to them or through a method receiver *)\n")
	var globalsRows, globalWrites, recvWrites, globalKinds []string
	var recvCalls [][3]string
	writers := map[string]bool{}
	names := []string{}
	for n := range pkgs {
		names = append(names, n)
	}
	sortStrings(names)
	for _, pn := range names {
		p := pkgs[pn]
		globals := map[string]bool{}
		files := []string{}
		for n := range p.files {
			files = append(files, n)
		}
		sortStrings(files)
		for _, fn := range files {
			for _, d := range p.files[fn].Decls {
				if gd, ok := d.(*ast.GenDecl); ok && gd.Tok == token.VAR {
					for _, s := range gd.Specs {
						vs := s.(*ast.ValueSpec)
						for vi, n := range vs.Names {
							if n.Name != "_" {
								globals[n.Name] = true
								globalsRows = append(globalsRows, fmt.Sprintf("(%s, %s)", coqStr(pn), coqStr(n.Name)))
								// how the variable is initialised: values that cannot carry mutable state reachable
								// through their methods (errors, compiled regexps, functions, literals, conversions of
								// nil for interface assertions) versus anything else (a constructor call, no initialiser)
								kind := "uninitialised"
								if vi < len(vs.Values) {
									kind = initKind(vs.Values[vi])
								} else if len(vs.Values) == 1 && len(vs.Names) > 1 {
									kind = "other-call"
								} else if vs.Type != nil && len(vs.Values) == 0 {
									kind = "uninitialised"
								}
								globalKinds = append(globalKinds, fmt.Sprintf("(%s, %s, %s)", coqStr(pn), coqStr(n.Name), coqStr(kind)))
							}
						}
					}
				}
			}
		}
		for _, fn := range files {
			for _, d := range p.files[fn].Decls {
				fd, ok := d.(*ast.FuncDecl)
				if !ok || fd.Body == nil {
					continue
				}
				recvName, recvType := "", ""
				if fd.Recv != nil && len(fd.Recv.List) > 0 {
					recvType = typeName(fd.Recv.List[0].Type)
					if len(fd.Recv.List[0].Names) > 0 {
						recvName = fd.Recv.List[0].Names[0].Name
					}
				}
				fname := fd.Name.Name
				if recvType != "" {
					fname = recvType + "." + fname
				}
				// locals that shadow globals: parameters and := definitions (coarse: any local definition of the name)
				shadow := map[string]bool{}
				ast.Inspect(fd, func(n ast.Node) bool {
					switch t := n.(type) {
					case *ast.AssignStmt:
						if t.Tok == token.DEFINE {
							for _, l := range t.Lhs {
								if id, ok := l.(*ast.Ident); ok {
									shadow[id.Name] = true
								}
							}
						}
					case *ast.Field:
						for _, nm := range t.Names {
							shadow[nm.Name] = true
						}
					case *ast.RangeStmt:
						if t.Tok == token.DEFINE {
							if id, ok := t.Key.(*ast.Ident); ok {
								shadow[id.Name] = true
							}
							if id, ok := t.Value.(*ast.Ident); ok {
								shadow[id.Name] = true
							}
						}
					}
					return true
				})
				note := func(lhs ast.Expr, how string) {
					id := rootIdent(lhs)
					if id == nil {
						return
					}
					if globals[id.Name] && !shadow[id.Name] {
						globalWrites = append(globalWrites, fmt.Sprintf("(%s, %s, %s)", coqStr(pn), coqStr(fname), coqStr(id.Name)))
					}
					if recvName != "" && id.Name == recvName {
						if _, plain := lhs.(*ast.Ident); !plain { // writing through the receiver, not re-binding the local name
							recvWrites = append(recvWrites, fmt.Sprintf("(%s, %s, %s)", coqStr(pn), coqStr(fname), coqStr(how)))
							writers[pn+"\x00"+fname] = true
						}
					}
				}
				ast.Inspect(fd.Body, func(n ast.Node) bool {
					if ce, ok := n.(*ast.CallExpr); ok && recvName != "" {
						if se, ok := ce.Fun.(*ast.SelectorExpr); ok {
							if id, ok := se.X.(*ast.Ident); ok && id.Name == recvName {
								recvCalls = append(recvCalls, [3]string{pn, fname, recvType + "." + se.Sel.Name})
							}
						}
					}
					switch t := n.(type) {
					case *ast.AssignStmt:
						if t.Tok != token.DEFINE {
							for _, l := range t.Lhs {
								note(l, "assign")
							}
						}
					case *ast.IncDecStmt:
						note(t.X, "incdec")
					case *ast.CallExpr:
						if id, ok := t.Fun.(*ast.Ident); ok && (id.Name == "delete" || id.Name == "clear") && len(t.Args) > 0 {
							note(t.Args[0], id.Name)
						}
					case *ast.UnaryExpr:
						if t.Op == token.AND { // address of a global escapes
							if id := rootIdent(t.X); id != nil && globals[id.Name] && !shadow[id.Name] {
								globalWrites = append(globalWrites, fmt.Sprintf("(%s, %s, %s)", coqStr(pn), coqStr(fname), coqStr("&"+id.Name)))
							}
						}
					}
					return true
				})
			}
		}
	}
	// methods that call a writing method on their own receiver write too (to a fixpoint)
	for changed := true; changed; {
		changed = false
		for _, c := range recvCalls {
			if writers[c[0]+"\x00"+c[2]] && !writers[c[0]+"\x00"+c[1]] {
				writers[c[0]+"\x00"+c[1]] = true
				recvWrites = append(recvWrites, fmt.Sprintf("(%s, %s, %s)", coqStr(c[0]), coqStr(c[1]), coqStr("calls "+c[2])))
				changed = true
			}
		}
	}
	fmt.Fprintf(&b, "Definition package_globals : list (string * string) := %s.\n", coqList(globalsRows))
	fmt.Fprintf(&b, "(* (package, variable, how it is initialised) *)\nDefinition package_global_kinds : list (string * string * string) := %s.\n", coqList(globalKinds))
	fmt.Fprintf(&b, "Definition global_writes : list (string * string * string) := %s.\n", coqList(globalWrites))
	fmt.Fprintf(&b, "Definition receiver_writes : list (string * string * string) := %s.\n", coqList(recvWrites))
	emit("Frame.v", b.String())
}

// ---------------------------------------------------------------- TestStructs (C16)

func genTestStructs(file string) {
	var b strings.Builder
	b.WriteString("From GP Require Import Gen.Structs.\n")
	if file == "" {
		b.WriteString("Definition test_structs : list (string * list field_row) := [].\n")
		emit("TestStructs.v", b.String())
		return
	}
	f, err := parser.ParseFile(fset, file, nil, parser.ParseComments)
	if err != nil {
		fail("parse %s: %v", file, err)
	}
	var rows []string
	for _, d := range f.Decls {
		gd, ok := d.(*ast.GenDecl)
		if !ok || gd.Tok != token.TYPE {
			continue
		}
		for _, s := range gd.Specs {
			ts := s.(*ast.TypeSpec)
			if st, ok := ts.Type.(*ast.StructType); ok {
				rows = append(rows, fmt.Sprintf("(%s, %s)", coqStr(ts.Name.Name), coqList(structRows(st))))
			}
		}
	}
	fmt.Fprintf(&b, "Definition test_structs : list (string * list field_row) := %s.\n", coqList(rows))
	emit("TestStructs.v", b.String())
}

// initKind classifies the initialiser of a package-level variable.
func initKind(e ast.Expr) string {
	switch t := e.(type) {
	case *ast.BasicLit:
		return "literal"
	case *ast.CompositeLit:
		return "literal"
	case *ast.FuncLit:
		return "func"
	case *ast.Ident:
		return "ident"
	case *ast.SelectorExpr:
		return "ident"
	case *ast.UnaryExpr:
		if _, ok := t.X.(*ast.CompositeLit); ok {
			return "literal"
		}
		return initKind(t.X)
	case *ast.ParenExpr:
		return initKind(t.X)
	case *ast.IndexExpr, *ast.IndexListExpr:
		return "func" // an instantiated generic function value
	case *ast.CallExpr:
		fn := ""
		switch f := t.Fun.(type) {
		case *ast.SelectorExpr:
			if x, ok := f.X.(*ast.Ident); ok {
				fn = x.Name + "." + f.Sel.Name
			}
		case *ast.Ident:
			fn = f.Name
		case *ast.ParenExpr:
			// a conversion such as (*T)(nil), used for interface assertions
			if len(t.Args) == 1 {
				if id, ok := t.Args[0].(*ast.Ident); ok && id.Name == "nil" {
					return "nil-conversion"
				}
			}
		}
		switch fn {
		case "errors.New", "fmt.Errorf":
			return "error"
		case "regexp.MustCompile":
			return "regexp"
		}
		return "other-call"
	}
	return "other"
}
