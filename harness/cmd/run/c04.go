package main

import (
	"encoding/json"
	"fmt"
	"strings"

	pipeline "github.com/buildkite/go-pipeline"
	"github.com/buildkite/go-pipeline/ordered"
	"github.com/buildkite/go-pipeline/warning"
	"github.com/buildkite/interpolate"
	"verifharness/sx"
)

// collectStrings: every string (keys and values) of a decoded JSON value
func collectStrings(v any, out *[]string) {
	switch t := v.(type) {
	case string:
		*out = append(*out, t)
	case []any:
		for _, e := range t {
			collectStrings(e, out)
		}
	case map[string]any:
		for k, e := range t {
			*out = append(*out, k)
			collectStrings(e, out)
		}
	}
}

const c04failingRef = "${NOPE?must be set}"

// c04failingRefs counts the strings (keys included) carrying the failing reference, outside and inside `signature`
// entries
func c04failingRefs(d *dv, inSig bool, outside, inside *int) {
	note := func(s string) {
		if strings.Contains(s, c04failingRef) {
			if inSig {
				*inside++
			} else {
				*outside++
			}
		}
	}
	switch d.kind {
	case 's':
		note(d.s)
	case 'l':
		for _, e := range d.l {
			c04failingRefs(e, inSig, outside, inside)
		}
	case 'm':
		for _, e := range d.m {
			note(e.k)
			c04failingRefs(e.v, inSig || e.k == "signature", outside, inside)
		}
	}
}

var c04refs = []string{"${FOO?must be set}", `\$`, `x\$`, "$$", "$FOO", "${BAR}", "$$ESC", `\$ESC2`, "${UNSET:-dflt}", "${EMPTY:-e}", "${FOO-x}", "$UNSET.", "", "", "$(cmd)", "$", "$1", `\\`, "$FOO$BAR"}

func c04doc(rng *sx.Rng, big bool) (*docgen, *dv) {
	g := newDocgen(rng, false)
	base := g.mark
	_ = base
	// one document in seven has references that cannot be expanded (a required variable that is not set)
	failing := rng.Chance(14)
	g.decorate = func(m string) string {
		if failing && rng.Chance(6) {
			return m + c04failingRef
		}
		return m + sx.Pick(rng, c04refs)
	}
	d := g.document()
	// small ORDERED mappings (nested mappings stay *ordered.Map) in which a key expands onto another key of the
	// same mapping: the rename tombstones the other slot, and in a small map that crosses the compaction
	// threshold while the interpolation is still ranging over it
	if d.kind == 'm' && rng.Chance(40) {
		small := func() *dv {
			m := dMap()
			lit := [][2]string{{"vfoo", "$FOO"}, {"v bar", "${BAR}"}, {"vfoo", "${FOO}"}, {"$X", "$$X"}}
			n := 1 + rng.Intn(3)
			for i := 0; i < n; i++ {
				pr := lit[rng.Intn(len(lit))]
				a, b := pr[0], pr[1]
				if rng.Chance(50) {
					a, b = b, a
				}
				// plain values: one of two colliding entries is necessarily lost, so these are compared with the
				// model (which entry survives, and where) rather than by the exactly-once marker oracle
				if rng.Chance(30) {
					m.set(fmt.Sprintf("pad%d", rng.Intn(100)), dStr("padv"))
				}
				m.set(a, dStr(fmt.Sprintf("first%d $FOO", i)))
				m.set(b, dStr(fmt.Sprintf("second%d ${BAR}", i)))
			}
			return m
		}
		d.set("small_top", small())
		if s := d.get("steps"); s != nil && s.kind == 'l' {
			for _, st := range s.l {
				if st.kind == 'm' && rng.Chance(50) {
					st.set("agents", small())
				}
			}
		}
	}
	// unknown steps written as bare scalars are strings like any other
	if s := d.get("steps"); s != nil && s.kind == 'l' && rng.Chance(30) {
		s.l = append(s.l, dStr("frobnicate "+g.mark()))
		if rng.Chance(50) {
			s.l = append(s.l, dMap(dkv{"group", dStr("g " + g.mark())}, dkv{"steps", dList(dStr("deploy " + g.mark()))}))
		}
	}
	if big && d.kind == 'm' {
		// Go-map levels with more than eight entries whose keys change under expansion
		st := g.commandStep()
		e := dMap()
		for i := 0; i < 9+rng.Intn(8); i++ {
			e.set(fmt.Sprintf("N%d_%s", i, g.mark()), dStr(g.mark()))
		}
		st.set("env", e)
		for i := 0; i < 9+rng.Intn(8); i++ {
			st.set("x"+g.mark(), dStr(g.mark()))
		}
		cfg := dMap()
		for i := 0; i < 9+rng.Intn(8); i++ {
			cfg.set("c"+g.mark(), dStr(g.mark()))
		}
		st.set("plugins", dList(dMap(dkv{"docker#v1", cfg})))
		// keys that expand onto other keys of the same Go map (which are themselves renamed):
		// an escaped and a plain reference to one variable, and a variable whose value names another
		for _, target := range []*dv{e, cfg, st} {
			if rng.Chance(50) {
				target.set("$$FOO", dStr(g.mark()))
				target.set("$FOO", dStr(g.mark()))
			}
			if rng.Chance(30) {
				target.set("${CHAIN}", dStr(g.mark()))
				target.set("$BAR", dStr(g.mark()))
			}
		}
		if s := d.get("steps"); s != nil && s.kind == 'l' {
			s.l = append(s.l, st)
		} else {
			d.set("steps", dList(st))
		}
	}
	return g, d
}

// c04aliases: anchors and aliases expand to independent copies, so a subtree referenced from several
// places is interpolated once PER PLACE, each from the original text: the document must give the same result as
// the one with every alias written out.
func c04aliases(rng *sx.Rng, n int) {
	strs := []string{"a $$FOO ${FOO}", "$$X", "v $BAR", "$${BAR}", "plain", "${CHAIN}", "$$$$FOO"}
	for i := 0; i < n; i++ {
		q := func() string { return fmt.Sprintf("%q", sx.Pick(rng, strs)) }
		shared := sx.Pick(rng, []string{
			fmt.Sprintf("{k1: %s, k2: [%s, %s]}", q(), q(), q()),
			fmt.Sprintf("[%s, {n: %s}]", q(), q()),
			fmt.Sprintf("{%s: %s}", q(), q()),
		})
		tmpl := "x-shared: &sh %s\nsteps:\n- command: echo\n  agents: %s\n  other: %s\n- wait: ~\n  extra: %s\n- trigger: t\n  build: %s\n"
		withAlias := fmt.Sprintf(tmpl, shared, "*sh", "*sh", "*sh", "*sh")
		inlined := fmt.Sprintf(tmpl, shared, shared, shared, shared, shared)
		run := func(text string) (string, error) {
			noteCase("C04", text)
			p, err := pipeline.Parse(strings.NewReader(text))
			if err != nil && !warning.Is(err) {
				return "", err
			}
			env := &hEnv{m: map[string]string{"FOO": "vfoo", "BAR": "v bar", "CHAIN": "$BAR"}}
			if err := p.Interpolate(env, false); err != nil {
				return "", err
			}
			b, err := json.Marshal(p)
			return string(b), err
		}
		a, ea := run(withAlias)
		b, eb := run(inlined)
		if (ea == nil) != (eb == nil) || a != b {
			oracleFail("C04", "alias-shared", sx.L(sx.A("yaml-block"), sx.A(withAlias)), fmt.Sprintf("with aliases: %s (%v)\nwritten out : %s (%v)", a, ea, b, eb))
			continue
		}
		stat("C04", "alias-docs")
	}
}

// c04apiBuilt: a pipeline put together through the API may hold Go values that no parser produces - typed string
// maps and slices, ordered maps of strings, string pointers - inside its free-form fields. Their strings are strings
// of the pipeline: the same structure built from already expanded strings is what interpolation must leave.
func c04apiBuilt(rng *sx.Rng, n int) {
	envm := map[string]string{"FOO": "vfoo", "BAR": "v bar", "EMPTY": ""}
	for i := 0; i < n; i++ {
		pool := []string{"a $FOO", "${BAR}", "$$FOO", `\$BAR`, "plain", "${EMPTY:-dflt}", "x${FOO}y", "$UNSET."}
		picks := make([]string, 24)
		for j := range picks {
			picks[j] = fmt.Sprintf("%d %s", j, pool[rng.Intn(len(pool))])
		}
		build := func(f func(string) string) *pipeline.Pipeline {
			k := 0
			nx := func() string { k++; return f(picks[k%len(picks)]) }
			om := ordered.NewMap[string, string](0)
			om.Set(nx(), nx())
			om.Set(nx(), nx())
			oa := ordered.NewMap[string, any](0)
			oa.Set(nx(), []string{nx(), nx()})
			oa.Set(nx(), map[string]string{nx(): nx()})
			ps := nx()
			inner := ordered.NewMap[string, string](0)
			inner.Set(nx(), nx())
			cs := &pipeline.CommandStep{
				Command: nx(),
				Label:   nx(),
				Plugins: pipeline.Plugins{{Source: "docker#v1", Config: map[string]any{nx(): map[string]string{nx(): nx()}, "list": []string{nx()}, "omap": inner}}},
				RemainingFields: map[string]any{
					"typed_map":  map[string]string{nx(): nx(), nx(): nx()},
					"typed_omap": om,
					"any_omap":   oa,
					"strings":    []string{nx(), nx()},
					"pointer":    &ps,
					"nested":     []any{map[string]any{nx(): []any{nx(), map[string]string{nx(): nx()}}}},
				},
			}
			grp := nx()
			return &pipeline.Pipeline{
				Steps: pipeline.Steps{cs, &pipeline.GroupStep{Group: &grp, Steps: pipeline.Steps{&pipeline.TriggerStep{Contents: map[string]any{"trigger": nx(), "build": map[string]string{nx(): nx()}}}}}},
				RemainingFields: map[string]any{"top": map[string]string{nx(): nx()}},
			}
		}
		env := &hEnv{m: map[string]string{}}
		for k, v := range envm {
			env.Set(k, v)
		}
		var xerr error
		want := build(func(s string) string {
			o, err := interpolate.Interpolate(env, s)
			if err != nil {
				xerr = err
			}
			return o
		})
		if xerr != nil {
			continue
		}
		got := build(func(s string) string { return s })
		c := sx.L(sx.A("api-built"), sx.A(strings.Join(picks, " | ")))
		var ierr error
		func() {
			defer func() {
				if r := recover(); r != nil {
					ierr = fmt.Errorf("panic: %v", r)
				}
			}()
			ierr = got.Interpolate(env, false)
		}()
		if ierr != nil {
			oracleFail("C04", "api-built", c, "Interpolate: "+ierr.Error())
			continue
		}
		wb, e1 := json.Marshal(want)
		gb, e2 := json.Marshal(got)
		if e1 != nil || e2 != nil || sortedJSON(wb) != sortedJSON(gb) {
			oracleFail("C04", "api-built", c, fmt.Sprintf("interpolating the pipeline gives\n%s\nbuilding it from expanded strings gives\n%s (%v %v)", sortedJSON(gb), sortedJSON(wb), e1, e2))
			continue
		}
		stat("C04", "api-built")
	}
}

// c04libraryEnv: the library's own environment type, case-insensitive, built from a map with mixed-case names: a
// reference in any spelling expands to the value
func c04libraryEnv() {
	for _, ci := range []bool{true, false} {
		src := map[string]string{"Deploy_Target": "prod", "UPPER": "u", "lower": "l"}
		text := "steps:\n- command: echo $deploy_target ${DEPLOY_TARGET} $Deploy_Target $UPPER $upper $lower $LOWER\n  label: \"${Deploy_Target}\"\n"
		p, err := pipeline.Parse(strings.NewReader(text))
		if err != nil {
			continue
		}
		ierr := p.Interpolate(pipeline.VerifEnvFromMap(!ci, src), false)
		want := "echo prod prod prod u u l l"
		if !ci {
			want = "echo   prod u  l "
		}
		cs := p.Steps[0].(*pipeline.CommandStep)
		c := sx.L(sx.A("library-env"), sx.B(ci), sx.A(text))
		if ierr != nil || cs.Command != want || cs.Label != "prod" {
			oracleFail("C04", "library-env", c, fmt.Sprintf("case-insensitive=%v: command %q label %q (err %v), want %q / \"prod\"", ci, cs.Command, cs.Label, ierr, want))
			continue
		}
		stat("C04", "library-env")
	}
}

func init() {
	props["C04"] = func(rng *sx.Rng, thorough bool) {
		c04libraryEnv()
		if thorough {
			c04aliases(rng, 3000)
			c04apiBuilt(rng, 3000)
		} else {
			c04aliases(rng, 150)
			c04apiBuilt(rng, 150)
		}
		n := 1500
		if thorough {
			n = 30000
		}
		envPairs := [][2]string{{"FOO", "vfoo"}, {"BAR", "v bar"}, {"EMPTY", ""}, {"ESC", "NEVER"}, {"ESC2", "NEVER"}, {"CHAIN", "$BAR"}}
		for i := 0; i < n; i++ {
			g, d := c04doc(rng, i%3 == 0)
			text, form := renderDoc(d, i)
			a, derr := decodeText(text)
			if derr != nil {
				oracleFail("C04", "document-rejected", sx.L(sx.A(form), sx.A(text)), "a generated, well-formed document does not decode: "+derr.Error())
				continue
			}
			el := sx.List{}
			for _, p := range envPairs {
				el = append(el, sx.L(sx.A(p[0]), sx.A(p[1])))
			}
			c := sx.L(anySexp(a), el)
			short := sx.L(sx.A(form), sx.A(text))
			var first []byte
			var firstErr error
			nOutside, nInside, failed := 0, 0, 0
			c04failingRefs(d, false, &nOutside, &nInside)
			reps := 3
			for rep := 0; rep < reps; rep++ {
				noteCase("C04", text)
				p, err := pipeline.Parse(strings.NewReader(text))
				if err != nil && !warning.Is(err) {
					first = nil
					firstErr = err
					break
				}
				env := &hEnv{m: map[string]string{}}
				for _, kv := range envPairs {
					env.Set(kv[0], kv[1])
				}
				var ierr error
				panicked := ""
				func() {
					defer func() {
						if r := recover(); r != nil {
							panicked = fmt.Sprint(r)
						}
					}()
					ierr = p.Interpolate(env, false)
				}()
				if panicked != "" {
					oracleFail("C04", "panic", short, panicked)
					first = nil
					firstErr = fmt.Errorf("panic")
					break
				}
				if ierr != nil {
					if nOutside+nInside == 0 {
						oracleFail("C04", "unexpected-error", short, ierr.Error())
						first = nil
						firstErr = ierr
						break
					}
					if !strings.Contains(ierr.Error(), "must be set") {
						oracleFail("C04", "error-not-reported", short, "the expansion fails with `must be set`, the call reports: "+ierr.Error())
						first = nil
						break
					}
					failed++
					continue
				}
				if nOutside > 0 {
					oracleFail("C04", "error-swallowed", short, fmt.Sprintf("%d strings outside signatures hold a reference to a required variable that is not set, yet Interpolate returned nil", nOutside))
					first = nil
					break
				}
				if failed > 0 {
					oracleFail("C04", "nondeterministic", short, "the same input fails in one run and succeeds in another")
					first = nil
					break
				}
				jb, jerr := json.Marshal(p)
				if jerr != nil {
					first = nil
					firstErr = jerr
					break
				}
				// ordered mappings whose keys collide after expansion: top to bottom, an entry renamed onto another
				// entry's name replaces it (a later one is then never visited), positions kept
				if st := d.get("small_top"); rep == 0 && st != nil && st.kind == 'm' {
					type pair struct {
						k, v string
						dead bool
					}
					var items []pair
					for _, e := range st.m {
						items = append(items, pair{k: e.k, v: e.v.s})
					}
					refOK := true
					for i2 := range items {
						if items[i2].dead {
							continue
						}
						nk, e1 := interpolate.Interpolate(env, items[i2].k)
						nv, e2 := interpolate.Interpolate(env, items[i2].v)
						if e1 != nil || e2 != nil {
							refOK = false
							break
						}
						for j := range items {
							if j != i2 && !items[j].dead && items[j].k == nk {
								items[j].dead = true
							}
						}
						items[i2].k, items[i2].v = nk, nv
					}
					if got, ok := p.RemainingFields["small_top"].(*ordered.MapSA); ok && refOK {
						var wantS, gotS []string
						for _, it := range items {
							if !it.dead {
								wantS = append(wantS, it.k+"="+it.v)
							}
						}
						got.Range(func(k string, v any) error { gotS = append(gotS, k+"="+fmt.Sprint(v)); return nil })
						if fmt.Sprint(gotS) != fmt.Sprint(wantS) {
							oracleFail("C04", "ordered-collision", short, fmt.Sprintf("mapping small_top became %q, processing it top to bottom gives %q", gotS, wantS))
							first = nil
							firstErr = fmt.Errorf("oracle")
							break
						}
						stat("C04", "ordered-collision-checked")
					}
				}
				if rep == 0 {
					first = jb
					// exactly-once oracle against the real library's single-pass expansion
					finalEnv := env
					var outv any
					json.Unmarshal(jb, &outv)
					var strs []string
					collectStrings(outv, &strs)
					for _, raw := range g.placed {
						if strings.Count(text, raw[:strings.Index(raw, "q")+1]) != 1 {
							continue // marker not (uniquely) in the rendered document
						}
						marker := raw[:strings.Index(raw, "q")+1]
						want, werr := interpolate.Interpolate(finalEnv, raw)
						if werr != nil {
							continue
						}
						hits := 0
						ok := false
						for _, s := range strs {
							if strings.Contains(s, marker) {
								hits++
								if strings.Contains(s, want) && !strings.Contains(strings.Replace(s, want, "", 1), marker) {
									ok = true
								}
								// the one exception: step signatures are left untouched
								if strings.HasPrefix(s, "eyJ..sig") && s == "eyJ..sig"+raw {
									ok = true
								}
							}
						}
						if hits != 1 || !ok {
							oracleFail("C04", "not-single-pass", short, fmt.Sprintf("string %q should appear exactly once as %q after interpolation; found %d strings with its marker (exact=%v); output %s", raw, want, hits, ok, jb))
							first = nil
							firstErr = fmt.Errorf("oracle")
							break
						}
					}
					if first == nil {
						break
					}
				} else if string(jb) != string(first) {
					oracleFail("C04", "nondeterministic", short, fmt.Sprintf("two runs on the same input differ:\n%s\n%s", first, jb))
					first = nil
					firstErr = fmt.Errorf("oracle")
					break
				}
			}
			if failed == reps {
				stat("C04", "expansion-fails")
				fmt.Fprintf(out, "CASE\tC04\t%s\t%s\t1\n", sx.String(c), sx.String(sx.L(sx.A("err"))))
				continue
			}
			if failed > 0 && first != nil {
				oracleFail("C04", "nondeterministic", short, "the same input fails in one run and succeeds in another")
				continue
			}
			if first == nil {
				_ = firstErr
				continue
			}
			js, err := jsonSexp(first)
			if err != nil {
				continue
			}
			stat("C04", "form-"+form)
			fmt.Fprintf(out, "CASE\tC04\t%s\t%s\t1\n", sx.String(c), sx.String(sx.L(sx.A("ok"), js)))
		}
	}
}
