package main

import (
	"fmt"
	"strings"
	"time"

	pipeline "github.com/buildkite/go-pipeline"
	"github.com/buildkite/go-pipeline/ordered"
	"gopkg.in/yaml.v3"
	"verifharness/sx"
)

func countUnknown(ss pipeline.Steps) (unknown int, nilStep bool) {
	for _, s := range ss {
		switch t := s.(type) {
		case nil:
			nilStep = true
		case *pipeline.UnknownStep:
			unknown++
		case *pipeline.GroupStep:
			u, n := countUnknown(t.Steps)
			unknown += u
			nilStep = nilStep || n
			if t.Steps == nil {
				nilStep = true
			}
		}
	}
	return
}

// entries of the input step sequence (recursively inside groups that stay groups)
func inputStepCount(a any) (int, bool) {
	var steps any
	switch t := a.(type) {
	case []any:
		steps = t
	case *ordered.MapSA:
		steps, _ = t.Get("steps")
	default:
		return 0, false
	}
	l, ok := steps.([]any)
	if !ok {
		return 0, steps == nil
	}
	return len(l), true
}

func c13check(text, form string, c sx.S, wellFormed bool) *parsed {
	noteCase("C13", text)
	done := make(chan struct{})
	var r *parsed
	var bad string
	go func() {
		r, bad = runParse(text, form)
		close(done)
	}()
	select {
	case <-done:
	case <-time.After(20 * time.Second):
		oracleFail("C13", "hang", c, "Parse/marshal did not return within 20s")
		return nil
	}
	if strings.HasPrefix(bad, "decode:") {
		return nil // yaml.v3 rejected the text: Parse must reject it too; nothing to compare
	}
	if strings.HasPrefix(bad, "accepted-undecodable") {
		oracleFail("C13", "accepted-undecodable", c, bad)
		return nil
	}
	if bad != "" {
		oracleFail("C13", "panic", c, bad)
		return nil
	}
	if r.hard {
		stat("C13", "hard-error")
		return r
	}
	if r.p.Steps == nil {
		oracleFail("C13", "nil-steps", c, "usable result with nil Steps")
		return r
	}
	unknown, nilStep := countUnknown(r.p.Steps)
	if nilStep {
		oracleFail("C13", "nil-step", c, "usable result holds a nil step or a group with nil Steps")
		return r
	}
	a, _ := decodeText(text)
	if want, ok := inputStepCount(a); ok && want != len(r.p.Steps) {
		oracleFail("C13", "step-count", c, fmt.Sprintf("input has %d step entries, result has %d", want, len(r.p.Steps)))
		return r
	}
	n, _ := warnStats(r.err)
	if n != unknown {
		oracleFail("C13", "fallback-not-reported", c, fmt.Sprintf("%d unknown steps in the result but %d fallbacks reported in the warning (err=%v)", unknown, n, r.err))
		return r
	}
	if r.jsonErr != nil {
		oracleFail("C13", "json-marshal", c, "usable result but json.Marshal fails: "+r.jsonErr.Error())
		return r
	}
	var yerr error
	func() {
		defer func() {
			if x := recover(); x != nil {
				yerr = fmt.Errorf("panic: %v", x)
			}
		}()
		_, yerr = yaml.Marshal(r.p)
	}()
	if yerr != nil {
		oracleFail("C13", "yaml-marshal", c, "usable result but yaml.Marshal fails: "+yerr.Error())
		return r
	}
	if unknown > 0 {
		stat("C13", "usable-with-unknown")
	} else {
		stat("C13", "usable-clean")
	}
	return r
}

func init() {
	props["C13"] = func(rng *sx.Rng, thorough bool) {
		n := 2500
		if thorough {
			n = 60000
		}
		for i := 0; i < n; i++ {
			g := newDocgen(rng, i%4 != 0) // three quarters with injected type errors
			d := g.document()
			text, form := renderDoc(d, i)
			c := sx.L(sx.A(form), sx.A(text))
			r := c13check(text, form, c, !g.malformed)
			if r == nil || r.obs == nil {
				continue
			}
			// whatever Parse makes of it, the decoded document is the document that was written
			if want, got := sx.String(dvSexp(d, form == "json")), sx.String(r.caseSx); !hasTimestamp(d) && want != got {
				oracleFail("C13", "decode-differs-from-document", c, fmt.Sprintf("the document denotes %s but decodes to %s", want, got))
				continue
			}
			statN("C13", "injected-type-errors", g.injected)
			nt := "1"
			if g.injected == 0 {
				nt = "0"
			}
			fmt.Fprintf(out, "CASE\tC03\t%s\t%s\t%s\n", sx.String(r.caseSx), sx.String(r.obs), nt)
			if r.nfObs != nil {
				fmt.Fprintf(out, "CASE\tC03nf\t%s\t%s\t%s\n", sx.String(r.caseSx), sx.String(r.nfObs), nt)
			}
		}
		// byte-level mutation of rendered documents: totality only (no model comparison)
		m := 3000
		if thorough {
			m = 100000
		}
		for _, t := range []string{"- command: echo hello\n  <<: &loop [*loop]\n", "steps:\n  - wait\n<<: &l [[*l]]\n", "a: &a [*a]\nsteps: []\n",
			"steps:\n  - &s {command: x, <<: *s}\n", "x: &x {<<: [*x, &y [*y]]}\nsteps: []\n"} {
			c13check(t, "yaml-cycle", sx.L(sx.A("yaml-cycle"), sx.A(t)), false)
		}
		// keys that yaml.v3 resolves to unusual Go types (integers beyond int64, floats, bools, nulls, timestamps,
		// binary) at every mapping level: Parse must stay total
		for _, k := range []string{"18446744073709551615", "9223372036854775808", "0xFFFFFFFFFFFFFFFF", "-9223372036854775808", "0o1777777777777777777777",
			"1e400", ".inf", "-.inf", ".nan", "~", "null", "true", "2001-12-14t21:59:43.10-05:00", "!!binary aGk=", "!!float 1", "!!int 0x10", "[a, b]", "{a: b}", "? [x]\n",
			`"bell\a"`, `"esc\e"`, `"del\x7f"`, `"nul\0"`, `"nel\N"`, `"ls\L"`, `"\U0001F600"`, `"\uFFFE"`, `"tab\there"`, `"quote\"back\\slash"`} {
			for _, tmpl := range []string{"%s: v\nsteps: []\n", "steps:\n- command: c\n  %s: v\n", "steps:\n- command: c\n  env:\n    %s: v\n", "steps:\n- command: c\n  agents:\n    %s: v\n",
				"steps:\n- command: c\n  plugins:\n  - docker#v1:\n      %s: v\n", "steps:\n- command: c\n  matrix:\n    setup:\n      %s: [a]\n", "env:\n  %s: v\nsteps: []\n", "steps:\n- wait: ~\n  %s: v\n"} {
				t := fmt.Sprintf(tmpl, k)
				c13check(t, "odd-key", sx.L(sx.A("odd-key"), sx.A(t)), false)
			}
		}
		// documents that are not a mapping or a list at all
		for _, t := range []string{"~", "null", "---", "--- ~", "---\n# only a comment\n", "", " ", "\n", "42", "text", "true", "1.5", "[]", "{}", "--- []", "--- {}", "''", "!!binary aGk=", "...", "--- |\n  block\n", "&a *a", "*a"} {
			c13check(t, "scalar-document", sx.L(sx.A("scalar-document"), sx.A(t)), false)
		}
		junk := []string{"<<: &q [*q]", "\x00", "\xff\xfe", "&a", "*a", "<<: *a", "{", "}", "[", "]", ": ", "- ", "\n", "\t", "!!binary ", "? ", "|", ">", "'", "\"", "%YAML 1.1", "---", "...", "&x [*x]", "!!int x", " "}
		for i := 0; i < m; i++ {
			g := newDocgen(rng, true)
			text, form := renderDoc(g.document(), i)
			b := []byte(text)
			for k := 1 + rng.Intn(4); k > 0 && len(b) > 0; k-- {
				pos := rng.Intn(len(b))
				switch rng.Intn(4) {
				case 0:
					b = append(b[:pos], b[pos+1:]...)
				case 1:
					j := sx.Pick(rng, junk)
					b = append(b[:pos], append([]byte(j), b[pos:]...)...)
				case 2:
					b[pos] = byte(rng.Intn(256))
				default:
					end := pos + rng.Intn(len(b)-pos)
					b = append(b[:pos], b[end:]...)
				}
			}
			c13check(string(b), form+"-mutated", sx.L(sx.A(form+"-mutated"), sx.A(string(b))), false)
			stat("C13", "byte-mutated")
		}
	}
}
