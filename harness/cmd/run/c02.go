package main

import (
	"bytes"
	"context"
	"encoding/json"
	"fmt"
	"strings"

	pipeline "github.com/buildkite/go-pipeline"
	"github.com/buildkite/go-pipeline/signature"
	"github.com/buildkite/go-pipeline/warning"
	"gopkg.in/yaml.v3"
	"verifharness/sx"
)

func init() {
	props["C02"] = func(rng *sx.Rng, thorough bool) {
		keys := signKeyPool(thorough)
		if thorough {
			c02envBlock(rng, keys, 1500)
		} else {
			c02envBlock(rng, keys, 60)
		}
		n := 400
		if thorough {
			n = 8000
		}
		for i := 0; i < n; i++ {
			g := newDocgen(rng, false)
			g.negZero = true
			penv := g.pipelineEnv()
			g.penvNames = sortedKeys(penv)
			steps := g.signableSteps(3, 4, false)
			if rng.Chance(70) {
				// keep documents without any command step rare
				steps.l = append(steps.l, g.signableStep())
			}
			if i%3 == 0 && len(steps.l) > 0 {
				// (the pipeline is interpolated before it is signed) a mapping under a signed field in which a key
				// written with a variable expands onto another key: the renamed-over entry must not come back in
				// either output format
				last := steps.l[len(steps.l)-1]
				if last.kind == 'm' && (last.has("command") || last.has("commands") || last.has("plugins")) {
					pools := dMap(dkv{"$POOLVAR", dStr("renamed")}, dkv{"vfoo", dStr("literal")})
					if rng.Chance(50) {
						pools = dMap(dkv{"vfoo", dStr("literal")}, dkv{"other", dInt(1)}, dkv{"${POOLVAR}", dStr("renamed")})
					}
					last.set("matrix", dMap(dkv{"setup", dMap(dkv{"os", dList(dStr("linux"), dStr("mac"))})}, dkv{"pools", pools}))
				}
			}
			// some steps arrive with a signature block already in the document (signed earlier, edited since)
			var presign func(l *dv)
			presign = func(l *dv) {
				for _, st := range l.l {
					if st.kind != 'm' {
						continue
					}
					if sub := st.get("steps"); sub != nil && sub.kind == 'l' {
						presign(sub)
					} else if (st.has("command") || st.has("commands") || st.has("plugins")) && rng.Chance(25) {
						st.set("signature", dMap(dkv{"algorithm", dStr(sx.Pick(rng, []string{"EdDSA", "ES256", "PS512"}))}, dkv{"signed_fields", dList(dStr("command"))}, dkv{"value", dStr("c3RhbGU..stale")}))
					}
				}
			}
			presign(steps)
			doc := dMap(dkv{"steps", steps})
			if len(penv) > 0 && rng.Chance(60) {
				e := dMap()
				for _, k := range sortedKeys(penv) {
					e.set(k, dStr(penv[k]))
				}
				doc.set("env", e)
			}
			var b bytes.Buffer
			doc.jsonText(&b)
			text := b.String()
			short := sx.A(text)
			noteCase("C02", text)
			p, err := pipeline.Parse(strings.NewReader(text))
			if err != nil && !warning.Is(err) {
				continue
			}
			repo := "git@example.org:o/r.git"
			ki := i % len(keys)
			key := keys[ki]
			if i%3 == 0 {
				// optionally interpolated first (env references in the generated strings are $FOO / $$X)
				if err := p.Interpolate(&hEnv{m: map[string]string{"FOO": "vfoo", "POOLVAR": "vfoo"}}, false); err != nil {
					continue
				}
			}
			if err := signature.SignSteps(context.Background(), p.Steps, key.priv, repo, signature.WithEnv(penv)); err != nil {
				oracleFail("C02", "sign-error", short, err.Error())
				continue
			}
			verifyEnv := map[string]string{"UNRELATED_A": "1", "BUILDKITE_JOB_ID": "x"}
			for k, v := range penv {
				verifyEnv[k] = v
			}
			checkAll := func(leg string, ss pipeline.Steps) (int, bool) {
				count, ok := 0, true
				var walk func(ss pipeline.Steps)
				walk = func(ss pipeline.Steps) {
					for _, s := range ss {
						switch t := s.(type) {
						case *pipeline.CommandStep:
							count++
							if t.Signature == nil {
								oracleFail("C02", leg+"-signature-lost", short, "command step has no signature after the round trip: "+t.Command)
								ok = false
								continue
							}
							if err := verifyStep(key, t.Signature, t, repo, verifyEnv); err != nil {
								oracleFail("C02", leg+"-verify", short, fmt.Sprintf("signature no longer verifies after the %s round trip: %v (step %q)", leg, err, t.Command))
								ok = false
							}
						case *pipeline.GroupStep:
							walk(t.Steps)
						}
					}
				}
				walk(ss)
				return count, ok
			}
			jb, jerr := json.Marshal(p)
			if jerr != nil {
				continue
			}
			pj, err := pipeline.Parse(bytes.NewReader(jb))
			if err != nil && !warning.Is(err) {
				oracleFail("C02", "json-reparse-error", short, err.Error())
				continue
			}
			// every signed command step must come back as a command step (a step that falls back to an unknown
			// step after the round trip carries a signature nobody can check any more)
			signedBefore, _ := checkAllQuiet(p.Steps)
			cnt, okj := checkAll("json", pj.Steps)
			if cnt != signedBefore {
				oracleFail("C02", "json-command-step-lost", short, fmt.Sprintf("%d command steps were signed, %d command steps come back from the JSON round trip\n%s", signedBefore, cnt, jb))
				okj = false
			}
			// step by step, the way an agent receives a job
			var each func(ss pipeline.Steps)
			each = func(ss pipeline.Steps) {
				for _, s := range ss {
					switch t := s.(type) {
					case *pipeline.CommandStep:
						sb, _ := json.Marshal(t)
						cs := new(pipeline.CommandStep)
						if err := cs.UnmarshalJSON(sb); err != nil {
							oracleFail("C02", "step-unmarshal-error", short, err.Error())
							continue
						}
						if cs.Signature == nil || verifyStep(key, cs.Signature, cs, repo, verifyEnv) != nil {
							oracleFail("C02", "step-verify", short, fmt.Sprintf("CommandStep.UnmarshalJSON of %s does not verify", sb))
						}
					case *pipeline.GroupStep:
						each(t.Steps)
					}
				}
			}
			each(p.Steps)
			// YAML leg (a multi-line string that begins with whitespace makes it fail: known finding F22)
			var outv any
			json.Unmarshal(jb, &outv)
			var strs []string
			collectStrings(outv, &strs)
			excluded := false
			for _, s := range strs {
				if strings.ContainsAny(s, "\n\r  \u0085") && leadingSpace(s) {
					excluded = true
				}
			}
			{
				yb, yerr := yaml.Marshal(p)
				if yerr == nil {
					py, err := pipeline.Parse(bytes.NewReader(yb))
					if err != nil && !warning.Is(err) {
						cls := "yaml-reparse-error"
						if excluded {
							cls = "yaml-indented-block" // known finding F22: yaml.v3 writes such a block scalar wrongly
						}
						oracleFail("C02", cls, short, err.Error()+"\n"+string(yb))
					} else if excluded && projPipeline(py) != projPipeline(p) {
						oracleFail("C02", "yaml-indented-block", short, "a multi-line string that begins with whitespace comes back changed from the YAML leg\n"+string(yb))
					} else {
						if ycnt, _ := checkAll("yaml", py.Steps); ycnt != signedBefore {
							oracleFail("C02", "yaml-command-step-lost", short, fmt.Sprintf("%d command steps were signed, %d command steps come back from the YAML round trip\n%s", signedBefore, ycnt, yb))
						}
						stat("C02", "yaml-leg")
					}
				}
			}
			stat("C02", fmt.Sprintf("steps-%d", cnt))
			// (documents holding -0.0 are oracle-only too: json.Marshal writes -0 where the canonical form has 0, a
			// number token outside the model's num_ok, like integers beyond 2^53)
			if okj && i%3 != 0 && !strings.Contains(text, "-0.0") {
				// model comparison on the JSON leg (the interpolated third is oracle-only)
				ds, _ := docSexp(text)
				vs := sx.List{}
				for k := 0; k < cnt; k++ {
					vs = append(vs, sx.B(true))
				}
				extra := sx.L(sx.L(sx.A("UNRELATED_A"), sx.A("1")), sx.L(sx.A("BUILDKITE_JOB_ID"), sx.A("x")))
				nt := "0"
				if cnt > 0 {
					nt = "1"
				}
				fmt.Fprintf(out, "CASE\tC02\t%s\t%s\t%s\n", sx.String(sx.L(ds, pairsSexp(penv), sx.A(repo), sx.A(fmt.Sprintf("key%d", ki)), extra)), sx.String(sx.L(sx.A("ok"), vs)), nt)
			}
		}
	}
}

// checkAllQuiet counts the command steps of a step tree (all depths)
func checkAllQuiet(ss pipeline.Steps) (int, bool) {
	n := 0
	for _, s := range ss {
		switch t := s.(type) {
		case *pipeline.CommandStep:
			n++
		case *pipeline.GroupStep:
			m, _ := checkAllQuiet(t.Steps)
			n += m
		}
	}
	return n, true
}

// c02envBlock: the pipeline's OWN env block is the signing env (interpolated first, handed over as a plain map, the
// way an uploader does it), and the env block of the re-parsed pipeline is the verification env. Names written with a
// variable may expand onto names written literally elsewhere in the block.
func c02envBlock(rng *sx.Rng, keys []signKey, n int) {
	for i := 0; i < n; i++ {
		g := newDocgen(rng, false)
		e := dMap()
		entries := []dkv{{"${WHICH}", dStr("from the template")}, {"TARGET", dStr("literal")}, {"PLAIN", dStr("p $FOO")}, {"${OTHER}_X", dStr("x")}, {"B_X", dStr("literal x")}}
		for j := len(entries) - 1; j > 0; j-- {
			k := rng.Intn(j + 1)
			entries[j], entries[k] = entries[k], entries[j]
		}
		for _, en := range entries {
			if rng.Chance(80) {
				e.m = append(e.m, en)
			}
		}
		steps := dList(g.signableStep(), dMap(dkv{"group", dStr("g")}, dkv{"steps", dList(g.signableStep())}))
		doc := dMap(dkv{"env", e}, dkv{"steps", steps})
		var b bytes.Buffer
		doc.jsonText(&b)
		text := b.String()
		short := sx.L(sx.A("own-env-block"), sx.A(text))
		noteCase("C02", text)
		p, err := pipeline.Parse(strings.NewReader(text))
		if err != nil && !warning.Is(err) {
			oracleFail("C02", "document-rejected", short, err.Error())
			continue
		}
		if err := p.Interpolate(&hEnv{m: map[string]string{"FOO": "vfoo", "WHICH": "TARGET", "OTHER": "B"}}, false); err != nil {
			continue // a generated step string may hold a reference that fails; not this scenario's concern
		}
		signEnv := p.Env.ToMap()
		ranged := map[string]string{}
		p.Env.Range(func(k, v string) error { ranged[k] = v; return nil })
		if fmt.Sprint(signEnv) != fmt.Sprint(ranged) {
			oracleFail("C02", "env-block-as-map", short, fmt.Sprintf("the interpolated env block as a plain map is %v, its entries are %v", signEnv, ranged))
			continue
		}
		key := keys[i%len(keys)]
		repo := "git@example.org:o/r.git"
		if err := signature.SignSteps(context.Background(), p.Steps, key.priv, repo, signature.WithEnv(signEnv)); err != nil {
			oracleFail("C02", "sign-error", short, err.Error())
			continue
		}
		jb, _ := json.Marshal(p)
		yb, _ := yaml.Marshal(p)
		bad := false
		for leg, data := range map[string][]byte{"json": jb, "yaml": yb} {
			p2, err := pipeline.Parse(bytes.NewReader(data))
			if err != nil && !warning.Is(err) {
				if leg == "yaml" {
					continue // F22 / F7 classes are reported by the main scenario
				}
				oracleFail("C02", leg+"-reparse-error", short, err.Error())
				bad = true
				break
			}
			venv := map[string]string{"UNRELATED_A": "1"}
			if p2.Env != nil {
				p2.Env.Range(func(k, v string) error { venv[k] = v; return nil })
			}
			var walk func(ss pipeline.Steps)
			walk = func(ss pipeline.Steps) {
				for _, st := range ss {
					switch t := st.(type) {
					case *pipeline.CommandStep:
						if t.Signature == nil {
							oracleFail("C02", leg+"-signature-lost", short, "command step without signature after the round trip")
							bad = true
						} else if err := verifyStep(key, t.Signature, t, repo, venv); err != nil && !bad {
							oracleFail("C02", leg+"-verify", short, fmt.Sprintf("signed with the pipeline's own env block %v, verified after the %s round trip with the re-parsed block %v: %v", signEnv, leg, venv, err))
							bad = true
						}
					case *pipeline.GroupStep:
						walk(t.Steps)
					}
				}
			}
			walk(p2.Steps)
			if bad {
				break
			}
		}
		if !bad {
			stat("C02", "own-env-block")
		}
	}
}
