package main

import (
	"context"
	"crypto/ecdsa"
	"crypto/ed25519"
	"crypto/elliptic"
	"crypto/rand"
	"crypto/rsa"
	"encoding/json"
	"fmt"
	"os"
	"path/filepath"
	"strings"

	pipeline "github.com/buildkite/go-pipeline"
	"github.com/buildkite/go-pipeline/jwkutil"
	"github.com/buildkite/go-pipeline/signature"
	"github.com/lestrrat-go/jwx/v2/jwa"
	"github.com/lestrrat-go/jwx/v2/jwk"
	"verifharness/sx"
)

type c18key struct {
	key jwk.Key
	kty string
}

func c18rawKeys() map[string]func() jwk.Key {
	rsaPriv, _ := rsa.GenerateKey(rand.Reader, 2048)
	ecPriv, _ := ecdsa.GenerateKey(elliptic.P521(), rand.Reader)
	_, edPriv, _ := ed25519.GenerateKey(rand.Reader)
	mk := func(raw any) func() jwk.Key {
		return func() jwk.Key {
			k, err := jwk.FromRaw(raw)
			if err != nil {
				panic(err)
			}
			return k
		}
	}
	return map[string]func() jwk.Key{
		"RSA": mk(rsaPriv), "EC": mk(ecPriv), "OKP": mk(edPriv), "oct": mk([]byte("0123456789abcdef0123456789abcdef")),
		"RSA-pub": mk(&rsaPriv.PublicKey), "EC-pub": mk(&ecPriv.PublicKey), "OKP-pub": mk(edPriv.Public()),
		"RSA-invalid": func() jwk.Key { k := mk(&rsaPriv.PublicKey)(); k.Remove(jwk.RSANKey); return k },
		"EC-invalid":  func() jwk.Key { k := mk(&ecPriv.PublicKey)(); k.Remove(jwk.ECDSAXKey); return k },
	}
}

// keyinfo as the model sees it; everything here is the JOSE library's judgement
func c18info(k jwk.Key) sx.S {
	_, has := k.Get(jwk.AlgorithmKey)
	_, isSig := k.Algorithm().(jwa.SignatureAlgorithm)
	return sx.L(sx.B(k.Validate() == nil), sx.B(has), sx.B(isSig), sx.A(k.Algorithm().String()), sx.A(k.KeyType().String()))
}

func c18want(k jwk.Key) bool {
	if k.Validate() != nil {
		return false
	}
	if _, has := k.Get(jwk.AlgorithmKey); !has {
		return false
	}
	a := k.Algorithm().String()
	if _, isSig := k.Algorithm().(jwa.SignatureAlgorithm); !isSig {
		return false
	}
	switch k.KeyType() {
	case jwa.RSA:
		return a == "PS512"
	case jwa.EC:
		return a == "ES512"
	case jwa.OKP:
		return a == "EdDSA"
	}
	return false
}

func init() {
	props["C18"] = func(rng *sx.Rng, thorough bool) {
		raws := c18rawKeys()
		var algs []string
		for _, a := range jwa.SignatureAlgorithms() {
			algs = append(algs, a.String())
		}
		for _, a := range jwa.KeyEncryptionAlgorithms() {
			algs = append(algs, a.String())
		}
		for _, a := range jwa.ContentEncryptionAlgorithms() {
			algs = append(algs, a.String())
		}
		algs = append(algs, "none", "bogus", "ps512", "PS512 ", "EdDSA\n", "ES512", "PS512", "EdDSA", "")
		kinds := sortedKeys(raws)
		// ---- Validate: exhaustive (key kind) x (algorithm name | missing)
		for _, kind := range kinds {
			for ai := -1; ai < len(algs); ai++ {
				k := raws[kind]()
				algName := "<missing>"
				if ai >= 0 {
					algName = algs[ai]
					if err := k.Set(jwk.AlgorithmKey, algs[ai]); err != nil {
						stat("C18", "alg-set-rejected-by-jwx")
						continue
					}
				}
				err := jwkutil.Validate(k)
				c := sx.L(sx.A("validate"), c18info(k))
				if (err == nil) != c18want(k) {
					oracleFail("C18", "validate", sx.L(c, sx.A(kind), sx.A(algName)), fmt.Sprintf("Validate err=%v but the allow-list says ok=%v", err, c18want(k)))
					continue
				}
				obs := "reject"
				if err == nil {
					obs = "ok"
					stat("C18", "validate-ok")
				} else {
					stat("C18", "validate-reject")
				}
				fmt.Fprintf(out, "CASE\tC18\t%s\t%s\t1\n", sx.String(c), sx.String(sx.A(obs)))
			}
		}
		// ---- generated key pairs validate, and sign/verify only with the matching public key
		type pair struct {
			alg       jwa.SignatureAlgorithm
			priv, pub jwk.Set
		}
		var pairs []pair
		genAlgs := []jwa.SignatureAlgorithm{jwa.EdDSA, jwa.ES512}
		if thorough {
			genAlgs = append(genAlgs, jwa.PS512, jwa.EdDSA, jwa.ES512, jwa.PS512)
		} else {
			genAlgs = append(genAlgs, jwa.PS512, jwa.EdDSA)
		}
		for i, a := range genAlgs {
			priv, pub, err := jwkutil.NewKeyPair(fmt.Sprintf("kid%d", i), a)
			if err != nil {
				oracleFail("C18", "generate", sx.A(a.String()), err.Error())
				continue
			}
			for _, set := range []jwk.Set{priv, pub} {
				k, _ := set.Key(0)
				if err := jwkutil.Validate(k); err != nil {
					oracleFail("C18", "generated-key-invalid", sx.A(a.String()), err.Error())
				}
				fmt.Fprintf(out, "CASE\tC18\t%s\t%s\t1\n", sx.String(sx.L(sx.A("validate"), c18info(k))), sx.String(sx.A("ok")))
			}
			pairs = append(pairs, pair{a, priv, pub})
		}
		// generated keys carry what was asked for, whatever the key id (also none) and on every run (the attributes
		// are set from a Go map, so repeat): algorithm, use=sig, key id; both halves validate
		for _, a := range []jwa.SignatureAlgorithm{jwa.EdDSA, jwa.ES512, jwa.PS512} {
			reps := 24
			if a == jwa.PS512 {
				reps = 3
				if thorough {
					reps = 12
				}
			}
			for r := 0; r < reps; r++ {
				id := []string{"", "", "k", "a b"}[r%4]
				priv, pub, err := jwkutil.NewKeyPair(id, a)
				c := sx.L(sx.A("generate"), sx.A(a.String()), sx.A(id))
				if err != nil {
					oracleFail("C18", "generate", c, err.Error())
					break
				}
				bad := ""
				for hi, set := range []jwk.Set{priv, pub} {
					k, ok := set.Key(0)
					if !ok || set.Len() != 1 {
						bad = "not a singleton set"
						break
					}
					if err := jwkutil.Validate(k); err != nil {
						bad = fmt.Sprintf("half %d does not validate: %v", hi, err)
					}
					if k.Algorithm().String() != a.String() || k.KeyUsage() != "sig" || k.KeyID() != id {
						bad = fmt.Sprintf("half %d has alg=%q use=%q kid=%q, asked for alg=%q use=sig kid=%q", hi, k.Algorithm(), k.KeyUsage(), k.KeyID(), a, id)
					}
				}
				if bad != "" {
					oracleFail("C18", "generated-key-attributes", c, bad)
					break
				}
				stat("C18", "generated-checked")
			}
		}
		// two generated keys are two keys, also when they carry the same key id (key lookup goes by id, so only
		// then does the key material itself decide): what one signs, the other's public half rejects
		{
			stp := &signature.CommandStepWithInvariants{CommandStep: pipeline.CommandStep{Command: "echo same kid"}, RepositoryURL: "repo"}
			for _, a := range []jwa.SignatureAlgorithm{jwa.EdDSA, jwa.ES512, jwa.PS512} {
				privA, pubA, e1 := jwkutil.NewKeyPair("same-id", a)
				privB, pubB, e2 := jwkutil.NewKeyPair("same-id", a)
				c := sx.L(sx.A("same-kid-pairs"), sx.A(a.String()))
				if e1 != nil || e2 != nil {
					oracleFail("C18", "generate", c, fmt.Sprint(e1, e2))
					continue
				}
				ka, _ := privA.Key(0)
				kb, _ := privB.Key(0)
				sa, ea := signature.Sign(context.Background(), ka, stp)
				sb2, eb := signature.Sign(context.Background(), kb, stp)
				if ea != nil || eb != nil {
					oracleFail("C18", "sign", c, fmt.Sprint(ea, eb))
					continue
				}
				okAA := signature.Verify(context.Background(), sa, pubA, stp) == nil
				okBB := signature.Verify(context.Background(), sb2, pubB, stp) == nil
				okAB := signature.Verify(context.Background(), sa, pubB, stp) == nil
				okBA := signature.Verify(context.Background(), sb2, pubA, stp) == nil
				if !okAA || !okBB || okAB || okBA {
					oracleFail("C18", "cross-verify", c, fmt.Sprintf("two %s keys generated with the same key id: own halves verify %v %v (want true true), each other's %v %v (want false false)", a, okAA, okBB, okAB, okBA))
					continue
				}
				stat("C18", "same-kid-pairs")
			}
		}
		// ... also for a step that has an env of its own, signed and verified together with a pipeline env that the
		// step's env partly shadows (repeated: Go walks the env map in a different order each time)
		{
			stp := &signature.CommandStepWithInvariants{CommandStep: pipeline.CommandStep{Command: "echo env", Env: map[string]string{"SHADOWED": "step", "OWN": "1", "BLANKED": ""}}, RepositoryURL: "repo"}
			penv := map[string]string{"SHADOWED": "pipeline", "BLANKED": "pipeline", "PIPE_A": "a", "PIPE_B": "b", "PIPE_C": "c"}
			for _, a := range []jwa.SignatureAlgorithm{jwa.EdDSA, jwa.ES512} {
				priv, pub, err := jwkutil.NewKeyPair("env-kid", a)
				if err != nil {
					continue
				}
				k0, _ := priv.Key(0)
				bad := ""
				for rep := 0; rep < 25 && bad == ""; rep++ {
					sg, serr := signature.Sign(context.Background(), k0, stp, signature.WithEnv(penv))
					if serr != nil {
						bad = "sign: " + serr.Error()
						break
					}
					if verr := signature.Verify(context.Background(), sg, pub, stp, signature.WithEnv(penv)); verr != nil {
						bad = fmt.Sprintf("run %d: what the generated private key signed does not verify with its public half: %v", rep, verr)
					}
				}
				if bad != "" {
					oracleFail("C18", "own-key-rejected", sx.L(sx.A("step-env-and-pipeline-env"), sx.A(a.String())), bad)
				} else {
					stat("C18", "verify-with-envs")
				}
			}
		}
		// the library's own generator also makes symmetric keys (for tests): every one of them is rejected by
		// validation; and for any other algorithm it either refuses or gives keys that validation rejects
		for _, id := range []string{"", "sym", "a b"} {
			for _, mk := range []struct {
				what string
				f    func() (jwk.Set, jwk.Set, error)
			}{
				{"NewKeyPair(HS512)", func() (jwk.Set, jwk.Set, error) { return jwkutil.NewKeyPair(id, jwa.HS512) }},
				{"NewSymmetricKeyPairFromString(HS512)", func() (jwk.Set, jwk.Set, error) {
					return jwkutil.NewSymmetricKeyPairFromString(id, "a shared secret of some length", jwa.HS512)
				}},
				{"NewSymmetricKeyPairFromString(HS256)", func() (jwk.Set, jwk.Set, error) {
					return jwkutil.NewSymmetricKeyPairFromString(id, "k", jwa.HS256)
				}},
				{"NewKeyPair(RS256)", func() (jwk.Set, jwk.Set, error) { return jwkutil.NewKeyPair(id, jwa.RS256) }},
				{"NewKeyPair(ES256)", func() (jwk.Set, jwk.Set, error) { return jwkutil.NewKeyPair(id, jwa.ES256) }},
				{"NewKeyPair(HS256)", func() (jwk.Set, jwk.Set, error) { return jwkutil.NewKeyPair(id, jwa.HS256) }},
				{"NewKeyPair(none)", func() (jwk.Set, jwk.Set, error) { return jwkutil.NewKeyPair(id, jwa.NoSignature) }},
			} {
				c := sx.L(sx.A("generate-unapproved"), sx.A(mk.what), sx.A(id))
				var a, b jwk.Set
				var err error
				panicked := ""
				func() {
					defer func() {
						if r := recover(); r != nil {
							panicked = fmt.Sprint(r)
						}
					}()
					a, b, err = mk.f()
				}()
				if panicked != "" {
					oracleFail("C18", "panic", c, panicked)
					continue
				}
				if err != nil {
					stat("C18", "unapproved-generation-refused")
					continue
				}
				for _, set := range []jwk.Set{a, b} {
					for ki := 0; set != nil && ki < set.Len(); ki++ {
						k, _ := set.Key(ki)
						if verr := jwkutil.Validate(k); verr == nil {
							oracleFail("C18", "unapproved-key-validates", c, fmt.Sprintf("%s gives a key of type %s with algorithm %s that passes validation", mk.what, k.KeyType(), k.Algorithm()))
						}
						fmt.Fprintf(out, "CASE\tC18\t%s\t%s\t1\n", sx.String(sx.L(sx.A("validate"), c18info(k))), sx.String(sx.A("reject")))
					}
				}
				stat("C18", "unapproved-generated-rejected")
			}
		}
		step := &signature.CommandStepWithInvariants{CommandStep: pipeline.CommandStep{Command: "echo c18"}, RepositoryURL: "repo"}
		for i, p := range pairs {
			sk, _ := p.priv.Key(0)
			sig, err := signature.Sign(context.Background(), sk, step)
			if err != nil {
				oracleFail("C18", "sign", sx.A(p.alg.String()), err.Error())
				continue
			}
			for j, q := range pairs {
				err := signature.Verify(context.Background(), sig, q.pub, step)
				if (err == nil) != (i == j) {
					oracleFail("C18", "cross-verify", sx.L(sx.N(i), sx.N(j)), fmt.Sprintf("signed with key %d (%s), verified with public key %d (%s): err=%v", i, p.alg, j, q.alg, err))
				}
				stat("C18", "cross-verify")
			}
		}
		// ---- LoadKey over small key sets x requested ids
		tmpdir := filepath.Join("..", "build", "tmp")
		os.MkdirAll(tmpdir, 0o755)
		type member struct {
			kind, alg, kid string
		}
		pool := []member{
			{"OKP", "EdDSA", "a"}, {"OKP", "EdDSA", "b"}, {"EC", "ES512", "a"}, {"RSA", "PS512", "c"},
			{"oct", "HS512", "a"}, {"EC", "ES256", "b"}, {"RSA", "RS256", "c"}, {"OKP", "", "a"}, {"OKP", "EdDSA", ""},
		}
		ids := []string{"", "a", "b", "c", "zz"}
		var sets [][]member
		sets = append(sets, nil)
		for _, a := range pool {
			sets = append(sets, []member{a})
			for _, b := range pool {
				sets = append(sets, []member{a, b})
			}
		}
		nTriples := 60
		if thorough {
			nTriples = 729
		}
		for i := 0; i < nTriples; i++ {
			if thorough {
				sets = append(sets, []member{pool[i/81%9], pool[i/9%9], pool[i%9]})
			} else {
				sets = append(sets, []member{sx.Pick(rng, pool), sx.Pick(rng, pool), sx.Pick(rng, pool)})
			}
		}
		for si, ms := range sets {
			set := jwk.NewSet()
			infos := sx.List{}
			for n, m := range ms {
				k := raws[m.kind]()
				if m.alg != "" {
					k.Set(jwk.AlgorithmKey, m.alg)
				}
				if m.kid != "" {
					k.Set(jwk.KeyIDKey, m.kid)
				}
				k.Set("n_index", n)
				if si%5 == 3 {
					// key-set files have no size limit: a long private field makes the file large
					k.Set("x-note", strings.Repeat("note ", 4000))
				}
				if err := set.AddKey(k); err != nil {
					// jwx refuses duplicate identical keys: make the key distinct by its private field
					continue
				}
				infos = append(infos, sx.L(sx.A(m.kid), c18info(k)))
			}
			b, _ := json.Marshal(set)
			path := filepath.Join(tmpdir, fmt.Sprintf("c18-%d.json", si))
			os.WriteFile(path, b, 0o600)
			for _, id := range ids {
				c := sx.L(sx.A("load"), infos, sx.A(id))
				k, err := jwkutil.LoadKey(path, id)
				obs := sx.L(sx.A("err"))
				if err == nil {
					idx, _ := k.Get("n_index")
					obs = sx.L(sx.A("ok"), sx.A(fmt.Sprint(idx)))
					stat("C18", "load-ok")
					if verr := jwkutil.Validate(k); verr != nil {
						oracleFail("C18", "load-unvalidated", c, "LoadKey returned a key that does not validate: "+verr.Error())
					}
					if id != "" && k.KeyID() != id {
						oracleFail("C18", "load-wrong-id", c, fmt.Sprintf("asked for %q got %q", id, k.KeyID()))
					}
					if id == "" && set.Len() != 1 {
						oracleFail("C18", "load-ambiguous", c, "no id requested from a set that is not a singleton, but a key was returned")
					}
				} else {
					stat("C18", "load-err")
					// completeness, from the property text: the key with the requested id (or the only key when no
					// id is given) is returned when it is an approved key
					var wantKey jwk.Key
					if id == "" {
						if set.Len() == 1 {
							wantKey, _ = set.Key(0)
						}
					} else {
						for ki := 0; ki < set.Len(); ki++ {
							if k2, _ := set.Key(ki); k2.KeyID() == id {
								wantKey = k2
								break
							}
						}
					}
					if wantKey != nil && c18want(wantKey) {
						oracleFail("C18", "load-rejected", c, fmt.Sprintf("the key set (%d bytes) holds an approved key for this request, yet LoadKey fails: %v", len(b), err))
					}
				}
				fmt.Fprintf(out, "CASE\tC18\t%s\t%s\t1\n", sx.String(c), sx.String(obs))
			}
			os.Remove(path)
			// the same file with one more entry that is not a valid key: "fails for ... invalid keys" - a key set
			// that cannot be read as a whole must not yield a key, whichever id is asked for
			if len(ms) >= 1 && len(ms) <= 2 && si%2 == 0 {
				var doc map[string]any
				if json.Unmarshal(b, &doc) == nil {
					keysArr, _ := doc["keys"].([]any)
					broken := sx.Pick(rng, []map[string]any{
						{"kty": "EC", "crv": "P-521", "kid": "zz"},
						{"kty": "OKP", "crv": "Ed25519", "kid": "zz"},
						{"kty": "future-kty", "kid": "zz", "alg": "EdDSA"},
						{"kty": "RSA", "kid": "zz", "e": "AQAB"},
					})
					if rng.Chance(50) {
						doc["keys"] = append([]any{broken}, keysArr...)
					} else {
						doc["keys"] = append(keysArr, broken)
					}
					b2, _ := json.Marshal(doc)
					path2 := filepath.Join(tmpdir, fmt.Sprintf("c18-%d-broken.json", si))
					os.WriteFile(path2, b2, 0o600)
					for _, id := range ids {
						if k, err := jwkutil.LoadKey(path2, id); err == nil {
							oracleFail("C18", "load-broken-set-accepted", sx.L(sx.A(string(b2)), sx.A(id)), fmt.Sprintf("the key set has an entry that is not a valid key, yet LoadKey returned key %q", k.KeyID()))
						} else {
							stat("C18", "load-broken-set-rejected")
						}
					}
					os.Remove(path2)
				}
			}
		}
	}
}
