package main

import (
	"bytes"
	"context"
	"encoding/json"
	"fmt"
	"math"
	"sort"
	"strings"

	pipeline "github.com/buildkite/go-pipeline"
	"github.com/buildkite/go-pipeline/signature"
	"github.com/buildkite/go-pipeline/warning"
	"verifharness/sx"
)

func (g *docgen) signableSteps(depth, max int, allowUnknown bool) *dv {
	l := dList()
	for k := g.rng.Intn(max + 1); k > 0; k-- {
		r := g.rng.Intn(100)
		switch {
		case r < 45:
			l.l = append(l.l, g.signableStep())
		case r < 55:
			l.l = append(l.l, dStr(sx.Pick(g.rng, []string{"wait", "block", "input"})))
		case r < 62:
			l.l = append(l.l, dMap(dkv{"trigger", dStr("other")}))
		case r < 68:
			l.l = append(l.l, dMap(dkv{"block", dStr("ok?")}, dkv{"prompt", dStr("p")}))
		case r < 90 && depth > 0:
			l.l = append(l.l, dMap(dkv{"group", dStr("g")}, dkv{"steps", g.signableSteps(depth-1, 3, allowUnknown)}))
		default:
			if allowUnknown {
				l.l = append(l.l, sx.Pick(g.rng, []*dv{dStr("frobnicate"), dMap(dkv{"mystery", dInt(1)}), dMap(dkv{"type", dStr("future")})}))
			} else {
				l.l = append(l.l, g.signableStep())
			}
		}
	}
	return l
}

func eraseSigs(ss pipeline.Steps) {
	for _, s := range ss {
		switch t := s.(type) {
		case *pipeline.CommandStep:
			t.Signature = nil
		case *pipeline.GroupStep:
			eraseSigs(t.Steps)
		}
	}
}

func hasUnknownDeep(ss pipeline.Steps) bool {
	for _, s := range ss {
		switch t := s.(type) {
		case *pipeline.UnknownStep:
			return true
		case *pipeline.GroupStep:
			if hasUnknownDeep(t.Steps) {
				return true
			}
		}
	}
	return false
}

// c06nilDims gives every map-form matrix a further dimension whose value list is nil (not something a parsed
// document contains; an API user can build it)
func c06nilDims(ss pipeline.Steps, shadow bool) {
	for _, s := range ss {
		switch t := s.(type) {
		case *pipeline.CommandStep:
			if t.Matrix != nil && t.Matrix.Setup != nil {
				if _, anonymous := t.Matrix.Setup[""]; !anonymous || len(t.Matrix.Setup) > 1 {
					t.Matrix.Setup["zz_nil_dimension"] = nil
					// ... and unknown fields that carry the name of a typed field (the typed field is what counts;
					// JSON only - yaml.v3 refuses such a struct)
					if !shadow {
						continue
					}
					if t.Matrix.RemainingFields == nil {
						t.Matrix.RemainingFields = map[string]any{}
					}
					t.Matrix.RemainingFields["setup"] = "shadowed by the typed field"
					for _, ad := range t.Matrix.Adjustments {
						if ad != nil {
							if ad.RemainingFields == nil {
								ad.RemainingFields = map[string]any{}
							}
							ad.RemainingFields["with"] = "shadowed by the typed field"
						}
					}
				}
			}
		case *pipeline.GroupStep:
			c06nilDims(t.Steps, shadow)
		}
	}
}

func init() {
	props["C06"] = func(rng *sx.Rng, thorough bool) {
		keys := signKeyPool(thorough)
		n := 400
		if thorough {
			n = 10000
		}
		for i := 0; i < n; i++ {
			g := newDocgen(rng, false)
			penv := g.pipelineEnv()
			g.penvNames = sortedKeys(penv)
			doc := dMap(dkv{"steps", g.signableSteps(4, 5, i%2 == 0)})
			var b bytes.Buffer
			doc.jsonText(&b)
			text := b.String()
			noteCase("C06", text)
			p, err := pipeline.Parse(strings.NewReader(text))
			if err != nil && !warning.Is(err) {
				continue
			}
			penvBefore := fmt.Sprint(penv)
			repo := "git@example.org:o/r.git"
			ki := i % len(keys)
			key := keys[ki]
			// the env may be handed over in several options: none of the caller's maps is written to, and what was
			// signed verifies under the union of them
			if i%4 == 1 && len(penv) > 0 {
				if p3, err3 := pipeline.Parse(strings.NewReader(text)); (err3 == nil || warning.Is(err3)) && !hasUnknownDeep(p3.Steps) {
					ea, eb, all := map[string]string{}, map[string]string{}, map[string]string{}
					for j, k := range sortedKeys(penv) {
						if j%2 == 0 {
							ea[k] = penv[k]
						} else {
							eb[k] = penv[k]
						}
						all[k] = penv[k]
					}
					if rng.Chance(50) {
						eb["SHARED_NAME"], ea["SHARED_NAME"], all["SHARED_NAME"] = "from b", "from a", "from b"
					}
					sa, sb := fmt.Sprint(ea), fmt.Sprint(eb)
					var serr3 error
					func() {
						defer func() {
							if r := recover(); r != nil {
								serr3 = fmt.Errorf("panic: %v", r)
							}
						}()
						serr3 = signature.SignSteps(context.Background(), p3.Steps, key.priv, repo, signature.WithEnv(ea), signature.WithEnv(eb))
					}()
					ce := sx.L(sx.A("two-env-options"), sx.A(text), sx.A(sa), sx.A(sb))
					if serr3 != nil {
						oracleFail("C06", "two-env-options", ce, "SignSteps: "+serr3.Error())
					} else if fmt.Sprint(ea) != sa || fmt.Sprint(eb) != sb {
						oracleFail("C06", "env-modified", ce, fmt.Sprintf("SignSteps modified an env map it was given: %s -> %v, %s -> %v", sa, ea, sb, eb))
					} else {
						var bad3 string
						var walk3 func(ss pipeline.Steps)
						walk3 = func(ss pipeline.Steps) {
							for _, s := range ss {
								switch t := s.(type) {
								case *pipeline.CommandStep:
									if t.Signature == nil {
										bad3 = "unsigned command step"
									} else if verr := verifyStep(key, t.Signature, t, repo, all); verr != nil {
										bad3 = verr.Error()
									}
								case *pipeline.GroupStep:
									walk3(t.Steps)
								}
							}
						}
						walk3(p3.Steps)
						if bad3 != "" {
							oracleFail("C06", "two-env-options", ce, "a step signed with the env given in two options does not verify under their union: "+bad3)
						} else {
							stat("C06", "two-env-options")
						}
					}
				}
			}
			// a command step that cannot be signed (its plugin config holds a value with no JSON form), somewhere in
			// the list: success would promise a verifying signature on every command step, so signing must refuse
			if i%8 == 3 {
				if p2, err2 := pipeline.Parse(strings.NewReader(text)); (err2 == nil || warning.Is(err2)) && !hasUnknownDeep(p2.Steps) {
					var cmds []*pipeline.CommandStep
					var collect func(ss pipeline.Steps)
					collect = func(ss pipeline.Steps) {
						for _, s := range ss {
							switch t := s.(type) {
							case *pipeline.CommandStep:
								cmds = append(cmds, t)
							case *pipeline.GroupStep:
								collect(t.Steps)
							}
						}
					}
					collect(p2.Steps)
					if len(cmds) > 0 {
						victim := cmds[rng.Intn(len(cmds))]
						victim.Plugins = append(victim.Plugins, &pipeline.Plugin{Source: "unsignable#v1", Config: map[string]any{"ratio": math.NaN()}})
						var serr2 error
						func() {
							defer func() {
								if r := recover(); r != nil {
									serr2 = fmt.Errorf("panic: %v", r)
								}
							}()
							serr2 = signature.SignSteps(context.Background(), p2.Steps, key.priv, repo, signature.WithEnv(penv))
						}()
						cu := sx.L(sx.A("unsignable-step"), sx.A(text), sx.A(victim.Command))
						if serr2 == nil {
							oracleFail("C06", "unsignable-step-accepted", cu, fmt.Sprintf("SignSteps succeeded although the command step %q cannot be signed (signature: %v)", victim.Command, victim.Signature))
						} else if strings.HasPrefix(serr2.Error(), "panic") {
							oracleFail("C06", "panic", cu, serr2.Error())
						} else {
							stat("C06", "unsignable-refused")
						}
					}
				}
			}
			ds, _ := docSexp(text)
			c := sx.L(ds, pairsSexp(penv), sx.A(repo), sx.A(fmt.Sprintf("key%d", ki)))
			// the steps as Go values before anything observes them (deep dump, unexported fields included): signing
			// may attach signatures and nothing else - also nothing that marshals the same afterwards
			// (one case in four: matrices as an API user may build them, with a dimension whose value list is nil)
			apiBuilt := i%4 == 2
			if apiBuilt {
				c06nilDims(p.Steps, true)
			}
			snapBefore := c19snapshot(p.Steps)
			var before []byte
			if p0, err0 := pipeline.Parse(strings.NewReader(text)); err0 == nil || warning.Is(err0) {
				if apiBuilt {
					c06nilDims(p0.Steps, true)
				}
				before, _ = json.Marshal(p0.Steps)
			}
			// some steps arrive already signed (an earlier signing with another key of the same algorithm, or a stale
			// pipeline): signing must replace those signatures too
			var stale func(ss pipeline.Steps)
			stale = func(ss pipeline.Steps) {
				for _, s := range ss {
					switch t := s.(type) {
					case *pipeline.CommandStep:
						if rng.Chance(25) {
							t.Signature = &pipeline.Signature{Algorithm: sx.Pick(rng, []string{key.alg, key.alg, "HS512"}), SignedFields: []string{"command"}, Value: "c3RhbGU.stale.sig"}
						}
					case *pipeline.GroupStep:
						stale(t.Steps)
					}
				}
			}
			stale(p.Steps)
			unknown := hasUnknownDeep(p.Steps)
			var serr error
			panicked := ""
			func() {
				defer func() {
					if r := recover(); r != nil {
						panicked = fmt.Sprint(r)
					}
				}()
				serr = signature.SignSteps(context.Background(), p.Steps, key.priv, repo, signature.WithEnv(penv))
			}()
			if panicked != "" {
				oracleFail("C06", "panic", c, panicked)
				continue
			}
			if fmt.Sprint(penv) != penvBefore {
				oracleFail("C06", "env-modified", c, "SignSteps modified the caller's env map")
				continue
			}
			if unknown != (serr != nil) {
				oracleFail("C06", "refusal", c, fmt.Sprintf("unknown step present=%v but SignSteps err=%v", unknown, serr))
				continue
			}
			if serr != nil {
				stat("C06", "refused")
				fmt.Fprintf(out, "CASE\tC06\t%s\t%s\t1\n", sx.String(c), sx.String(sx.L(sx.A("refused"))))
				continue
			}
			// every command step at every depth carries a verifying signature with the right field list
			sigs := sx.List{}
			bad := ""
			var walk func(ss pipeline.Steps)
			walk = func(ss pipeline.Steps) {
				for _, s := range ss {
					switch t := s.(type) {
					case *pipeline.CommandStep:
						if t.Signature == nil {
							bad = "command step without signature: " + t.Command
							sigs = append(sigs, sx.A("unsigned"))
							continue
						}
						want := []string{"command", "env", "plugins", "matrix", "repository_url"}
						for k := range penv {
							if _, shadow := t.Env[k]; !shadow {
								want = append(want, "env::"+k)
							}
						}
						sort.Strings(want)
						if fmt.Sprint(want) != fmt.Sprint(t.Signature.SignedFields) {
							bad = fmt.Sprintf("signed fields %v want %v", t.Signature.SignedFields, want)
						}
						if t.Signature.Algorithm != key.alg {
							bad = "algorithm " + t.Signature.Algorithm
						}
						verr := verifyStep(key, t.Signature, t, repo, penv)
						if verr != nil {
							bad = "signature does not verify: " + verr.Error()
						}
						fl := sx.List{}
						for _, f := range t.Signature.SignedFields {
							fl = append(fl, sx.A(f))
						}
						sigs = append(sigs, sx.L(sx.A(fmt.Sprintf("key%d", ki)), fl, sx.B(verr == nil)))
					case *pipeline.GroupStep:
						walk(t.Steps)
					}
				}
			}
			walk(p.Steps)
			if bad != "" {
				oracleFail("C06", "signature", c, bad)
				continue
			}
			eraseSigs(p.Steps)
			if snapAfter := c19snapshot(p.Steps); snapAfter != snapBefore {
				oracleFail("C06", "frame-deep", c, "signing changed the steps beyond attaching signatures (deep comparison of the Go values):\n"+firstDiff(snapBefore, snapAfter))
				continue
			}
			after, _ := json.Marshal(p.Steps)
			if !bytes.Equal(before, after) {
				oracleFail("C06", "frame", c, fmt.Sprintf("signing changed more than signatures:\n%s\n%s", before, after))
				continue
			}
			stat("C06", fmt.Sprintf("signed-%d-steps", len(sigs)))
			nt := "0"
			if len(sigs) > 1 {
				nt = "1"
			}
			fmt.Fprintf(out, "CASE\tC06\t%s\t%s\t%s\n", sx.String(c), sx.String(sx.L(sx.A("signed"), sigs, sx.B(true))), nt)
		}
	}
}

// firstDiff shows the neighbourhood of the first difference between two dumps
func firstDiff(a, b string) string {
	i := 0
	for i < len(a) && i < len(b) && a[i] == b[i] {
		i++
	}
	lo := i - 200
	if lo < 0 {
		lo = 0
	}
	hiA, hiB := i+200, i+200
	if hiA > len(a) {
		hiA = len(a)
	}
	if hiB > len(b) {
		hiB = len(b)
	}
	return "before: ..." + a[lo:hiA] + "\nafter : ..." + b[lo:hiB]
}
