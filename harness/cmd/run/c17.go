package main

import (
	"encoding/json"
	"fmt"
	"regexp"
	"strings"

	"gopkg.in/yaml.v3"

	pipeline "github.com/buildkite/go-pipeline"
	"github.com/buildkite/go-pipeline/warning"
	"verifharness/sx"
)

func c17full(s string) string { return (&pipeline.Plugin{Source: s}).FullSource() }

// refOK: every '/'-separated component of the ref is non-empty and not dot-only
// (the property puts other refs outside the documented forms).
func c17refOK(s string) bool {
	_, ref, has := strings.Cut(s, "#")
	if !has {
		return true
	}
	for _, c := range strings.Split(ref, "/") {
		if c == "" || c == "." || c == ".." {
			return false
		}
	}
	return true
}

var c17parseN int
var c17prev string

var c17plainSafe = regexp.MustCompile(`^[A-Za-z0-9][A-Za-z0-9._/#@-]*$`)
var c17dateLike = regexp.MustCompile(`^[0-9]{1,4}-[0-9]{1,2}-[0-9]{1,2}`)

func c17one(s string, want string, form string) {
	c := sx.A(s)
	got := c17full(s)
	if want != "\x00" && got != want {
		oracleFail("C17", "rule-"+form, c, fmt.Sprintf("FullSource(%q)=%q want %q", s, got, want))
		return
	}
	if c17refOK(s) {
		if again := c17full(got); again != got {
			oracleFail("C17", "idempotence", c, fmt.Sprintf("FullSource(%q)=%q but FullSource of that = %q", s, got, again))
			return
		}
	}
	b, err := json.Marshal(&pipeline.Plugin{Source: s, Config: map[string]any{"k": "v"}})
	if err != nil {
		oracleFail("C17", "marshal", c, err.Error())
		return
	}
	var m map[string]any
	if err := json.Unmarshal(b, &m); err != nil || len(m) != 1 {
		oracleFail("C17", "marshal", c, fmt.Sprintf("not a single-entry object: %s", b))
		return
	}
	for k := range m {
		if k != got && strings.ToValidUTF8(got, "�") == got {
			oracleFail("C17", "marshal-key", c, fmt.Sprintf("marshalled key %q != FullSource %q", k, got))
			return
		}
	}
	// marshalling a step uses the typed plugin list (canonical sources) also when an unknown field of the step is
	// called `plugins` (possible for a step built or edited through the API)
	if c17parseN%13 == 5 && strings.ToValidUTF8(s, "\uFFFD") == s && s != "" {
		st := &pipeline.CommandStep{Command: "c", Plugins: pipeline.Plugins{{Source: s}}, RemainingFields: map[string]any{"plugins": map[string]any{s: "from the unknown field"}, "other": 1}}
		jb, jerr := json.Marshal(st)
		var back struct {
			Plugins []map[string]any `json:"plugins"`
		}
		if jerr != nil || json.Unmarshal(jb, &back) != nil || len(back.Plugins) != 1 {
			oracleFail("C17", "shadowed-plugins-field", c, fmt.Sprintf("a step with the typed plugin %q and an unknown field named plugins marshals to %s (err %v): the typed list must win", s, jb, jerr))
			return
		}
		for k := range back.Plugins[0] {
			if k != got {
				oracleFail("C17", "shadowed-plugins-field", c, fmt.Sprintf("marshalled plugin key %q, want the canonical source %q", k, got))
				return
			}
		}
		stat("C17", "shadowed-plugins-field")
	}
	// a plugin list that was decoded earlier keeps its plugins when the same variable decodes another document
	if c17parseN%11 == 3 && strings.ToValidUTF8(s, "\uFFFD") == s && c17prev != "" {
		docA, _ := json.Marshal([]any{map[string]any{c17prev: nil}, map[string]any{"kept/second#v2": map[string]any{"k": "v"}}})
		docB, _ := json.Marshal([]any{map[string]any{s: map[string]any{"other": 1}}})
		var ps pipeline.Plugins
		if ps.UnmarshalJSON(docA) == nil && len(ps) == 2 {
			kept := ps
			want := []string{kept[0].FullSource(), kept[1].FullSource()}
			wantJSON, _ := json.Marshal(kept)
			errB := ps.UnmarshalJSON(docB)
			gotJSON, _ := json.Marshal(kept)
			if kept[0].FullSource() != want[0] || kept[1].FullSource() != want[1] || string(gotJSON) != string(wantJSON) {
				oracleFail("C17", "earlier-result-changed", c, fmt.Sprintf("the plugin list decoded from %s was %s; after the same variable decoded %s (err %v) the list kept from before reads %s", docA, wantJSON, docB, errB, gotJSON))
				return
			}
			stat("C17", "decoded-twice")
		}
	}
	if s != "" {
		c17prev = s
	}
	// interpolation passes that substitute nothing leave the source as it is written (and with it the identity)
	if c17parseN%5 == 0 && !strings.Contains(s, "{{") && strings.ToValidUTF8(s, "\uFFFD") == s {
		st := &pipeline.CommandStep{Command: "c", Plugins: pipeline.Plugins{{Source: s}},
			Matrix: &pipeline.Matrix{Setup: pipeline.MatrixSetup{"": {"v"}}}}
		if err := st.InterpolateMatrixPermutation(pipeline.MatrixPermutation{"": "v"}); err != nil || st.Plugins[0].Source != s || st.Plugins[0].FullSource() != got {
			oracleFail("C17", "source-changed-by-interpolation", c, fmt.Sprintf("after a matrix interpolation that replaces nothing the plugin has Source %q / FullSource %q (err %v); before: %q / %q", st.Plugins[0].Source, st.Plugins[0].FullSource(), err, s, got))
			return
		}
		if !strings.ContainsAny(s, "$\\") {
			p := &pipeline.Pipeline{Steps: pipeline.Steps{&pipeline.CommandStep{Command: "c", Plugins: pipeline.Plugins{{Source: s}}}}}
			err := p.Interpolate(pipeline.VerifEnvFromMap(true, map[string]string{}), false)
			pl := p.Steps[0].(*pipeline.CommandStep).Plugins[0]
			if err != nil || pl.Source != s || pl.FullSource() != got {
				oracleFail("C17", "source-changed-by-interpolation", c, fmt.Sprintf("after an env interpolation that expands nothing the plugin has Source %q / FullSource %q (err %v); before: %q / %q", pl.Source, pl.FullSource(), err, s, got))
				return
			}
		}
		stat("C17", "interpolation-keeps-source")
	}
	// a plugin that arrives through the parser keeps its source as written (what FullSource then sees)
	if c17parseN%23 == 0 && strings.ToValidUTF8(s, "\uFFFD") == s && s != "" {
		stepDoc := map[string]any{"command": "c", "plugins": []any{map[string]any{s: nil}}}
		switch (c17parseN / 23) % 3 {
		case 1:
			stepDoc = map[string]any{"plugins": []any{map[string]any{s: nil}}} // a step that has only plugins
		case 2:
			stepDoc = map[string]any{"plugins": map[string]any{s: map[string]any{"k": "v"}}} // ... in the legacy mapping form
		}
		if doc, err := json.Marshal(map[string]any{"steps": []any{stepDoc}}); err == nil {
			if p, perr := pipeline.Parse(strings.NewReader(string(doc))); perr == nil || warning.Is(perr) {
				cs, ok := p.Steps[0].(*pipeline.CommandStep)
				if !ok {
					oracleFail("C17", "parsed-source", c, fmt.Sprintf("the step %s parses to %T, not to a command step with that plugin", doc, p.Steps[0]))
					return
				}
				if ok && len(cs.Plugins) == 1 {
					if cs.Plugins[0].Source != s || cs.Plugins[0].FullSource() != got {
						oracleFail("C17", "parsed-source", c, fmt.Sprintf("parsed plugin has Source %q / FullSource %q; written %q, FullSource of that %q", cs.Plugins[0].Source, cs.Plugins[0].FullSource(), s, got))
						return
					}
					stat("C17", "through-parse")
				}
			}
		}
	}
	// ... also when it is written as a plain YAML mapping key (the usual way to write a plugin with a config);
	// only spellings that YAML reads as text or as a date, not as a number or boolean
	if (c17parseN%7 == 0 || c17dateLike.MatchString(s)) && c17plainSafe.MatchString(s) {
		var probe yaml.Node
		if yaml.Unmarshal([]byte(s+": x\n"), &probe) == nil && len(probe.Content) == 1 && probe.Content[0].Kind == yaml.MappingNode && len(probe.Content[0].Content) == 2 {
			if tag := probe.Content[0].Content[0].ShortTag(); (tag == "!!str" || tag == "!!timestamp") && probe.Content[0].Content[0].Value == s {
				for fi, doc := range []string{"steps:\n- command: c\n  plugins:\n  - " + s + ": {k: v}\n", "steps:\n- command: c\n  plugins:\n    " + s + ": ~\n",
					"steps:\n- plugins:\n  - " + s + ": {k: v}\n", "steps:\n- label: only plugins\n  plugins:\n    " + s + ": ~\n"} {
					p, perr := pipeline.Parse(strings.NewReader(doc))
					if perr != nil {
						oracleFail("C17", "yaml-source-rejected", c, fmt.Sprintf("Parse rejects %q: %v", doc, perr))
						return
					}
					cs, ok := p.Steps[0].(*pipeline.CommandStep)
					if !ok || len(cs.Plugins) != 1 {
						oracleFail("C17", "yaml-source-rejected", c, fmt.Sprintf("Parse of %q gives %T", doc, p.Steps[0]))
						return
					}
					if cs.Plugins[0].Source != s || cs.Plugins[0].FullSource() != got {
						oracleFail("C17", "parsed-source", c, fmt.Sprintf("plugin written as the YAML key %s has Source %q / FullSource %q; FullSource of the written name is %q", s, cs.Plugins[0].Source, cs.Plugins[0].FullSource(), got))
						return
					}
					stat("C17", fmt.Sprintf("through-yaml-key-form%d", fi))
				}
			}
		}
	}
	c17parseN++
	nt := "1"
	if got == s {
		nt = "0"
	}
	fmt.Fprintf(out, "CASE\tC17\t%s\t%s\t%s\n", sx.String(c), sx.String(sx.A(got)), nt)
	stat("C17", "form-"+form)
}

const c17nameChars = "abcxyzABZ0189._-"

func c17name(rng *sx.Rng) string {
	n := 1 + rng.Intn(8)
	b := make([]byte, n)
	for i := range b {
		b[i] = c17nameChars[rng.Intn(len(c17nameChars))]
	}
	if b[0] == '.' {
		b[0] = 'p'
	}
	return string(b)
}
func c17ref(rng *sx.Rng) string {
	if rng.Chance(35) {
		return ""
	}
	n := 1 + rng.Intn(3)
	parts := make([]string, n)
	for i := range parts {
		p := c17name(rng)
		if rng.Chance(20) {
			p = "v1.2.3"
		}
		if rng.Chance(10) {
			p = "." + p // dot-leading but not dot-only
		}
		parts[i] = p
	}
	return "#" + strings.Join(parts, "/")
}

// c17mergedPluginSets: plugins written as one mapping that merges an anchored plugin set and re-specifies one of
// the merged plugins: the step's plugin list (canonical sources, in order - what is signed) is that of the same step
// written out by hand
func c17mergedPluginSets() {
	withMerge := "base: &b\n  alpha#v1: {x: 1}\n  org/beta#v2: ~\nsteps:\n- command: c\n  plugins:\n    first#v0: ~\n    <<: *b\n    zeta#v1: ~\n    alpha#v1: {x: 2}\n"
	byHand := "steps:\n- command: c\n  plugins:\n  - first#v0: ~\n  - org/beta#v2: ~\n  - zeta#v1: ~\n  - alpha#v1: {x: 2}\n"
	list := func(text string) (string, error) {
		p, err := pipeline.Parse(strings.NewReader(text))
		if err != nil && !warning.Is(err) {
			return "", err
		}
		cs, ok := p.Steps[0].(*pipeline.CommandStep)
		if !ok {
			return "", fmt.Errorf("not a command step: %T", p.Steps[0])
		}
		b, err := json.Marshal(cs.Plugins)
		return string(b), err
	}
	a, ea := list(withMerge)
	b, eb := list(byHand)
	c := sx.L(sx.A("merged-plugin-set"), sx.A(withMerge))
	if ea != nil || eb != nil || a != b {
		oracleFail("C17", "merged-plugin-set", c, fmt.Sprintf("plugins through the merge: %s (%v); written out: %s (%v)", a, ea, b, eb))
		return
	}
	stat("C17", "merged-plugin-set")
}

func init() {
	props["C17"] = func(rng *sx.Rng, thorough bool) {
		c17mergedPluginSets()
		// exhaustive small scope over the reduced alphabet
		alpha := []byte{'a', '.', '/', '-', '#', ':', '@', '\\'}
		maxLen := 5
		if thorough {
			maxLen = 7
		}
		var rec func(cur []byte)
		rec = func(cur []byte) {
			c17one(string(cur), "\x00", "exhaustive")
			if len(cur) == maxLen {
				return
			}
			for _, a := range alpha {
				rec(append(cur, a))
			}
		}
		rec(nil)
		n := 5000
		if thorough {
			n = 100000
		}
		for i := 0; i < n; i++ {
			name, org, ref := c17name(rng), c17name(rng), c17ref(rng)
			// names that already carry (part of) the suffix, or are the suffix: the expansion appends it regardless
			// names shaped like dates and versions are names
			if rng.Chance(4) {
				name = sx.Pick(rng, []string{"2024-01-01", "2001-12-14", "2002-1-2", "1999-12-31", "1-2-3", "2024-01", "v1.2.3"})
			}
			if rng.Chance(12) {
				name = sx.Pick(rng, []string{name + "-buildkite-plugin", "buildkite-plugin", name + "-buildkite-plugin-x", "-buildkite-plugin", name + "-buildkite"})
			}
			switch rng.Intn(12) {
			case 0, 1, 2:
				c17one(name+ref, "github.com/buildkite-plugins/"+name+"-buildkite-plugin"+ref, "bare")
			case 3, 4, 5:
				c17one(org+"/"+name+ref, "github.com/"+org+"/"+name+"-buildkite-plugin"+ref, "org")
			case 6:
				s := sx.Pick(rng, []string{"/", "./", "../", ".", "\\", ".\\", "/abs/"}) + org + "/" + name + ref
				if rng.Chance(40) {
					// one segment only: ../name, ./name, .name, ..name
					s = sx.Pick(rng, []string{"../", "./", ".", "..", "/"}) + name + ref
				}
				c17one(s, s, "path")
			case 7:
				s := sx.Pick(rng, []string{"https://", "ssh://git@", "file:///", "git+ssh://", "http://user:pw@"}) + "github.com/" + org + "/" + name + ref
				c17one(s, s, "scheme")
			case 8:
				s := "git@" + sx.Pick(rng, []string{"github.com", "gitlab.example.org", "host"}) + ":" + org + "/" + name + ".git" + ref
				c17one(s, s, "scp")
			case 9:
				s := sx.Pick(rng, []string{"github.com", "bitbucket.org", "example.org"}) + "/" + org + "/" + name + ref
				c17one(s, s, "three-segments")
			case 10:
				s := "github.com/" + org + "/" + name + "/" + c17name(rng) + "/" + c17name(rng) + ref
				c17one(s, s, "many-segments")
			case 11:
				s := sx.Pick(rng, []string{"C:", "d:"}) + "\\" + org + "\\" + name
				c17one(s, s, "windows")
			}
			// a two-segment source whose organisation looks like a host is still org/name
			if i%11 == 0 {
				o := sx.Pick(rng, []string{"github.com", "bitbucket.org", "gitlab.com"})
				c17one(o+"/"+name+ref, "github.com/"+o+"/"+name+"-buildkite-plugin"+ref, "org")
			}
			// already canonical sources stay as they are
			if i%7 == 0 {
				s := "github.com/" + org + "/" + name + "-buildkite-plugin" + ref
				c17one(s, s, "canonical")
			}
		}
	}
	replayers["C17"] = func(c sx.S) { c17one(string(c.(sx.Atom)), "\x00", "replay") }
}
