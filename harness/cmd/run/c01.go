package main

import (
	"context"
	"encoding/json"
	"fmt"
	"sort"

	pipeline "github.com/buildkite/go-pipeline"
	"github.com/buildkite/go-pipeline/ordered"
	"github.com/buildkite/go-pipeline/signature"
	"verifharness/sx"
)

type c01mut struct {
	name     string
	c        c14case  // presented step / env / repo
	key      int      // index of the verifying key
	alg      string   // "" = unchanged
	fields   []string // nil = unchanged
	value    string   // same | other | garbage
	wantFail bool
}

// c01corpus: hand-written signable steps (matrix shapes that the random generator produces rarely)
var c01corpus = []func() *dv{
	// a matrix without setup, with adjustments
	func() *dv {
		return dMap(dkv{"command", dStr("make")}, dkv{"matrix", dMap(dkv{"adjustments", dList(
			dMap(dkv{"with", dMap(dkv{"os", dStr("linux")})}, dkv{"skip", dBool(true)}),
			dMap(dkv{"with", dMap(dkv{"os", dStr("mac")})}, dkv{"soft_fail", dBool(true)}))})})
	},
	// the anonymous dimension next to a named one; adjustments whose `with` has one named key, one anonymous key, both
	func() *dv {
		return dMap(dkv{"command", dStr("make")}, dkv{"env", dMap(dkv{"DEPLOY", dStr("step")})}, dkv{"matrix", dMap(
			dkv{"setup", dMap(dkv{"", dList(dStr("a"), dStr("b"))}, dkv{"os", dList(dStr("linux"))})},
			dkv{"adjustments", dList(
				dMap(dkv{"with", dMap(dkv{"os", dStr("plan9")})}),
				dMap(dkv{"with", dMap(dkv{"", dStr("c")})}, dkv{"skip", dStr("")}),
				dMap(dkv{"with", dMap(dkv{"", dStr("a")}, dkv{"os", dStr("mac")})}, dkv{"soft_fail", dMap(dkv{"exit_status", dInt(1)})}))})})
	},
	// plugins in every spelling, a list matrix
	func() *dv {
		return dMap(dkv{"commands", dList(dStr("a"), dStr("b"))}, dkv{"plugins", dList(dStr("docker#v1"), dMap(dkv{"org/tool#v2", dMap()}), dMap(dkv{"./local", dNull()}),
			dMap(dkv{"cfg#v3", dMap(dkv{"k", dList(dInt(1), dStr("x"))})}))}, dkv{"matrix", dList(dStr("x"), dInt(2), dBool(true))})
	},
}

func init() {
	props["C01"] = func(rng *sx.Rng, thorough bool) {
		keys := signKeyPool(thorough)
		n := 150
		if thorough {
			n = 4000
		}
		for i := 0; i < n; i++ {
			g := newDocgen(rng, false)
			penv0 := g.pipelineEnv()
			g.penvNames = sortedKeys(penv0)
			base := c14case{doc: g.signableStep(), penv: penv0, repo: sx.Pick(rng, []string{"git@github.com:o/r.git", "https://example.org/r", "repo"})}
			// a small corpus of shapes that random generation reaches too rarely runs first (one entry per key kind)
			if ci := i / len(keys); i < len(keys)*len(c01corpus) {
				base.doc = c01corpus[ci]()
				base.penv = map[string]string{"EMPTY_VALUE": "", "DEPLOY": "yes", "version": "1"}
				g.penvNames = sortedKeys(base.penv)
			}
			ki := i % len(keys)
			key := keys[ki]
			cs, text, err := stepFromDoc(base.doc)
			if err != nil {
				oracleFail("C01", "step-rejected", sx.A(text), "a generated, well-formed command step does not load: "+err.Error())
				continue
			}
			sg, _, err := signPayload(key, cs, base.repo, base.penv)
			if err != nil {
				oracleFail("C01", "sign-error", sx.A(text), err.Error())
				continue
			}
			// another step signed with the same key, for splicing
			og := newDocgen(rng, false)
			odoc := og.signableStep()
			// (the generated step may spell its command under `commands`, which would win over `command`)
			odoc.del("commands")
			odoc.set("command", dStr("other command "+fmt.Sprint(i)))
			ocs, otext, oerr := stepFromDoc(odoc)
			var osg *pipeline.Signature
			if oerr == nil {
				osg, _, _ = signPayload(key, ocs, base.repo, base.penv)
			}

			var muts []c01mut
			add := func(name string, wantFail bool, f func(m *c01mut) bool) {
				m := c01mut{name: name, c: base.clone(), key: ki, value: "same", wantFail: wantFail}
				if f(&m) {
					muts = append(muts, m)
				}
			}
			add("unchanged", false, func(m *c01mut) bool { return true })
			for _, v := range c14equivalent(g, base) {
				v := v
				add("respelled", false, func(m *c01mut) bool { m.c = v; return true })
			}
			for _, v := range c14different(g, base) {
				v := v
				// a variable that was not signed may be added to the verification env freely
				if len(v.penv) == len(base.penv)+1 && v.penv["NEWVAR"] == "1" {
					continue
				}
				add("semantic-change", true, func(m *c01mut) bool { m.c = v; return true })
			}
			add("unrelated-env-var-added", false, func(m *c01mut) bool {
				if _, has := m.c.penv["UNRELATED_VAR"]; has {
					return false
				}
				m.c.penv["UNRELATED_VAR"] = "whatever"
				return true
			})
			signedEnv := []string{}
			for _, f := range sg.SignedFields {
				if len(f) > 5 && f[:5] == "env::" {
					signedEnv = append(signedEnv, f[5:])
				}
			}
			if len(signedEnv) > 0 {
				for _, sv := range signedEnv {
					sv := sv
					add("signed-env-var-removed", true, func(m *c01mut) bool { delete(m.c.penv, sv); return true })
					add("signed-env-var-changed", true, func(m *c01mut) bool { m.c.penv[sv] += "x"; return true })
				}
				add("field-list-drops-env", true, func(m *c01mut) bool {
					for _, f := range sg.SignedFields {
						if f != "env::"+signedEnv[0] {
							m.fields = append(m.fields, f)
						}
					}
					return true
				})
			}
			add("other-key", true, func(m *c01mut) bool { m.key = (ki + 1) % len(keys); return true })
			add("algorithm-changed", true, func(m *c01mut) bool {
				m.alg = sx.Pick(rng, []string{"ES512", "PS512", "EdDSA", "none", "HS256"})
				return m.alg != sg.Algorithm
			})
			for _, drop := range []string{"command", "env", "plugins", "matrix", "repository_url"} {
				drop := drop
				add("field-list-drops-mandatory", true, func(m *c01mut) bool {
					for _, f := range sg.SignedFields {
						if f != drop {
							m.fields = append(m.fields, f)
						}
					}
					return true
				})
			}
			add("field-list-reordered", false, func(m *c01mut) bool {
				m.fields = append([]string{}, sg.SignedFields...)
				sort.Sort(sort.Reverse(sort.StringSlice(m.fields)))
				return true
			})
			add("field-list-duplicate", false, func(m *c01mut) bool {
				m.fields = append(append([]string{}, sg.SignedFields...), sg.SignedFields[0])
				return true
			})
			add("field-list-unknown-field", true, func(m *c01mut) bool {
				m.fields = append(append([]string{}, sg.SignedFields...), "label")
				return true
			})
			add("field-list-extra-env-absent", true, func(m *c01mut) bool {
				m.fields = append(append([]string{}, sg.SignedFields...), "env::NOT_IN_ENV")
				return true
			})
			add("field-list-extra-env-present", true, func(m *c01mut) bool {
				m.fields = append(append([]string{}, sg.SignedFields...), "env::EXTRA_SIGNED")
				m.c.penv["EXTRA_SIGNED"] = "1"
				return true
			})
			add("field-list-empty", true, func(m *c01mut) bool { m.fields = []string{}; return true })
			if osg != nil {
				add("value-spliced-from-other-step", true, func(m *c01mut) bool { m.value = "other"; return true })
			}
			add("value-garbage", true, func(m *c01mut) bool { m.value = "garbage"; return true })

			// tampering hidden behind unknown fields: the typed field is changed while an unknown field of the
			// same name carries the signed value (typed fields must win when the step is marshalled for signing)
			if cs.Matrix != nil {
				tcs := *cs
				tm := *cs.Matrix
				tcs.Matrix = &tm
				origSetup, _ := json.Marshal(cs.Matrix.Setup)
				var origAny any
				json.Unmarshal(origSetup, &origAny)
				tm.Setup = pipeline.MatrixSetup{}
				for d, v := range cs.Matrix.Setup {
					tm.Setup[d] = append(append([]string{}, v...), "tampered-value")
				}
				if len(tm.Setup) == 0 {
					tm.Setup["evil"] = []string{"tampered-value"}
				}
				tm.RemainingFields = map[string]any{}
				for k, v := range cs.Matrix.RemainingFields {
					tm.RemainingFields[k] = v
				}
				tm.RemainingFields["setup"] = origAny
				if err := verifyStep(key, sg, &tcs, base.repo, base.penv); err == nil {
					oracleFail("C01", "verdict-hidden-behind-unknown-field", sx.A(text), "the matrix setup was changed while an unknown field named `setup` carries the signed value, and Verify still succeeds")
				}
				stat("C01", "mut-hidden-behind-unknown-field")
			}
			tcs2 := *cs
			tcs2.Command = cs.Command + " && evil"
			tcs2.RemainingFields = map[string]any{"command": cs.Command}
			for k, v := range cs.RemainingFields {
				tcs2.RemainingFields[k] = v
			}
			if err := verifyStep(key, sg, &tcs2, base.repo, base.penv); err == nil {
				oracleFail("C01", "verdict-hidden-behind-unknown-field", sx.A(text), "the command was changed while an unknown field named `command` carries the signed value, and Verify still succeeds")
			}

			origDoc, _ := docSexp(text)
			orig := sx.L(origDoc, pairsSexp(base.penv), sx.A(base.repo), sx.A(fmt.Sprintf("key%d", ki)))
			var other sx.S = sx.L()
			if osg != nil {
				od, _ := docSexp(otext)
				other = sx.L(od)
			}
			// a signature made with the REAL key over a field list that lacks a mandatory field (an old or careless
			// signer): cryptographically valid, and still to be rejected - for the step as signed and for a tampered one
			for _, drop := range []string{"matrix", "command", "env", "plugins", "repository_url", "matrix"} {
				rf := reducedFielder{&signature.CommandStepWithInvariants{CommandStep: *cs, RepositoryURL: base.repo}, drop}
				rsg, rerr := signature.Sign(context.Background(), key.priv, rf, signature.WithEnv(base.penv))
				if rerr != nil {
					continue
				}
				if verr := verifyStep(key, rsg, cs, base.repo, base.penv); verr == nil {
					oracleFail("C01", "verdict-resigned-without-mandatory-field", sx.L(sx.A(text), sx.A(drop)), fmt.Sprintf("a signature over %v (no %q) made with the right key verifies", rsg.SignedFields, drop))
					break
				}
				stat("C01", "mut-resigned-without-mandatory-field")
			}
			// a key removed from an ordered map inside signed content (a plugin config built through the API, the
			// nested mappings parsing leaves under unknown matrix keys) is a semantic change, whatever the removal left
			// behind in the map's storage
			{
				probe := func(remove bool) *ordered.MapSA {
					m := ordered.NewMap[string, any](0)
					m.Set("image", "alpine")
					m.Set("debug", true)
					m.Set("always-pull", true)
					m.Set("user", "nobody")
					if remove {
						m.Delete("debug")
					}
					return m
				}
				withProbe := func(remove bool) *pipeline.CommandStep {
					a := *cs
					a.Plugins = append(append(pipeline.Plugins{}, cs.Plugins...), &pipeline.Plugin{Source: "probe#v1", Config: probe(remove)})
					return &a
				}
				if sgA, _, err := signPayload(key, withProbe(false), base.repo, base.penv); err == nil {
					if verr := verifyStep(key, sgA, withProbe(false), base.repo, base.penv); verr != nil {
						oracleFail("C01", "verdict-unchanged", sx.A(text), "a step with an ordered-map plugin config does not verify unchanged: "+verr.Error())
					} else if verr := verifyStep(key, sgA, withProbe(true), base.repo, base.penv); verr == nil {
						oracleFail("C01", "verdict-semantic-change", sx.A(text), "a key was deleted from an ordered map inside the signed plugin config, yet the signature still verifies")
					} else {
						stat("C01", "mut-ordered-map-key-deleted")
					}
				}
			}
			for _, m := range muts {
				mcs, mtext, err := stepFromDoc(m.c.doc)
				if err != nil {
					continue
				}
				rec := &pipeline.Signature{Algorithm: sg.Algorithm, SignedFields: sg.SignedFields, Value: sg.Value}
				var algS sx.S = sx.A("same")
				if m.alg != "" {
					rec.Algorithm = m.alg
					algS = sx.A(m.alg)
				}
				var fieldsS sx.S = sx.A("same")
				if m.fields != nil {
					rec.SignedFields = m.fields
					l := sx.List{}
					for _, f := range m.fields {
						l = append(l, sx.A(f))
					}
					fieldsS = l
				}
				switch m.value {
				case "other":
					rec.Value = osg.Value
				case "garbage":
					rec.Value = "AAAA" + sg.Value[4:]
				}
				verr := error(nil)
				panicked := ""
				func() {
					defer func() {
						if r := recover(); r != nil {
							panicked = fmt.Sprint(r)
						}
					}()
					verr = verifyStep(keys[m.key], rec, mcs, m.c.repo, m.c.penv)
				}()
				md, _ := docSexp(mtext)
				c := sx.L(orig, other, sx.L(md, pairsSexp(m.c.penv), sx.A(m.c.repo), sx.A(fmt.Sprintf("key%d", m.key)), algS, fieldsS, sx.A(m.value)))
				if panicked != "" {
					oracleFail("C01", "panic", c, panicked)
					continue
				}
				if (verr != nil) != m.wantFail {
					oracleFail("C01", "verdict-"+m.name, c, fmt.Sprintf("mutation %q: Verify err=%v but a %s change must %s", m.name, verr, map[bool]string{true: "semantic", false: "non-semantic"}[m.wantFail], map[bool]string{true: "fail", false: "verify"}[m.wantFail]))
					continue
				}
				stat("C01", "mut-"+m.name)
				obs := "verified"
				if verr != nil {
					obs = "rejected"
				}
				fmt.Fprintf(out, "CASE\tC01\t%s\t%s\t1\n", sx.String(c), sx.String(sx.A(obs)))
			}
		}
	}
}

// reducedFielder signs like the wrapped step but leaves one field out of the signed set
type reducedFielder struct {
	*signature.CommandStepWithInvariants
	drop string
}

func (r reducedFielder) SignedFields() (map[string]any, error) {
	m, err := r.CommandStepWithInvariants.SignedFields()
	delete(m, r.drop)
	return m, err
}
