package main

import (
	"bytes"
	"encoding/json"
	"fmt"
	"sort"

	pipeline "github.com/buildkite/go-pipeline"
	"verifharness/sx"
)

type c11adj struct {
	nilp bool
	with map[string]string
	skip string // absent true false other
}
type c11matrix struct {
	nilp  bool
	setup map[string][]string // nil slice allowed
	adjs  []c11adj
}

func sortedKeys[V any](m map[string]V) []string {
	ks := make([]string, 0, len(m))
	for k := range m {
		ks = append(ks, k)
	}
	sort.Strings(ks)
	return ks
}

func (m c11matrix) sexp() sx.S {
	if m.nilp {
		return sx.L()
	}
	su := sx.List{}
	for _, d := range sortedKeys(m.setup) {
		vs := m.setup[d]
		if vs == nil {
			su = append(su, sx.L(sx.A(d), sx.L()))
		} else {
			l := sx.List{}
			for _, v := range vs {
				l = append(l, sx.A(v))
			}
			su = append(su, sx.L(sx.A(d), sx.L(l)))
		}
	}
	ad := sx.List{}
	for _, a := range m.adjs {
		if a.nilp {
			ad = append(ad, sx.L())
			continue
		}
		w := sx.List{}
		for _, d := range sortedKeys(a.with) {
			w = append(w, sx.L(sx.A(d), sx.A(a.with[d])))
		}
		ad = append(ad, sx.L(w, sx.A(a.skip)))
	}
	return sx.L(su, ad)
}

func (m c11matrix) real() *pipeline.Matrix {
	if m.nilp {
		return nil
	}
	r := &pipeline.Matrix{Setup: pipeline.MatrixSetup{}}
	for d, vs := range m.setup {
		r.Setup[d] = vs
	}
	for _, a := range m.adjs {
		if a.nilp {
			r.Adjustments = append(r.Adjustments, nil)
			continue
		}
		ra := &pipeline.MatrixAdjustment{With: pipeline.MatrixAdjustmentWith{}}
		for d, v := range a.with {
			ra.With[d] = v
		}
		switch a.skip {
		case "true":
			ra.Skip = true
		case "false":
			ra.Skip = false
		case "other":
			// any non-bool, non-nil value means "skip" - the zero values of other types included
			c11otherN++
			ra.Skip = []any{"reason", "", 0, 0.0, "false", []any{}, 1}[c11otherN%7]
		}
		r.Adjustments = append(r.Adjustments, ra)
	}
	return r
}

var c11otherN int

// parsed gives the same matrix as it comes out of Parse, from a JSON document; false when the matrix has no
// spelling as a document (a nil value list, a nil adjustment)
func (m c11matrix) parsed(bare bool) (*pipeline.Matrix, bool) {
	if m.nilp {
		return nil, false
	}
	for _, vs := range m.setup {
		if vs == nil {
			return nil, false
		}
	}
	// (a value "" may be written as a null item, and a nil adjustment is a null item of the list)
	nulls := func(vs []string) []any {
		out := make([]any, len(vs))
		for i, v := range vs {
			out[i] = v
			if v == "" && (c11caseN+i)%2 == 0 {
				out[i] = nil
			}
		}
		return out
	}
	doc := map[string]any{}
	if vs, only := m.setup[""]; only && len(m.setup) == 1 {
		doc["setup"] = nulls(vs)
	} else {
		su := map[string]any{}
		for d, vs := range m.setup {
			su[d] = nulls(vs)
		}
		doc["setup"] = su
	}
	var adjs []any
	for _, a := range m.adjs {
		if a.nilp {
			adjs = append(adjs, nil)
			continue
		}
		ad := map[string]any{}
		if v, only := a.with[""]; only && len(a.with) == 1 && c11otherN%2 == 0 {
			ad["with"] = v
		} else {
			ad["with"] = a.with
		}
		switch a.skip {
		case "true":
			ad["skip"] = true
		case "false":
			ad["skip"] = false
		case "other":
			c11otherN++
			ad["skip"] = []any{"reason", "", 0, "false", []any{}, 1}[c11otherN%6]
		}
		adjs = append(adjs, ad)
	}
	if adjs != nil {
		doc["adjustments"] = adjs
	}
	var mdoc any = doc
	if vs, only := m.setup[""]; bare && only && len(m.setup) == 1 && adjs == nil {
		mdoc = nulls(vs) // the shorthand: the matrix written as the bare list of values
		stat("C11", "matrix-as-bare-list")
	}
	text, err := json.Marshal(map[string]any{"steps": []any{map[string]any{"command": "echo", "matrix": mdoc}}})
	if err != nil {
		return nil, false
	}
	p, err := pipeline.Parse(bytes.NewReader(text))
	if err != nil || len(p.Steps) != 1 {
		oracleFail("C11", "document-rejected", m.sexp(), fmt.Sprintf("Parse of %s: %v", text, err))
		return nil, false
	}
	cs, ok := p.Steps[0].(*pipeline.CommandStep)
	if !ok || cs.Matrix == nil {
		oracleFail("C11", "document-rejected", m.sexp(), fmt.Sprintf("Parse of %s gave %T without a matrix", text, p.Steps[0]))
		return nil, false
	}
	return cs.Matrix, true
}

var c11caseN int

// c11accepts is the specification, written from the property text.
func c11accepts(m c11matrix, p map[string]string) bool {
	if m.nilp {
		return len(p) == 0
	}
	// names each matrix dimension once
	if len(p) != len(m.setup) {
		return false
	}
	for d := range p {
		if m.setup[d] == nil {
			return false
		}
	}
	// malformed adjustments (wrong set of dimensions) reject
	for _, a := range m.adjs {
		if a.nilp || len(a.with) != len(m.setup) {
			return false
		}
		for d := range a.with {
			if m.setup[d] == nil {
				return false
			}
		}
	}
	eq := func(a c11adj) bool {
		for d, v := range p {
			if a.with[d] != v {
				return false
			}
		}
		return true
	}
	inProduct := true
	for d, v := range p {
		found := false
		for _, x := range m.setup[d] {
			if x == v {
				found = true
			}
		}
		if !found {
			inProduct = false
		}
	}
	isAdj := false
	for _, a := range m.adjs {
		if eq(a) {
			if a.skip == "true" || a.skip == "other" {
				return false
			}
			isAdj = true
		}
	}
	return inProduct || isAdj
}

func c11one(m c11matrix, p map[string]string) {
	c11oneVia(m, p, 0)
	// every third case also with the matrix taken from a parsed document, and every matrix that has the bare-list
	// spelling (one anonymous dimension, no adjustments) also from that
	c11caseN++
	if c11caseN%3 == 0 {
		c11oneVia(m, p, 1)
	}
	if vs, only := m.setup[""]; !m.nilp && only && vs != nil && len(m.setup) == 1 && len(m.adjs) == 0 {
		c11oneVia(m, p, 2)
	}
}

func c11oneVia(m c11matrix, p map[string]string, via int) {
	pl := sx.List{}
	for _, d := range sortedKeys(p) {
		pl = append(pl, sx.L(sx.A(d), sx.A(p[d])))
	}
	c := sx.L(m.sexp(), pl)
	step := &pipeline.CommandStep{
		Label:  "label",
		Env:    map[string]string{"K": "v"},
		Matrix: m.real(),
	}
	if via > 0 {
		pm, ok := m.parsed(via == 2)
		if !ok {
			return
		}
		step.Matrix = pm
		stat("C11", "matrix-from-document")
	}
	// make every dimension of p interpolatable so that acceptance is decided by validation alone
	step.Command = "echo"
	for _, d := range sortedKeys(p) {
		if d == "" {
			step.Command += " {{matrix}}"
		} else {
			step.Command += " {{matrix." + d + "}}"
		}
	}
	before, _ := json.Marshal(step)
	var err error
	panicked := ""
	func() {
		defer func() {
			if r := recover(); r != nil {
				panicked = fmt.Sprint(r)
			}
		}()
		err = step.InterpolateMatrixPermutation(pipeline.MatrixPermutation(p))
	}()
	if panicked != "" {
		oracleFail("C11", "panic", c, "InterpolateMatrixPermutation panicked: "+panicked)
		return
	}
	want := c11accepts(m, p)
	if (err == nil) != want {
		oracleFail("C11", "verdict", c, fmt.Sprintf("err=%v but the specification says accept=%v", err, want))
		return
	}
	if err != nil {
		after, _ := json.Marshal(step)
		if string(before) != string(after) {
			oracleFail("C11", "rejected-but-modified", c, fmt.Sprintf("before %s after %s", before, after))
			return
		}
	}
	obs := "reject"
	if err == nil {
		obs = "accept"
		stat("C11", "accept")
	} else {
		stat("C11", "reject")
	}
	nt := "1"
	if m.nilp || len(m.setup) == 0 {
		nt = "0"
	}
	fmt.Fprintf(out, "CASE\tC11\t%s\t%s\t%s\n", sx.String(c), sx.String(sx.A(obs)), nt)
}

func init() {
	props["C11"] = func(rng *sx.Rng, thorough bool) {
		vals := []string{"a", "b", "c"}
		valLists := [][]string{nil, {}, {"a"}, {"a", "b"}}
		skips := []string{"absent", "false", "true", "other"}
		// setups: anonymous, one or two named dims
		var setups []map[string][]string
		setups = append(setups, map[string][]string{})
		for _, l := range valLists {
			setups = append(setups, map[string][]string{"": l})
			setups = append(setups, map[string][]string{"x": l})
			for _, l2 := range valLists {
				setups = append(setups, map[string][]string{"x": l, "y": l2})
			}
		}
		// candidate "with"/permutation maps over dims subsets of {"",x,y,z}
		var maps []map[string]string
		maps = append(maps, map[string]string{})
		for _, d := range []string{"", "x", "y", "z"} {
			for _, v := range vals {
				maps = append(maps, map[string]string{d: v})
			}
		}
		for _, v := range vals {
			for _, w := range vals {
				maps = append(maps, map[string]string{"x": v, "y": w})
			}
		}
		maps = append(maps, map[string]string{"x": "a", "z": "a"}, map[string]string{"x": "a", "y": "a", "z": "a"})
		// nil matrix
		for _, p := range maps {
			c11one(c11matrix{nilp: true}, p)
		}
		count := 0
		for _, su := range setups {
			// adjustment candidates relevant to this setup: same dims (well-formed) plus a few malformed
			var adjc []c11adj
			for _, w := range maps {
				wf := len(w) == len(su)
				for d := range w {
					if _, ok := su[d]; !ok {
						wf = false
					}
				}
				if wf {
					for _, sk := range skips {
						adjc = append(adjc, c11adj{with: w, skip: sk})
					}
				}
			}
			adjc = append(adjc, c11adj{with: map[string]string{"z": "a"}, skip: "absent"}, c11adj{with: map[string]string{}, skip: "true"}, c11adj{nilp: true})
			var adjLists [][]c11adj
			adjLists = append(adjLists, nil)
			for _, a := range adjc {
				adjLists = append(adjLists, []c11adj{a})
			}
			for i, a := range adjc {
				for j, b := range adjc {
					// all ordered pairs is large for two dims; thin deterministically in quick tier
					if !thorough && len(su) == 2 && (i*31+j*17)%7 != 0 {
						continue
					}
					adjLists = append(adjLists, []c11adj{a, b})
				}
			}
			for _, al := range adjLists {
				for _, p := range maps {
					if len(p) > 0 && len(su) == 2 && len(al) == 2 && !thorough && (count%3 != 0) {
						count++
						continue
					}
					count++
					c11one(c11matrix{setup: su, adjs: al}, p)
				}
			}
		}
		// random three-dimension cases
		n := 3000
		if thorough {
			n = 60000
		}
		dims := []string{"os", "arch", "ver"}
		for i := 0; i < n; i++ {
			su := map[string][]string{}
			for _, d := range dims {
				var l []string
				for _, v := range vals {
					if rng.Chance(60) {
						l = append(l, v)
					}
				}
				if rng.Chance(20) {
					l = append(l, "") // the empty string is a value like any other
				}
				if l == nil && rng.Chance(70) {
					l = []string{}
				}
				su[d] = l
			}
			var al []c11adj
			for k := rng.Intn(4); k > 0; k-- {
				w := map[string]string{}
				for _, d := range dims {
					if rng.Chance(92) {
						w[d] = sx.Pick(rng, []string{"a", "b", "c", "d", ""})
					}
				}
				if rng.Chance(5) {
					w["extra"] = "a"
				}
				al = append(al, c11adj{with: w, skip: sx.Pick(rng, skips)})
			}
			p := map[string]string{}
			for _, d := range dims {
				if rng.Chance(95) {
					p[d] = sx.Pick(rng, []string{"a", "b", "c", "d", ""})
				}
			}
			if len(al) > 0 && rng.Chance(40) {
				p = map[string]string{}
				for d, v := range al[rng.Intn(len(al))].with {
					p[d] = v
				}
				// sometimes trade one real dimension for an unknown one (right arity, wrong names), with the
				// value an absent map entry reads as
				if rng.Chance(40) {
					for d := range p {
						delete(p, d)
						p[sx.Pick(rng, []string{"bogus", "zz", "os "})] = sx.Pick(rng, []string{"", "a"})
						break
					}
				}
			}
			// Go ranges over the permutation map in random order: repeat the call
			for rep := 0; rep < 4; rep++ {
				c11one(c11matrix{setup: su, adjs: al}, p)
			}
		}
	}
}
