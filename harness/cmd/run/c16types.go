package main

// The family of target types for C16.  The translator (cmd/translate) reads THIS
// file and emits the same field descriptors into coq/Gen/TestStructs.v, so the
// Coq model and the Go run use one source.

type T1 struct {
	A string  `yaml:"a"`
	B int     `yaml:"b"`
	C bool    `yaml:"c"`
	D float64 `yaml:"d"`
}

type T2 struct {
	Name  string
	Count int
	Flag  bool   `yaml:"flag,omitempty"`
	Opt   string `yaml:",omitempty"` // options only: the key is still the lower-cased name
}

type T3 struct {
	L []string          `yaml:"l"`
	M map[string]string `yaml:"m"`
	N []int             `yaml:"n"`
	X []any             `yaml:"x"`
	Y map[string]any    `yaml:"y"`
	Z any               `yaml:"z"`
}

type T4 struct {
	Inner T1      `yaml:"inner"`
	P     *T1     `yaml:"p"`
	Q     *string `yaml:"q"`
	R     *[]int  `yaml:"r"`
}

type T5 struct {
	A    string         `yaml:"a"`
	Skip string         `yaml:"-"`
	Num  int            `yaml:",omitempty"`
	Rest map[string]any `yaml:",inline"`
}

type T6 struct {
	A        string            `yaml:"a,omitempty"`
	Other    int               `yaml:"other"`
	Disabled bool              `yaml:",omitempty"`
	Rest     map[string]string `yaml:",inline"`
}

type T7 struct {
	Items  []T1                `yaml:"items"`
	ByName map[string]T1       `yaml:"by_name"`
	Ptrs   []*T1               `yaml:"ptrs"`
	Deep   map[string][]string `yaml:"deep"`
}

type T8 struct {
	Top string `yaml:"top"`
	In  T5     `yaml:",inline"`
}

type T9 struct {
	Child *T9            `yaml:"child"`
	Val   string         `yaml:"val"`
	Kids  []T9           `yaml:"kids"`
	Rest  map[string]any `yaml:",inline"`
}

// types with aliases: no counterpart in the YAML library; compared with the model only
type A1 struct {
	Key   string         `yaml:"key" aliases:"id,identifier"`
	Label string         `yaml:"label,omitempty" aliases:"name"`
	Rest  map[string]any `yaml:",inline"`
}

type A2 struct {
	Cmds []string `yaml:"commands" aliases:"command"`
	Rem  *A1      `yaml:",inline"`
}

type A3 struct {
	X string `aliases:"ex,why"`
	Y int    `yaml:"y" aliases:"why,zed"`
	Z *T1    `yaml:"z" aliases:"inner"`
}
