package main

import (
	"bytes"
	"encoding/json"
	"fmt"
	"strings"
	"unicode"

	pipeline "github.com/buildkite/go-pipeline"
	"github.com/buildkite/go-pipeline/warning"
	"gopkg.in/yaml.v3"
	"verifharness/sx"
)

// canonEmpty: identify nil and empty containers at the positions where one encoder omits them
// (C02/C09: "nil versus empty env/plugins/matrix"): drop members whose value is null, {} or []
// under the keys env, plugins, matrix, signed_fields, setup, adjustments, with, paths, steps-of-nothing.
func canonEmpty(v any) any {
	switch t := v.(type) {
	case map[string]any:
		out := map[string]any{}
		for k, e := range t {
			e = canonEmpty(e)
			switch k {
			case "env", "plugins", "matrix", "signed_fields", "setup", "adjustments", "cache":
				if isEmptyJSON(e) {
					continue
				}
			}
			out[k] = e
		}
		return out
	case []any:
		out := make([]any, len(t))
		for i, e := range t {
			out[i] = canonEmpty(e)
		}
		return out
	}
	return v
}

func isEmptyJSON(v any) bool {
	switch t := v.(type) {
	case nil:
		return true
	case map[string]any:
		return len(t) == 0
	case []any:
		return len(t) == 0
	}
	return false
}

func canonJSON(b []byte) (string, error) {
	var v any
	dec := json.NewDecoder(bytes.NewReader(b))
	dec.UseNumber()
	if err := dec.Decode(&v); err != nil {
		return "", err
	}
	out, err := json.Marshal(canonEmpty(v))
	return string(out), err
}

func stepKinds(ss pipeline.Steps) string {
	var b strings.Builder
	for _, s := range ss {
		fmt.Fprintf(&b, "%T", s)
		if g, ok := s.(*pipeline.GroupStep); ok {
			b.WriteString("(" + stepKinds(g.Steps) + ")")
		}
		b.WriteString(",")
	}
	return b.String()
}

// yamlSafe: the property excludes, on the YAML leg only, multi-line strings that begin with whitespace
func yamlUnsafe(d *dv) bool {
	switch d.kind {
	case 's':
		return leadingSpace(d.s)
	case 'l':
		for _, e := range d.l {
			if yamlUnsafe(e) {
				return true
			}
		}
	case 'm':
		for _, e := range d.m {
			if yamlUnsafe(e.v) || leadingSpace(e.k) {
				return true
			}
		}
	}
	return false
}

// leadingSpace: the string starts with whitespace (any Unicode space or line break). Such a string can end
// up as the first line of a multi-line scalar (commands are joined with newlines), which yaml.v3's emitter
// cannot round-trip; the property excludes those on the YAML leg.
func leadingSpace(s string) bool {
	for _, r := range s {
		return unicode.IsSpace(r) || r == 0x2028 || r == 0x2029 || r == 0xFEFF
	}
	return false
}

// emptyPrimaryWithAlias: a mapping that spells `label: ""` next to `name`, or `key: ""` next to id / identifier
func emptyPrimaryWithAlias(d *dv) bool {
	switch d.kind {
	case 'l':
		for _, e := range d.l {
			if emptyPrimaryWithAlias(e) {
				return true
			}
		}
	case 'm':
		// the value that fills key / label is empty (so it is omitted on marshal) while a later alias is present
		chain := func(names ...string) bool {
			for i, k := range names {
				v := d.get(k)
				if v == nil {
					continue
				}
				empty := v.kind == 'n' || v.kind == 's' && v.s == ""
				if !empty {
					return false
				}
				for _, later := range names[i+1:] {
					if d.has(later) {
						return true
					}
				}
				return false
			}
			return false
		}
		if chain("key", "id", "identifier") || chain("label", "name") {
			return true
		}
		for _, e := range d.m {
			if emptyPrimaryWithAlias(e.v) {
				return true
			}
		}
	}
	return false
}

// floatAlias: a key / label alias whose value is a float. In the F17 class such a value is promoted from the
// extra fields to the typed field only in the second generation, after a JSON round trip, where the model
// re-reads the number token without Go's %v spelling of it (1e-7 vs 1e-07): left to the oracle, not compared.
func floatAlias(d *dv) bool {
	switch d.kind {
	case 'l':
		for _, e := range d.l {
			if floatAlias(e) {
				return true
			}
		}
	case 'm':
		for _, e := range d.m {
			switch e.k {
			case "id", "identifier", "name", "key", "label":
				if e.v.kind == 'f' {
					return true
				}
			}
			if floatAlias(e.v) {
				return true
			}
		}
	}
	return false
}

func hasMergeKey(d *dv) bool {
	switch d.kind {
	case 'l':
		for _, e := range d.l {
			if hasMergeKey(e) {
				return true
			}
		}
	case 'm':
		for _, e := range d.m {
			if e.k == "<<" || hasMergeKey(e.v) {
				return true
			}
		}
	}
	return false
}

// c09indented: set while a pipeline is handled that holds a multi-line string beginning with whitespace (yaml.v3
// writes such a string as a block scalar whose indentation indicator it gets wrong: known finding F22)
var c09indented bool

func c09reparse(leg string, data []byte, c sx.S, j1 string, kinds1 string, epa bool, proj1 string) {
	mergeKey := strings.Contains(j1, `"\u003c\u003c":`) && leg == "yaml"
	if c09indented && leg == "yaml" {
		if p2, err := pipeline.Parse(bytes.NewReader(data)); err != nil && !warning.Is(err) || p2 == nil || projPipeline(p2) != proj1 {
			oracleFail("C09", "reparse-yaml-indented-block", c, fmt.Sprintf("the yaml marshalling of a pipeline with a multi-line string that begins with whitespace does not re-parse to the same pipeline (err=%v)\n%s", err, data))
			return
		}
	}
	p2, err := pipeline.Parse(bytes.NewReader(data))
	if err != nil && !warning.Is(err) {
		cls := "reparse-" + leg + "-error"
		if mergeKey {
			cls = "reparse-yaml-merge-key"
		}
		oracleFail("C09", cls, c, fmt.Sprintf("re-parsing the %s marshalling fails: %v\n%s", leg, err, data))
		return
	}
	if k2 := stepKinds(p2.Steps); k2 != kinds1 {
		oracleFail("C09", "reparse-"+leg+"-kinds", c, fmt.Sprintf("step kinds changed over the %s leg: %s -> %s\n%s", leg, kinds1, k2, data))
		return
	}
	jb2, err := json.Marshal(p2)
	if err != nil {
		oracleFail("C09", "reparse-"+leg+"-marshal", c, err.Error())
		return
	}
	j2, _ := canonJSON(jb2)
	if j2 != j1 {
		cls := "reparse-" + leg + "-differs"
		if epa {
			cls = "reparse-empty-primary-with-alias"
		}
		if mergeKey {
			cls = "reparse-yaml-merge-key"
		}
		oracleFail("C09", cls, c, fmt.Sprintf("normal form is not a fixpoint over the %s leg:\nfirst : %s\nsecond: %s\nvia   : %s", leg, j1, j2, data))
		return
	}
	// same field values, read off the Go values directly (not through the library's marshallers)
	if pr2 := projPipeline(p2); pr2 != proj1 {
		cls := "reparse-" + leg + "-values-differ"
		if epa {
			cls = "reparse-empty-primary-with-alias"
		}
		if mergeKey {
			cls = "reparse-yaml-merge-key"
		}
		oracleFail("C09", cls, c, fmt.Sprintf("the pipeline re-parsed from its %s marshalling has different field values:\nfirst : %s\nsecond: %s\nvia   : %s", leg, proj1, pr2, data))
		return
	}
	stat("C09", "leg-"+leg+"-ok")
}

func init() {
	props["C09"] = func(rng *sx.Rng, thorough bool) {
		n := 1500
		if thorough {
			n = 40000
		}
		for i := 0; i < n; i++ {
			g := newDocgen(rng, false)
			g.strPool = append(append([]string{}, defaultStrPool...), "line1\r\nline2", "x\ty", " nbsp", " ls", "😀 astral", "key: value", "- item", "? q", "! bang", "0x1f", "0b11", "1_0", "2002-08-15T00:00:00Z", "=", "<<", "~", "null", "Null", "NULL", "y", "n", "Yes", "OFF")
			g.mergeKeys = i%5 == 0
			g.specialKeys = i%2 == 1
			d := g.document()
			text, form := renderDoc(d, i)
			if g.mergeKeys {
				// "<<" as an ordinary key can only be written in JSON (YAML would read it as a merge)
				if !d.jsonOK() {
					continue
				}
				var b bytes.Buffer
				d.jsonText(&b)
				text, form = b.String(), "json"
			}
			c := sx.L(sx.A(form), sx.A(text))
			noteCase("C09", text)
			p, err := pipeline.Parse(strings.NewReader(text))
			if err != nil && !warning.Is(err) {
				continue
			}
			jb, jerr := json.Marshal(p)
			if jerr != nil {
				continue
			}
			// deterministic: repeated marshalling is byte-identical
			for r := 0; r < 4; r++ {
				again, _ := json.Marshal(p)
				if !bytes.Equal(again, jb) {
					oracleFail("C09", "json-nondeterministic", c, fmt.Sprintf("%s\n%s", jb, again))
				}
			}
			j1, _ := canonJSON(jb)
			kinds := stepKinds(p.Steps)
			// model comparison: first and second generation JSON over the JSON leg
			skipModel := emptyPrimaryWithAlias(d) && floatAlias(d)
			if a, derr := decodeText(text); derr == nil && !hasTimestamp(d) {
				// the decoded value tree is the document that was written (strings that look like other types included)
				if want, got := sx.String(dvSexp(d, form == "json")), sx.String(anySexp(a)); want != got {
					oracleFail("C09", "decode-differs-from-document", c, fmt.Sprintf("the document denotes %s but decodes to %s", want, got))
					continue
				}
			}
			if a, derr := decodeText(text); derr == nil && !skipModel {
				if p2, err2 := pipeline.Parse(bytes.NewReader(jb)); err2 == nil || warning.Is(err2) {
					if jb2, e := json.Marshal(p2); e == nil {
						s1, e1 := jsonSexp(jb)
						s2, e2 := jsonSexp(jb2)
						if e1 == nil && e2 == nil {
							fmt.Fprintf(out, "CASE\tC09\t%s\t%s\t1\n", sx.String(anySexp(a)), sx.String(sx.L(s1, s2)))
						}
					}
				}
			}
			c09reparse("json", jb, c, j1, kinds, emptyPrimaryWithAlias(d), projPipeline(p))
			// the YAML-leg exclusion applies to the strings of the parsed pipeline (commands are joined with newlines)
			var outv any
			json.Unmarshal(jb, &outv)
			var strs []string
			collectStrings(outv, &strs)
			excluded := false
			for _, s := range strs {
				if strings.ContainsAny(s, "\n\r\u2028\u2029\u0085") && leadingSpace(s) {
					excluded = true
				}
			}
			if excluded {
				stat("C09", "yaml-leg-indented-block")
			}
			c09indented = excluded
			{
				yb, yerr := yaml.Marshal(p)
				if yerr != nil {
					oracleFail("C09", "yaml-marshal-error", c, yerr.Error())
				} else {
					yb2, _ := yaml.Marshal(p)
					if !bytes.Equal(yb, yb2) {
						oracleFail("C09", "yaml-nondeterministic", c, "two YAML marshallings differ")
					}
					c09reparse("yaml", yb, c, j1, kinds, emptyPrimaryWithAlias(d), projPipeline(p))
					// model comparison over the YAML leg: the value tree of the emitted YAML (member order
					// forgotten) and the JSON of its re-parse. A key spelled << does not survive yaml.v3's
					// emitter (known finding F7) and is left to the oracle above.
					if a, derr := decodeText(text); derr == nil && !skipModel && !excluded && !strings.Contains(j1, `"\u003c\u003c":`) {
						if ya, yerr2 := decodeText(string(yb)); yerr2 == nil {
							if p3, err3 := pipeline.Parse(bytes.NewReader(yb)); err3 == nil || warning.Is(err3) {
								if jb3, e := json.Marshal(p3); e == nil {
									if s3, e3 := jsonSexp(jb3); e3 == nil {
										fmt.Fprintf(out, "CASE\tC09yaml\t%s\t%s\t1\n", sx.String(anySexp(a)), sx.String(sx.L(sortedAnySexp(ya), s3)))
									}
								}
							}
						}
					}
				}
			}
			// stand-alone decoders: one command step, a plugin list
			var walk func(ss pipeline.Steps)
			walk = func(ss pipeline.Steps) {
				for _, s := range ss {
					switch t := s.(type) {
					case *pipeline.CommandStep:
						sb, _ := json.Marshal(t)
						cs := new(pipeline.CommandStep)
						if err := cs.UnmarshalJSON(sb); err != nil {
							oracleFail("C09", "step-unmarshal-error", c, fmt.Sprintf("%v on %s", err, sb))
							continue
						}
						sb2, _ := json.Marshal(cs)
						a, _ := canonJSON(sb)
						b, _ := canonJSON(sb2)
						if a != b && emptyPrimaryWithAlias(d) {
							oracleFail("C09", "reparse-empty-primary-with-alias", c, fmt.Sprintf("CommandStep.UnmarshalJSON changes the step:\n%s\n%s", a, b))
						} else if a != b {
							oracleFail("C09", "step-unmarshal-differs", c, fmt.Sprintf("CommandStep.UnmarshalJSON changes the step:\n%s\n%s", a, b))
						}
						if len(t.Plugins) > 0 {
							pb, _ := json.Marshal(t.Plugins)
							var pl pipeline.Plugins
							if err := pl.UnmarshalJSON(pb); err != nil {
								oracleFail("C09", "plugins-unmarshal-error", c, fmt.Sprintf("%v on %s", err, pb))
								continue
							}
							pb2, _ := json.Marshal(pl)
							if !bytes.Equal(pb, pb2) {
								oracleFail("C09", "plugins-unmarshal-differs", c, fmt.Sprintf("%s\n%s", pb, pb2))
							}
						}
						stat("C09", "standalone-step")
					case *pipeline.GroupStep:
						walk(t.Steps)
					}
				}
			}
			walk(p.Steps)
		}
	}
}
