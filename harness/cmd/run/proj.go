package main

import (
	"encoding/json"
	"fmt"
	"math"
	"sort"
	"time"

	pipeline "github.com/buildkite/go-pipeline"
	"github.com/buildkite/go-pipeline/ordered"
)

// An independent projection of a parsed pipeline's Go value: it reads the exported fields directly and never
// calls the library's Marshal methods, so that "the re-parsed pipeline has the same field values" (C09) can be
// decided even when a marshaller is lossy in an idempotent way. Identified on purpose, because the two output
// formats spell them differently and the property does not distinguish them: nil / empty containers, an
// integral float and the int (JSON has one number type), a timestamp and its RFC 3339 text (JSON has no
// timestamps), and a `skip` that is false with one that is absent (both mean: do not skip). Every other skip
// value - the empty string, zero, an empty container included - means "skip" (ShouldSkip) and is a value like any
// other.

func projAny(v any) any {
	switch t := v.(type) {
	case nil:
		return nil
	case string, bool:
		return t
	case int:
		return float64(t)
	case int64:
		return float64(t)
	case uint64:
		return float64(t)
	case float64:
		if math.IsNaN(t) || math.IsInf(t, 0) {
			return fmt.Sprint(t)
		}
		return t
	case time.Time:
		b, _ := t.MarshalText()
		return string(b)
	case []any:
		if len(t) == 0 {
			return nil
		}
		out := make([]any, len(t))
		for i, e := range t {
			out[i] = projAny(e)
		}
		return out
	case []string:
		if len(t) == 0 {
			return nil
		}
		out := make([]any, len(t))
		for i, e := range t {
			out[i] = e
		}
		return out
	case *ordered.MapSA:
		if t == nil || t.Len() == 0 {
			return nil
		}
		out := []any{"ordered"}
		t.Range(func(k string, e any) error { out = append(out, []any{k, projAny(e)}); return nil })
		return out
	case *ordered.MapSS:
		if t == nil || t.Len() == 0 {
			return nil
		}
		out := []any{"ordered"}
		t.Range(func(k string, e string) error { out = append(out, []any{k, e}); return nil })
		return out
	case map[string]any:
		if len(t) == 0 {
			return nil
		}
		out := []any{"map"}
		for _, k := range sortedKeys(t) {
			out = append(out, []any{k, projAny(t[k])})
		}
		return out
	case map[string]string:
		if len(t) == 0 {
			return nil
		}
		out := []any{"map"}
		ks := make([]string, 0, len(t))
		for k := range t {
			ks = append(ks, k)
		}
		sort.Strings(ks)
		for _, k := range ks {
			out = append(out, []any{k, t[k]})
		}
		return out
	}
	return fmt.Sprintf("unprojected %T", v)
}

func projSkip(v any) any {
	if b, ok := v.(bool); ok && !b {
		return nil
	}
	return projAny(v)
}

func projMatrix(m *pipeline.Matrix) any {
	if m == nil || m.IsEmpty() {
		return nil
	}
	out := map[string]any{"rem": projAny(m.RemainingFields)}
	su := []any{}
	dims := make([]string, 0, len(m.Setup))
	for d := range m.Setup {
		dims = append(dims, d)
	}
	sort.Strings(dims)
	for _, d := range dims {
		su = append(su, []any{d, projAny([]string(m.Setup[d]))})
	}
	if len(su) > 0 {
		out["setup"] = su
	}
	var adj []any
	for _, a := range m.Adjustments {
		if a == nil {
			adj = append(adj, nil)
			continue
		}
		adj = append(adj, map[string]any{"with": projAny(map[string]string(a.With)), "skip": projSkip(a.Skip), "rem": projAny(a.RemainingFields)})
	}
	if len(adj) > 0 {
		out["adjustments"] = adj
	}
	return out
}

func projSteps(ss pipeline.Steps) any {
	out := []any{}
	for _, s := range ss {
		switch t := s.(type) {
		case *pipeline.CommandStep:
			m := map[string]any{"kind": "command", "key": t.Key, "label": t.Label, "command": t.Command,
				"env": projAny(t.Env), "matrix": projMatrix(t.Matrix), "rem": projAny(t.RemainingFields)}
			var pl []any
			for _, p := range t.Plugins {
				pl = append(pl, []any{p.FullSource(), projAny(p.Config)})
			}
			if len(pl) > 0 {
				m["plugins"] = pl
			}
			if t.Signature != nil {
				m["signature"] = []any{t.Signature.Algorithm, projAny(t.Signature.SignedFields), t.Signature.Value}
			}
			if c := t.Cache; c != nil {
				if c.Disabled {
					m["cache"] = false
				} else {
					m["cache"] = map[string]any{"name": c.Name, "paths": projAny(c.Paths), "size": c.Size, "rem": projAny(c.RemainingFields)}
				}
			}
			out = append(out, m)
		case *pipeline.GroupStep:
			var g any
			if t.Group != nil {
				g = *t.Group
			}
			out = append(out, map[string]any{"kind": "group", "key": t.Key, "group": g, "steps": projSteps(t.Steps), "rem": projAny(t.RemainingFields)})
		case *pipeline.WaitStep:
			sc := t.Scalar
			if sc == "" && len(t.Contents) == 0 {
				sc = "wait" // an empty wait step is written "wait"
			}
			out = append(out, map[string]any{"kind": "wait", "scalar": sc, "contents": projAny(t.Contents)})
		case *pipeline.InputStep:
			out = append(out, map[string]any{"kind": "input", "scalar": t.Scalar, "contents": projAny(t.Contents)})
		case *pipeline.TriggerStep:
			out = append(out, map[string]any{"kind": "trigger", "contents": projAny(t.Contents)})
		case *pipeline.UnknownStep:
			out = append(out, map[string]any{"kind": "unknown", "contents": projAny(t.Contents)})
		default:
			out = append(out, fmt.Sprintf("unprojected step %T", s))
		}
	}
	return out
}

// projPipeline renders the projection as canonical JSON text.
func projPipeline(p *pipeline.Pipeline) string {
	v := map[string]any{"steps": projSteps(p.Steps), "env": projAny(p.Env), "rem": projAny(p.RemainingFields)}
	b, err := json.Marshal(v)
	if err != nil {
		return "projection error: " + err.Error()
	}
	return string(b)
}
