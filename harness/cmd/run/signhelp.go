package main

import (
	"bytes"
	"context"
	"crypto"
	"crypto/ecdsa"
	"crypto/elliptic"
	"crypto/rand"
	"fmt"
	"io"
	"strings"

	pipeline "github.com/buildkite/go-pipeline"
	"github.com/buildkite/go-pipeline/jwkutil"
	"github.com/buildkite/go-pipeline/signature"
	"github.com/lestrrat-go/jwx/v2/jwa"
	"github.com/lestrrat-go/jwx/v2/jwk"
	"verifharness/sx"
)

// payloadLogger captures the canonical payload Sign/Verify log under WithDebugSigning.
type payloadLogger struct{ payloads [][]byte }

func (l *payloadLogger) Debug(f string, v ...any) {
	if strings.HasPrefix(f, "Signed Step:") && len(v) > 0 {
		if b, ok := v[0].([]byte); ok {
			l.payloads = append(l.payloads, append([]byte{}, b...))
		}
	}
}

// ecSigner: an ES256 crypto.Signer usable as signature.Key
type ecSigner struct{ *ecdsa.PrivateKey }

func (ecSigner) Algorithm() jwa.KeyAlgorithm { return jwa.ES256 }
func (s ecSigner) Sign(r io.Reader, digest []byte, opts crypto.SignerOpts) ([]byte, error) {
	return s.PrivateKey.Sign(r, digest, opts)
}

type signKey struct {
	name   string // model-side key name = its algorithm name (so that alg_of k = name) + index suffix stripped in alg
	alg    string
	priv   signature.Key // for Sign
	verify any           // for Verify: jwk.Set or crypto.Signer
}

var signKeys []signKey

// signKeyPool: generated once per run
func signKeyPool(thorough bool) []signKey {
	if signKeys != nil {
		return signKeys
	}
	algs := []jwa.SignatureAlgorithm{jwa.EdDSA, jwa.EdDSA}
	if thorough {
		algs = append(algs, jwa.ES512, jwa.PS512)
	}
	for i, a := range algs {
		priv, pub, err := jwkutil.NewKeyPair(fmt.Sprintf("kid-%d", i), a)
		if err != nil {
			panic(err)
		}
		k, _ := priv.Key(0)
		signKeys = append(signKeys, signKey{name: a.String(), alg: a.String(), priv: k.(jwk.Key), verify: pub})
	}
	ec, _ := ecdsa.GenerateKey(elliptic.P256(), rand.Reader)
	s := ecSigner{ec}
	signKeys = append(signKeys, signKey{name: "ES256", alg: "ES256", priv: s, verify: s})
	return signKeys
}

// stepFromDoc renders a step document as JSON and loads it the way an agent receives a job
func stepFromDoc(d *dv) (*pipeline.CommandStep, string, error) {
	var b bytes.Buffer
	d.jsonText(&b)
	cs := new(pipeline.CommandStep)
	err := cs.UnmarshalJSON(b.Bytes())
	return cs, b.String(), err
}

func docSexp(text string) (sx.S, error) {
	a, err := decodeText(text)
	if err != nil {
		return nil, err
	}
	return anySexp(a), nil
}

func pairsSexp(m map[string]string) sx.S {
	l := sx.List{}
	for _, k := range sortedKeys(m) {
		l = append(l, sx.L(sx.A(k), sx.A(m[k])))
	}
	return l
}

func signPayload(key signKey, cs *pipeline.CommandStep, repo string, penv map[string]string) (*pipeline.Signature, []byte, error) {
	lg := &payloadLogger{}
	sg, err := signature.Sign(context.Background(), key.priv,
		&signature.CommandStepWithInvariants{CommandStep: *cs, RepositoryURL: repo},
		signature.WithEnv(penv), signature.WithLogger(lg), signature.WithDebugSigning(true))
	if err != nil {
		return nil, nil, err
	}
	if len(lg.payloads) != 1 {
		return sg, nil, fmt.Errorf("expected one payload in the debug log, got %d", len(lg.payloads))
	}
	return sg, lg.payloads[0], nil
}

// verifyPayload: Verify with debug logging on; the payload it rebuilt from the presented step
func verifyPayload(key signKey, sg *pipeline.Signature, cs *pipeline.CommandStep, repo string, penv map[string]string) ([]byte, error) {
	lg := &payloadLogger{}
	err := signature.Verify(context.Background(), sg, key.verify,
		&signature.CommandStepWithInvariants{CommandStep: *cs, RepositoryURL: repo},
		signature.WithEnv(penv), signature.WithLogger(lg), signature.WithDebugSigning(true))
	if len(lg.payloads) != 1 {
		return nil, err
	}
	return lg.payloads[0], err
}

func verifyStep(key signKey, sg *pipeline.Signature, cs *pipeline.CommandStep, repo string, penv map[string]string) error {
	return signature.Verify(context.Background(), sg, key.verify,
		&signature.CommandStepWithInvariants{CommandStep: *cs, RepositoryURL: repo}, signature.WithEnv(penv))
}

// signable command-step document: only JSON-safe content (this is what is signed and shipped as JSON)
func (g *docgen) signableStep() *dv {
	m := dMap()
	switch g.rng.Intn(4) {
	case 0:
		m.set("commands", dList(dStr(sx.Pick(g.rng, g.strPool)), dStr("second")))
	case 1: // plugins only
	default:
		m.set("command", dStr(sx.Pick(g.rng, g.strPool)))
		if g.rng.Chance(8) {
			m.set("command", dStr(sx.Pick(g.rng, []string{"line1\r\nline2", "a\rb", "tab\tsep", "trail\n", "\r\n", "x\u2028y"})))
		}
	}
	if !m.has("command") && !m.has("commands") || g.rng.Chance(50) {
		pl := g.plugins()
		for !pl.jsonOK() {
			pl = g.plugins()
		}
		m.set("plugins", pl)
	}
	if g.rng.Chance(55) {
		m.set("env", g.envMap())
	}
	if g.rng.Chance(40) {
		mx := g.matrix()
		for !mx.jsonOK() {
			mx = g.matrix()
		}
		m.set("matrix", mx)
	}
	if g.rng.Chance(30) {
		m.set("label", g.str())
	}
	if g.rng.Chance(30) {
		m.set("key", dStr("k"+g.mark()))
	}
	if g.rng.Chance(25) {
		m.set("agents", dMap(dkv{"queue", dStr("q")}))
	}
	g.shuffle(m)
	return m
}

func (g *docgen) pipelineEnv() map[string]string {
	e := map[string]string{}
	for k := g.rng.Intn(4); k > 0; k-- {
		e[sx.Pick(g.rng, []string{"FOO1", "BAR2", "DEPLOY", "CI", "A_B3", "lower4", "FOO", "BAR", "version", "env_mode", "node_env", "nv", "e", "vvv:x"})] = sx.Pick(g.rng, g.strPool)
	}
	return e
}
