package main

import (
	"bytes"
	"context"
	"encoding/json"
	"fmt"
	"strings"
	"sync"

	pipeline "github.com/buildkite/go-pipeline"
	"github.com/buildkite/go-pipeline/jwkutil"
	"github.com/buildkite/go-pipeline/ordered"
	"github.com/buildkite/go-pipeline/signature"
	"github.com/buildkite/go-pipeline/warning"
	"github.com/davecgh/go-spew/spew"
	"github.com/lestrrat-go/jwx/v2/jwk"
	"gopkg.in/yaml.v3"
	"verifharness/sx"
)

// one complete use of the library on its own objects; the result is a digest string
// c19envSource: one map from which many library environments are built (each call site reads it; nobody may write it)
var c19envSource = map[string]string{"FOO": "vfoo", "BAR": "b"}

const c19envSourceWant = "map[BAR:b FOO:vfoo]"

// env modes: 0 the harness's own environment, 1 none (the library supplies one), 2 the library's environment type,
// built from the shared source map
func c19work(text string, key signKey, penv map[string]string, envMode int) string {
	p, err := pipeline.Parse(strings.NewReader(text))
	if err != nil && !warning.Is(err) {
		return "parse-error"
	}
	parseWarning := fmt.Sprint(err) // part of the result: warnings are data handed to the caller too
	if envMode == 1 {
		// no caller environment: the library supplies its own, which must be private to this call
		if err := p.Interpolate(nil, false); err != nil {
			return "interpolate-error: " + err.Error()
		}
	} else if envMode == 2 {
		if err := p.Interpolate(pipeline.VerifEnvFromMap(true, c19envSource), false); err != nil {
			return "interpolate-error: " + err.Error()
		}
	} else {
		env := &hEnv{m: map[string]string{"FOO": "vfoo", "BAR": "b"}}
		if err := p.Interpolate(env, false); err != nil {
			return "interpolate-error: " + err.Error()
		}
	}
	jb, err := json.Marshal(p)
	if err != nil {
		return "marshal-error"
	}
	yb, _ := yaml.Marshal(p)
	res := string(jb) + "|" + fmt.Sprint(len(yb)) + "|" + parseWarning
	if err := signature.SignSteps(context.Background(), p.Steps, key.priv, "repo", signature.WithEnv(penv)); err != nil {
		return res + "|refused"
	}
	n := 0
	var walk func(ss pipeline.Steps)
	walk = func(ss pipeline.Steps) {
		for _, s := range ss {
			switch t := s.(type) {
			case *pipeline.CommandStep:
				if verifyStep(key, t.Signature, t, "repo", penv) == nil {
					n++
				}
				// signature values are randomised (EdDSA is deterministic, ECDSA / PSS are not): digest the field list only
				res += "|" + strings.Join(t.Signature.SignedFields, ",")
			case *pipeline.GroupStep:
				walk(t.Steps)
			}
		}
	}
	walk(p.Steps)
	return res + fmt.Sprintf("|verified=%d", n)
}

var c19spew = spew.ConfigState{DisablePointerAddresses: true, DisableCapacities: true, SortKeys: true, Indent: " "}

// deep dump following pointers (unexported fields included), without addresses
func c19snapshot(v any) string { return c19spew.Sdump(v) }

func init() {
	props["C19"] = func(rng *sx.Rng, thorough bool) {
		keys := signKeyPool(thorough)
		rounds := 20
		if thorough {
			rounds = 500
		}
		const G = 16
		for r := 0; r < rounds; r++ {
			// ---- (a) distinct objects in 16 goroutines = sequential results
			texts := make([]string, G)
			penvs := make([]map[string]string, G)
			for i := range texts {
				g := newDocgen(rng, false)
				// each pipeline defines one LEAK variable in its env block and reads a different one, which nothing
				// in ITS OWN input defines: what it reads must not depend on which other pipelines ran before
				steps := g.signableSteps(2, 4, i%4 == 0)
				steps.l = append(steps.l, dMap(dkv{"command", dStr(fmt.Sprintf("echo [${LEAK%d}]", (i+1)%3))}))
				doc := dMap(dkv{"steps", steps}, dkv{"env", dMap(dkv{"A", dStr("$FOO")}, dkv{"B", dStr("x")}, dkv{fmt.Sprintf("LEAK%d", i%3), dStr(fmt.Sprintf("val%d", i))})})
				var b bytes.Buffer
				doc.jsonText(&b)
				texts[i] = b.String()
				penvs[i] = g.pipelineEnv()
			}
			seq := make([]string, G)
			for i := range texts {
				seq[i] = c19work(texts[i], keys[i%len(keys)], penvs[i], i%3)
			}
			// no hidden state: the same input gives the same result again, after the others have run
			for i := range texts {
				if again := c19work(texts[i], keys[i%len(keys)], penvs[i], i%3); again != seq[i] {
					oracleFail("C19", "hidden-state", sx.A(texts[i]), fmt.Sprintf("the same input processed again after other pipelines gives a different result:\nfirst : %q\nsecond: %q", seq[i], again))
				}
			}
			con := make([]string, G)
			var wg sync.WaitGroup
			for i := range texts {
				wg.Add(1)
				go func(i int) {
					defer wg.Done()
					defer func() {
						if x := recover(); x != nil {
							con[i] = fmt.Sprint("panic: ", x)
						}
					}()
					con[i] = c19work(texts[i], keys[i%len(keys)], penvs[i], i%3)
				}(i)
			}
			wg.Wait()
			for i := range texts {
				if seq[i] != con[i] {
					oracleFail("C19", "concurrent-differs", sx.A(texts[i]), fmt.Sprintf("sequential result %q, concurrent result %q", seq[i], con[i]))
				}
			}
			if got := fmt.Sprint(c19envSource); got != c19envSourceWant {
				oracleFail("C19", "hidden-state", sx.A("env-source-map"), fmt.Sprintf("the map from which the interpolation environments were built was written to: %s, was %s", got, c19envSourceWant))
				c19envSource = map[string]string{"FOO": "vfoo", "BAR": "b"}
			}
			stat("C19", "rounds-distinct-objects")

			// ---- (b) shared read-only objects: an ordered map with tombstones, a pipeline, a key set
			om := ordered.NewMap[string, any](0)
			for i := 0; i < 30; i++ {
				om.Set(fmt.Sprint("k", i), i)
			}
			for i := 0; i < 30; i += 3 {
				om.Replace(fmt.Sprint("k", i), fmt.Sprint("k", i+1), "renamed") // leaves tombstones
			}
			om.Delete("k4")
			if r%2 == 1 {
				// a map in which at least half of the slots are tombstones: only renames onto existing keys leave a map
				// in that state (Delete would compact it), and no read path may tidy it up
				om = ordered.NewMap[string, any](0)
				for i := 0; i < 12; i++ {
					om.Set(fmt.Sprint("k", i), i)
				}
				for i := 0; i < 12; i += 2 {
					om.Replace(fmt.Sprint("k", i), fmt.Sprint("k", i+1), "renamed")
				}
			}
			// values nested in the shared map: lists holding ordered maps (whose keys are not sorted), at two depths
			{
				inner := func() *ordered.MapSA {
					m := ordered.NewMap[string, any](0)
					m.Set("zulu", 1)
					m.Set("mike", []any{"x"})
					m.Set("alpha", "a")
					return m
				}
				om.Set("nested-list", []any{inner(), "scalar", []any{inner()}})
			}
			// (the dump of the shared map is taken now, before anything has observed it)
			omBefore := c19snapshot(om)
			om2 := ordered.NewMap[string, any](0)
			om.Range(func(k string, v any) error { om2.Set(k, v); return nil })
			if after := c19snapshot(om); after != omBefore {
				oracleFail("C19", "observer-mutates", sx.A(fmt.Sprintf("ordered map built by 12 Set and 6 colliding Replace (round %d)", r)), "Range changed the map it ranged over:\n"+firstDiff(omBefore, after))
			}
			g := newDocgen(rng, false)
			sdoc := dMap(dkv{"steps", g.signableSteps(2, 5, false)})
			sdoc.get("steps").l = append(sdoc.get("steps").l, dMap(dkv{"command", dStr("x")},
				dkv{"plugins", dList(dMap(dkv{"artifacts#v1", dMap()}), dMap(dkv{"other#v2", dList()}))},
				dkv{"matrix", dMap(dkv{"setup", dMap()})}, dkv{"env", dMap()}))
			var sb bytes.Buffer
			sdoc.jsonText(&sb)
			shared, perr := pipeline.Parse(strings.NewReader(sb.String()))
			if perr != nil && !warning.Is(perr) {
				continue
			}
			key := keys[r%len(keys)]
			// a second, never signed copy: only observers touch it (signing marshals plugins and matrices too)
			fresh, _ := pipeline.Parse(strings.NewReader(sb.String()))
			if r%2 == 1 {
				// values only an API user builds: a matrix dimension whose value list is nil
				c06nilDims(shared.Steps, false)
				c06nilDims(fresh.Steps, false)
			}
			freshBefore := c19snapshot(*fresh)
			signedBefore := c19snapshot(*shared)
			signature.SignSteps(context.Background(), shared.Steps, key.priv, "repo")
			eraseSigs(shared.Steps)
			if after := c19snapshot(*shared); after != signedBefore {
				oracleFail("C19", "sign-mutates", sx.A(sb.String()), "SignSteps changed more than the signatures:\n"+signedBefore+"\n"+after)
			}
			signature.SignSteps(context.Background(), shared.Steps, key.priv, "repo")
			// a signature whose field list is in another order (a different signer's) is as valid; verifying it
			// must not reorder it
			if r%2 == 0 {
				var rev func(ss pipeline.Steps)
				rev = func(ss pipeline.Steps) {
					for _, st := range ss {
						switch t := st.(type) {
						case *pipeline.CommandStep:
							if t.Signature != nil {
								f := t.Signature.SignedFields
								for a, b := 0, len(f)-1; a < b; a, b = a+1, b-1 {
									f[a], f[b] = f[b], f[a]
								}
							}
						case *pipeline.GroupStep:
							rev(t.Steps)
						}
					}
				}
				rev(shared.Steps)
			}
			ks, _ := key.verify.(jwk.Set)
			before := c19snapshot(om) + c19snapshot(*shared)
			jBefore, _ := json.Marshal(shared)
			var wg2 sync.WaitGroup
			errs := make([]string, G)
			for i := 0; i < G; i++ {
				wg2.Add(1)
				go func(i int) {
					defer wg2.Done()
					defer func() {
						if x := recover(); x != nil {
							errs[i] = fmt.Sprint("panic: ", x)
						}
					}()
					for rep := 0; rep < 5; rep++ {
						if _, ok := om.Get("k1"); !ok {
							errs[i] = "Get(k1) missing"
						}
						om.Contains("k5")
						om.Len()
						om.IsZero()
						cnt := 0
						om.Range(func(string, any) error { cnt++; return nil })
						if cnt != om.Len() {
							errs[i] = "Range/Len disagree"
						}
						if !ordered.EqualSA(om, om2) || !ordered.EqualSA(om, om) {
							errs[i] = "Equal false"
						}
						om.ToMap()
						ordered.ToMapRecursive(om) // a conversion is an observer too: the result is new, the source stays
						if _, err := json.Marshal(om); err != nil {
							errs[i] = err.Error()
						}
						if _, err := yaml.Marshal(om); err != nil {
							errs[i] = err.Error()
						}
						jb, _ := json.Marshal(shared)
						if !bytes.Equal(jb, jBefore) {
							errs[i] = "shared pipeline marshals differently"
						}
						yaml.Marshal(shared)
						json.Marshal(fresh)
						yaml.Marshal(fresh)
						for _, s := range shared.Steps {
							if cs, ok := s.(*pipeline.CommandStep); ok && cs.Signature != nil {
								if err := verifyStep(key, cs.Signature, cs, "repo", nil); err != nil {
									errs[i] = "shared step does not verify: " + err.Error()
								}
								(&pipeline.Plugin{Source: "docker#v1"}).FullSource()
							}
						}
						if ks != nil {
							if k0, ok := ks.Key(0); ok {
								if err := jwkutil.Validate(k0); err != nil {
									errs[i] = "shared key does not validate: " + err.Error()
								}
							}
						}
					}
				}(i)
			}
			wg2.Wait()
			for _, e := range errs {
				if e != "" {
					oracleFail("C19", "shared-read", sx.A(sb.String()), e)
				}
			}
			// ---- (c) observers never modify what they observe
			if fa := c19snapshot(*fresh); fa != freshBefore {
				oracleFail("C19", "observer-mutates", sx.A(sb.String()), "marshalling changed the pipeline it observed:\n"+freshBefore+"\n"+fa)
			}
			after := c19snapshot(om) + c19snapshot(*shared)
			if before != after {
				oracleFail("C19", "observer-mutates", sx.A(sb.String()), "internal representation changed under observers:\n"+before+"\n"+after)
			}
			stat("C19", "rounds-shared-read-only")
			// a random map history through the C05 comparison as well (same binary, race detector on)
			c05random(rng, 2)
		}
	}
}
