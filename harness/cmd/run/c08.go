package main

import (
	"bytes"
	"encoding/json"
	"fmt"
	"strings"

	pipeline "github.com/buildkite/go-pipeline"
	"github.com/buildkite/go-pipeline/ordered"
	"github.com/buildkite/go-pipeline/warning"
	"gopkg.in/yaml.v3"
	"verifharness/sx"
)

var c08keyPool = []string{"zeta", "alpha", "Beta", "k with space", "yes", "no", "true", "null", "~", "1", "007", "0x1f", "1.5", "1e3", "-", "?q", ": c", "#h", "a:b", "[x]", "{y}", "*s", "&a", "!t", "|", ">", "%p", "@a", "`b", "é", "日本", "", " lead", "trail ", "2002-08-15", "a\"q", "a'q", "tab\tk", "UPPER", "under_score", "dash-ed", "dot.ted", "slash/ed", "plus+", "comma,", "=", "\\back", "x y z"}

func c08keys(rng *sx.Rng, n int, forYAML bool) []string {
	seen := map[string]bool{}
	var out []string
	for len(out) < n {
		k := sx.Pick(rng, c08keyPool)
		if rng.Chance(50) {
			k = fmt.Sprintf("%s%d", k, rng.Intn(1000))
		}
		if seen[k] || k == "<<" {
			continue
		}
		seen[k] = true
		out = append(out, k)
	}
	return out
}

// jsonKeyOrderAt: member names, in token order, of the object found by following path in JSON bytes
func jsonKeyOrderAt(b []byte, path []any) ([]string, error) {
	dec := json.NewDecoder(bytes.NewReader(b))
	var walk func(path []any) ([]string, error)
	skip := func() error {
		var v json.RawMessage
		return dec.Decode(&v)
	}
	walk = func(path []any) ([]string, error) {
		t, err := dec.Token()
		if err != nil {
			return nil, err
		}
		d, ok := t.(json.Delim)
		if !ok {
			return nil, fmt.Errorf("not a container")
		}
		if len(path) == 0 {
			if d != '{' {
				return nil, fmt.Errorf("not an object")
			}
			var keys []string
			for dec.More() {
				kt, err := dec.Token()
				if err != nil {
					return nil, err
				}
				keys = append(keys, kt.(string))
				if err := skip(); err != nil {
					return nil, err
				}
			}
			return keys, nil
		}
		switch p := path[0].(type) {
		case string:
			for dec.More() {
				kt, err := dec.Token()
				if err != nil {
					return nil, err
				}
				if kt.(string) == p {
					return walk(path[1:])
				}
				if err := skip(); err != nil {
					return nil, err
				}
			}
			return nil, fmt.Errorf("key %q not found", p)
		case int:
			for i := 0; dec.More(); i++ {
				if i == p {
					return walk(path[1:])
				}
				if err := skip(); err != nil {
					return nil, err
				}
			}
			return nil, fmt.Errorf("index %d not found", p)
		}
		return nil, fmt.Errorf("bad path")
	}
	return walk(path)
}

func yamlKeyOrderAt(b []byte, path []any) ([]string, error) {
	var n yaml.Node
	if err := yaml.Unmarshal(b, &n); err != nil {
		return nil, err
	}
	cur := n.Content[0]
	for _, p := range path {
		switch pp := p.(type) {
		case string:
			found := false
			for i := 0; i+1 < len(cur.Content); i += 2 {
				if cur.Content[i].Value == pp {
					cur = cur.Content[i+1]
					found = true
					break
				}
			}
			if !found {
				return nil, fmt.Errorf("key %q not found", pp)
			}
		case int:
			if pp >= len(cur.Content) {
				return nil, fmt.Errorf("index %d", pp)
			}
			cur = cur.Content[pp]
		}
	}
	var keys []string
	for i := 0; i+1 < len(cur.Content); i += 2 {
		keys = append(keys, cur.Content[i].Value)
	}
	return keys, nil
}

func init() {
	props["C08"] = func(rng *sx.Rng, thorough bool) {
		c08collidingKeys()
		c08sharedMerges()
		n := 400
		if thorough {
			n = 8000
		}
		for it := 0; it < n; it++ {
			size := 1 + rng.Intn(40)
			keys := c08keys(rng, size, true)
			mk := func() *dv {
				m := dMap()
				for _, k := range keys {
					m.set(k, dStr("v"))
				}
				return m
			}
			// the plugin-source form of the keys (a plugin mapping key is canonicalised; use path-like keys so they stay)
			pluginKeys := make([]string, len(keys))
			pm := dMap()
			for i, k := range keys {
				pluginKeys[i] = "./p/" + k
				pm.set(pluginKeys[i], dMap(dkv{"c", dInt(int64(i))}))
			}
			envm := mk()
			for j := range envm.m {
				if rng.Chance(20) {
					envm.m[j].v = dNull() // a variable declared without a value
				}
			}
			doc := dMap(
				dkv{"env", envm},
				dkv{"steps", dList(
					dMap(dkv{"command", dStr("x")}, dkv{"plugins", pm}, dkv{"unknown_field", dMap(dkv{"nested", mk()})}),
					dMap(dkv{"mystery", mk()}, dkv{"deep", dList(mk())}, dkv{"deeper", dList(dList(dStr("scalar"), dList(mk())), dList(mk(), dInt(1)))}),
				)},
				dkv{"top_extra", dMap(dkv{"inner", mk()})},
			)
			form := it % 3
			text, fname := renderDoc(doc, form)
			c := sx.L(sx.A(fname), sx.A(text))
			noteCase("C08", text)
			p, err := pipeline.Parse(strings.NewReader(text))
			if err != nil && !warning.Is(err) {
				oracleFail("C08", "parse-error", c, err.Error())
				continue
			}
			jb, jerr := json.Marshal(p)
			yb, yerr := yaml.Marshal(p)
			if jerr != nil || yerr != nil {
				oracleFail("C08", "marshal-error", c, fmt.Sprint(jerr, yerr))
				continue
			}
			type pos struct {
				name string
				path []any
				want []string
			}
			positions := []pos{
				{"env-block", []any{"env"}, keys},
				{"plugins-mapping", nil, pluginKeys}, // handled below: list of single-entry objects
				{"nested-unknown-field", []any{"steps", 0, "unknown_field", "nested"}, keys},
				{"unknown-step", []any{"steps", 1, "mystery"}, keys},
				{"unknown-step-deep", []any{"steps", 1, "deep", 0}, keys},
				{"list-in-list-in-list", []any{"steps", 1, "deeper", 0, 1, 0}, keys},
				{"list-in-list", []any{"steps", 1, "deeper", 1, 0}, keys},
				{"top-level-extra", []any{"top_extra", "inner"}, keys},
			}
			bad := false
			for _, ps := range positions {
				if ps.name == "plugins-mapping" {
					var got []string
					for i := range keys {
						ks, err := jsonKeyOrderAt(jb, []any{"steps", 0, "plugins", i})
						if err != nil || len(ks) != 1 {
							got = nil
							break
						}
						got = append(got, ks[0])
					}
					if fmt.Sprint(got) != fmt.Sprint(ps.want) {
						oracleFail("C08", "order-plugins-mapping", c, fmt.Sprintf("plugins came out as %q want %q", got, ps.want))
						bad = true
					}
					continue
				}
				gj, err := jsonKeyOrderAt(jb, ps.path)
				if err != nil || fmt.Sprint(gj) != fmt.Sprint(ps.want) {
					oracleFail("C08", "order-json-"+ps.name, c, fmt.Sprintf("JSON key order %q want %q (%v)", gj, ps.want, err))
					bad = true
					continue
				}
				hasMerge := false
				for _, k := range ps.want {
					if k == "<<" {
						hasMerge = true
					}
				}
				gy, err := yamlKeyOrderAt(yb, ps.path)
				if !hasMerge && (err != nil || fmt.Sprint(gy) != fmt.Sprint(ps.want)) {
					oracleFail("C08", "order-yaml-"+ps.name, c, fmt.Sprintf("YAML key order %q want %q (%v)", gy, ps.want, err))
					bad = true
				}
			}
			if bad {
				continue
			}
			stat("C08", fmt.Sprintf("size-%d..", size/10*10))
			// model comparison (parse + marshal, member order included)
			if r, badp := runParse(text, fname); badp == "" && r != nil && r.obs != nil {
				fmt.Fprintf(out, "CASE\tC03\t%s\t%s\t1\n", sx.String(r.caseSx), sx.String(r.obs))
			}

			// merged keys stand where the merge key stood (YAML input only)
			if it%4 == 0 {
				half := len(keys) / 2
				var b strings.Builder
				b.WriteString("base: &b\n")
				src := c08keys(rng, 1+rng.Intn(5), true)
				for _, k := range src {
					kb, _ := yaml.Marshal(k)
					fmt.Fprintf(&b, "  %s: m\n", strings.TrimSpace(string(kb)))
				}
				// keys of the merged mapping that the target overrides AFTER the merge key, one of them spelled
				// non-canonically (0x10 for 16, True for true): the merged pair is suppressed, the override
				// stands at its own (later) position
				overrides := map[string]string{}
				clash := false
				for _, k := range append(append([]string{}, keys...), src...) {
					if k == "16" || k == "true" {
						clash = true
					}
				}
				if !clash && rng.Chance(60) {
					b.WriteString("  16: m\n  true: m\n")
					overrides["16"] = sx.Pick(rng, []string{"0x10", "16", "0o20"})
					overrides["true"] = sx.Pick(rng, []string{"True", "true", "TRUE"})
				}
				b.WriteString("steps: []\ntarget:\n")
				var want []string
				for i, k := range keys {
					if i == half {
						b.WriteString("  <<: *b\n")
						for _, s := range src {
							dup := false
							for _, k2 := range keys {
								if k2 == s {
									dup = true
								}
							}
							if !dup {
								want = append(want, s)
							}
						}
					}
					kb, _ := yaml.Marshal(k)
					fmt.Fprintf(&b, "  %s: e\n", strings.TrimSpace(string(kb)))
					want = append(want, k)
				}
				for _, canon := range sortedKeys(overrides) {
					fmt.Fprintf(&b, "  %s: override\n", overrides[canon])
					want = append(want, canon)
				}
				mt := b.String()
				mc := sx.L(sx.A("yaml-merge"), sx.A(mt))
				mp, err := pipeline.Parse(strings.NewReader(mt))
				if err != nil && !warning.Is(err) {
					oracleFail("C08", "merge-parse-error", mc, err.Error())
					continue
				}
				mj, _ := json.Marshal(mp)
				got, err := jsonKeyOrderAt(mj, []any{"target"})
				if err != nil || fmt.Sprint(got) != fmt.Sprint(want) {
					oracleFail("C08", "order-merge", mc, fmt.Sprintf("merged mapping came out as %q want %q (%v)", got, want, err))
					continue
				}
				stat("C08", "merge-position")
				if r, badp := runParse(mt, "yaml-merge"); badp == "" && r != nil && r.obs != nil {
					fmt.Fprintf(out, "CASE\tC03\t%s\t%s\t1\n", sx.String(r.caseSx), sx.String(r.obs))
				}
			}

			// an ordered map built programmatically survives encode + decode
			om := ordered.NewMap[string, any](0)
			for i, k := range keys {
				switch i % 4 {
				case 0:
					om.Set(k, "s")
				case 1:
					om.Set(k, i)
				case 2:
					inner := ordered.NewMap[string, any](0)
					for _, k2 := range keys[:1+i%3] {
						inner.Set(k2, true)
					}
					om.Set(k, inner)
				default:
					om.Set(k, []any{"a", nil})
				}
			}
			// "built programmatically" also means edited: deletions (with and without compaction), replacements
			// (fresh name, same name, colliding with a later or earlier key) and re-insertions
			edits := ""
			if rng.Chance(25) {
				// built by the constructor from a pair list in which keys repeat (later pairs overwrite in place)
				var items []ordered.TupleSA
				for _, k := range keys {
					items = append(items, ordered.TupleSA{Key: k, Value: "first"})
				}
				for k := rng.Intn(4); k > 0; k-- {
					items = append(items, ordered.TupleSA{Key: keys[rng.Intn(len(keys))], Value: "again"})
				}
				om = ordered.MapFromItems(items...)
				edits = "I"
			}
			for e := rng.Intn(6); e > 0 && om.Len() > 1; e-- {
				var live []string
				om.Range(func(k string, _ any) error { live = append(live, k); return nil })
				k := live[rng.Intn(len(live))]
				switch rng.Intn(6) {
				case 4:
					// rename of a key that is not there, onto a live key: the live key moves to the end
					om.Replace("absent-key", k, "a")
					edits += "A"
				case 5:
					om.Replace("absent-key", "fresh-"+k, "f")
					edits += "F"
				case 0:
					om.Delete(k)
					edits += "D"
				case 1:
					om.Replace(k, k+"'", "r")
					edits += "R"
				case 2:
					om.Replace(k, live[rng.Intn(len(live))], "c")
					edits += "C"
				default:
					om.Delete(k)
					om.Set(k, "again")
					edits += "S"
				}
			}
			if edits != "" {
				stat("C08", "omap-edited")
			}
			var liveKeys []string
			om.Range(func(k string, _ any) error { liveKeys = append(liveKeys, k); return nil })
			if jb2, err := json.Marshal(om); err == nil {
				if got, err := jsonKeyOrderAt(jb2, nil); err != nil || fmt.Sprint(got) != fmt.Sprint(liveKeys) {
					oracleFail("C08", "omap-json-keys", sx.L(sx.A(edits), sx.A(string(jb2))), fmt.Sprintf("JSON members %q but the map holds %q", got, liveKeys))
				}
			}
			if jb2, err := json.Marshal(om); err == nil {
				back := ordered.NewMap[string, any](0)
				if err := json.Unmarshal(jb2, back); err != nil || !ordered.EqualSA(om, back) {
					oracleFail("C08", "omap-json-roundtrip", sx.A(string(jb2)), fmt.Sprintf("ordered map differs after JSON encode+decode (err=%v)", err))
				}
			}
			hasMergeKey := false
			if yb2, err := yaml.Marshal(om); err == nil && !hasMergeKey {
				back := ordered.NewMap[string, any](0)
				if err := yaml.Unmarshal(yb2, back); err != nil || !ordered.EqualSA(om, back) {
					oracleFail("C08", "omap-yaml-roundtrip", sx.A(string(yb2)), fmt.Sprintf("ordered map differs after YAML encode+decode (err=%v)", err))
				}
			}
			stat("C08", "omap-roundtrip")
			// ordered maps with typed values: the same keys, values and order after encode + decode, through both
			// formats; and a shallow decode (values kept as YAML nodes) keeps the keys in order
			{
				ss := ordered.NewMap[string, string](0)
				si := ordered.NewMap[string, int](0)
				sl := ordered.NewMap[string, []string](0)
				nk := len(keys)
				for j := 0; j < nk; j++ {
					k := fmt.Sprintf("t%d-%d", rng.Intn(50), j)
					ss.Set(k, sx.Pick(rng, []string{"", "v", "true", "1", "multi\nline", "~"}))
					si.Set(k, rng.Intn(100)-50)
					sl.Set(k, [][]string{{}, {"a"}, {"a", "", "b"}}[rng.Intn(3)])
				}
				if nk > 1 {
					ss.Delete("absent")
					var first string
					ss.Range(func(k string, _ string) error { first = k; return fmt.Errorf("stop") })
					ss.Delete(first)
					ss.Set(first, "again at the end")
				}
				c08typed(ss, ordered.NewMap[string, string](0), ordered.NewMap[string, string](0), func(a, b string) bool { return a == b })
				c08typed(si, ordered.NewMap[string, int](0), ordered.NewMap[string, int](0), func(a, b int) bool { return a == b })
				c08typed(sl, ordered.NewMap[string, []string](0), ordered.NewMap[string, []string](0), func(a, b []string) bool { return fmt.Sprintf("%q", a) == fmt.Sprintf("%q", b) })
				if yb3, err := yaml.Marshal(om); err == nil {
					shallow := ordered.NewMap[string, *yaml.Node](0)
					var got []string
					err := yaml.Unmarshal(yb3, shallow)
					shallow.Range(func(k string, n *yaml.Node) error {
						if n == nil {
							k += " (nil node)"
						}
						got = append(got, k)
						return nil
					})
					if om.Len() > 0 && (err != nil || fmt.Sprint(got) != fmt.Sprint(liveKeys)) {
						oracleFail("C08", "omap-shallow-decode", sx.A(string(yb3)), fmt.Sprintf("decoding into an ordered map of YAML nodes gives keys %q (err=%v), the map holds %q", got, err, liveKeys))
					}
				}
				stat("C08", "omap-typed-roundtrip")
			}
		}
	}
}

// c08typed: an ordered map with typed values survives JSON and YAML encode + decode
func c08typed[V any](m, viaJSON, viaYAML *ordered.Map[string, V], eq func(a, b V) bool) {
	same := func(a, b *ordered.Map[string, V]) string {
		var ka, kb []string
		var va, vb []V
		a.Range(func(k string, v V) error { ka, va = append(ka, k), append(va, v); return nil })
		b.Range(func(k string, v V) error { kb, vb = append(kb, k), append(vb, v); return nil })
		if fmt.Sprintf("%q", ka) != fmt.Sprintf("%q", kb) {
			return fmt.Sprintf("keys %q became %q", ka, kb)
		}
		for i := range va {
			if !eq(va[i], vb[i]) {
				return fmt.Sprintf("value of %q: %v became %v", ka[i], va[i], vb[i])
			}
		}
		return ""
	}
	if m.Len() == 0 {
		return // an empty mapping is `{}`: nothing to keep in order
	}
	if jb, err := json.Marshal(m); err != nil {
		oracleFail("C08", "omap-typed-json-roundtrip", sx.A(fmt.Sprintf("%T", m)), "json.Marshal: "+err.Error())
	} else if err := json.Unmarshal(jb, viaJSON); err != nil {
		oracleFail("C08", "omap-typed-json-roundtrip", sx.A(string(jb)), fmt.Sprintf("%T: json.Unmarshal: %v", m, err))
	} else if d := same(m, viaJSON); d != "" {
		oracleFail("C08", "omap-typed-json-roundtrip", sx.A(string(jb)), fmt.Sprintf("%T differs after JSON encode+decode: %s", m, d))
	}
	if yb, err := yaml.Marshal(m); err != nil {
		oracleFail("C08", "omap-typed-yaml-roundtrip", sx.A(fmt.Sprintf("%T", m)), "yaml.Marshal: "+err.Error())
	} else if err := yaml.Unmarshal(yb, viaYAML); err != nil {
		oracleFail("C08", "omap-typed-yaml-roundtrip", sx.A(string(yb)), fmt.Sprintf("%T: yaml.Unmarshal: %v", m, err))
	} else if d := same(m, viaYAML); d != "" {
		oracleFail("C08", "omap-typed-yaml-roundtrip", sx.A(string(yb)), fmt.Sprintf("%T differs after YAML encode+decode: %s", m, d))
	}
}

// c08collidingKeys: two keys of one mapping that are the same key once canonicalised (1 and "1", 0x10 and 16, true
// and "true") are ONE entry: it stands where the first stood and holds the last value, in every order-keeping
// position, in JSON and in YAML, and the ordered map says so too (Len, Range, Equal with a map built by hand)
func c08collidingKeys() {
	pairs := [][3]string{{"1", `"1"`, "1"}, {"0x10", "16", "16"}, {"true", `"true"`, "true"}, {`"k"`, "k", "k"}, {"1_000", "1000", "1000"}}
	for _, pr := range pairs {
		for _, tmpl := range []string{
			"steps: []\nfield:\n  first: a\n  %s: old\n  mid: b\n  %s: new\n  last: c\n",
			"steps:\n- command: c\n  agents:\n    first: a\n    %s: old\n    mid: b\n    %s: new\n    last: c\n",
			"steps:\n- mystery:\n    first: a\n    %s: old\n    mid: b\n    %s: new\n    last: c\n",
		} {
			text := fmt.Sprintf(tmpl, pr[0], pr[1])
			c := sx.L(sx.A("colliding-keys"), sx.A(text))
			noteCase("C08", text)
			var n yaml.Node
			if yaml.Unmarshal([]byte(text), &n) != nil {
				continue // the YAML library itself refuses the document (identical spellings)
			}
			p, err := pipeline.Parse(strings.NewReader(text))
			if err != nil && !warning.Is(err) {
				stat("C08", "colliding-keys-rejected")
				continue
			}
			want := []string{"first", pr[2], "mid", "last"}
			jb, jerr := json.Marshal(p)
			if jerr != nil {
				oracleFail("C08", "colliding-keys", c, "json.Marshal: "+jerr.Error())
				continue
			}
			var path []any
			switch {
			case strings.HasPrefix(text, "steps: []"):
				path = []any{"field"}
			case strings.Contains(text, "agents"):
				path = []any{"steps", 0, "agents"}
			default:
				path = []any{"steps", 0, "mystery"}
			}
			got, gerr := jsonKeyOrderAt(jb, path)
			if gerr != nil || fmt.Sprint(got) != fmt.Sprint(want) {
				oracleFail("C08", "colliding-keys", c, fmt.Sprintf("the mapping came out of JSON marshalling with members %q (%v), want %q; output %s", got, gerr, want, jb))
				continue
			}
			// the value that survives is the last one written
			if !bytes.Contains(jb, []byte(`"`+pr[2]+`":"new"`)) {
				oracleFail("C08", "colliding-keys", c, fmt.Sprintf("the colliding entry does not hold the last value: %s", jb))
				continue
			}
			yb, yerr := yaml.Marshal(p)
			if yerr != nil {
				oracleFail("C08", "colliding-keys", c, "yaml.Marshal: "+yerr.Error())
				continue
			}
			if p2, err2 := pipeline.Parse(bytes.NewReader(yb)); err2 != nil && !warning.Is(err2) {
				oracleFail("C08", "colliding-keys", c, fmt.Sprintf("the YAML marshalling does not parse again: %v\n%s", err2, yb))
				continue
			} else if jb2, _ := json.Marshal(p2); !bytes.Equal(jb2, jb) {
				oracleFail("C08", "colliding-keys", c, fmt.Sprintf("through YAML the mapping is %s, directly %s", jb2, jb))
				continue
			}
			stat("C08", "colliding-keys")
		}
	}
}

// c08sharedMerges: an anchored mapping that itself holds alias values, merged into (or referenced from) several
// order-keeping places: each place gets all of it, merged keys where the merge key stands, in the source's order
func c08sharedMerges() {
	text := "a: &a {k2: v, k1: w}\nl: &l [x, y]\nc: &c {zeta: *a, alpha: 1, list: *l}\nenv:\n  Z_FIRST: \"1\"\n  A_LAST: \"2\"\nsteps:\n- command: c\n  agents:\n    before: b\n    <<: *c\n    after: a\n- mystery:\n    <<: *c\n    own: 1\n  again: *c\ntop:\n  <<: *c\n"
	c := sx.L(sx.A("shared-merges"), sx.A(text))
	noteCase("C08", text)
	p, err := pipeline.Parse(strings.NewReader(text))
	if err != nil && !warning.Is(err) {
		oracleFail("C08", "parse-error", c, "a legal document with a shared anchored mapping is rejected: "+err.Error())
		return
	}
	jb, _ := json.Marshal(p)
	for _, ps := range []struct {
		path []any
		want []string
	}{
		{[]any{"steps", 0, "agents"}, []string{"before", "zeta", "alpha", "list", "after"}},
		{[]any{"steps", 0, "agents", "zeta"}, []string{"k2", "k1"}},
		{[]any{"steps", 1, "mystery"}, []string{"zeta", "alpha", "list", "own"}},
		{[]any{"steps", 1, "again"}, []string{"zeta", "alpha", "list"}},
		{[]any{"top"}, []string{"zeta", "alpha", "list"}},
		{[]any{"c", "zeta"}, []string{"k2", "k1"}},
	} {
		got, gerr := jsonKeyOrderAt(jb, ps.path)
		if gerr != nil || fmt.Sprint(got) != fmt.Sprint(ps.want) {
			oracleFail("C08", "order-merge", c, fmt.Sprintf("at %v the members are %q (%v), want %q; output %s", ps.path, got, gerr, ps.want, jb))
			return
		}
	}
	stat("C08", "shared-merges")
}
