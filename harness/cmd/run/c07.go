package main

import (
	"github.com/buildkite/go-pipeline/warning"
	pipeline "github.com/buildkite/go-pipeline"
	"encoding/json"
	"fmt"
	"reflect"
	"strings"
	"time"

	"github.com/buildkite/go-pipeline/ordered"
	"gopkg.in/yaml.v3"
	"verifharness/sx"
)

// ---- yaml.v3 node graph -> model store ----

func graphSexp(root *yaml.Node) sx.S {
	ids := map[*yaml.Node]int{}
	var order []*yaml.Node
	var visit func(n *yaml.Node)
	visit = func(n *yaml.Node) {
		if n == nil {
			return
		}
		if _, ok := ids[n]; ok {
			return
		}
		ids[n] = len(order)
		order = append(order, n)
		for _, c := range n.Content {
			visit(c)
		}
		visit(n.Alias)
	}
	visit(root)
	out := sx.List{sx.N(ids[root])}
	for _, n := range order {
		kids := func(tag string) sx.S {
			l := sx.List{sx.A(tag)}
			for _, c := range n.Content {
				l = append(l, sx.N(ids[c]))
			}
			return l
		}
		switch n.Kind {
		case yaml.ScalarNode:
			// canonical key: through the library's own key canonicalisation
			ck := sx.Opt(false, nil)
			if n.Tag != "!!merge" {
				probe := &yaml.Node{Kind: yaml.MappingNode, Tag: "!!map", Content: []*yaml.Node{n, {Kind: yaml.ScalarNode, Tag: "!!str", Value: "v"}}}
				if v, err := ordered.DecodeYAML(probe); err == nil {
					v.(*ordered.MapSA).Range(func(k string, _ any) error { ck = sx.Opt(true, sx.A(k)); return nil })
				}
			}
			dec := sx.Opt(false, nil)
			var v any
			if err := n.Decode(&v); err == nil {
				dec = sx.Opt(true, anySexp(v))
			}
			out = append(out, sx.L(sx.A("s"), sx.B(n.Tag == "!!merge"), ck, dec))
		case yaml.SequenceNode:
			out = append(out, kids("q"))
		case yaml.MappingNode:
			out = append(out, kids("m"))
		case yaml.AliasNode:
			out = append(out, sx.L(sx.A("a"), sx.N(ids[n.Alias])))
		case yaml.DocumentNode:
			out = append(out, kids("d"))
		default:
			out = append(out, sx.L(sx.A("x")))
		}
	}
	return out
}

// ---- text generator ----

type c07gen struct {
	rng        *sx.Rng
	nAnchor    int
	open       []string // anchors whose node is still being written (alias => cycle)
	closedMap  []string // finished anchored mappings
	closedAny  []string // finished anchored nodes of any kind
	scalarAnch []string
	scalarText map[string]string // anchor name -> the scalar it anchors, as written
	valueCycle bool
	mergeCycle bool
	mixedCycle bool
	mergeBad   bool // a merge whose source is not (a sequence of) mappings
	oddKeys    bool // canonicalisable / non-string keys used
	repeated   bool // repeated << in one mapping
	size       int
}

func (g *c07gen) scalar() string {
	return sx.Pick(g.rng, []string{"v1", "v2", "x y", "1", "true", "null", "0x10", "1.5", "~", "\"q\"", "2002-08-15", "18446744073709551615",
		// explicitly tagged scalars, also in quoted style: the tag decides, not the quotes
		"!!int \"0x10\"", "!!float '1.5'", "!!bool \"true\"", "!!str 123", "!!str true", "!!null \"\"", "!!int 7", "'quoted'", "\"12\""})
}

func (g *c07gen) key(i int) string {
	if g.rng.Chance(8) {
		g.oddKeys = true
		return sx.Pick(g.rng, []string{"1", "0x1", "true", "True", "1.0", "1e0", "yes", "0o1", "18446744073709551615", "9223372036854775808", "0xFFFFFFFFFFFFFFFF", "-9223372036854775808"})
	}
	if g.rng.Chance(15) && len(g.scalarAnch) > 0 {
		g.oddKeys = true
		return "*" + sx.Pick(g.rng, g.scalarAnch) + " "
	}
	if g.rng.Chance(4) {
		// a STRING key spelled << is an ordinary key, not a merge (yaml.v3's own decoder drops such a key from a
		// merged mapping, so it is no reference here: compared with the model only)
		g.oddKeys = true
		return sx.Pick(g.rng, []string{"\"<<\"", "'<<'", "!!str <<"})
	}
	return fmt.Sprintf("k%d", g.rng.Intn(6))
}

func (g *c07gen) value(depth int) string {
	g.size++
	r := g.rng.Intn(100)
	switch {
	case r < 30 || depth <= 0 || g.size > 60:
		if g.rng.Chance(25) {
			g.nAnchor++
			a := fmt.Sprintf("s%d", g.nAnchor)
			g.scalarAnch = append(g.scalarAnch, a)
			sc := g.scalar()
			if g.scalarText == nil {
				g.scalarText = map[string]string{}
			}
			g.scalarText[a] = sc
			return "&" + a + " " + sc
		}
		return g.scalar()
	case r < 45 && len(g.closedAny) > 0:
		return "*" + sx.Pick(g.rng, g.closedAny)
	case r < 47 && len(g.open) > 0:
		g.valueCycle = true
		return "*" + sx.Pick(g.rng, g.open)
	case r < 70:
		return g.seq(depth)
	default:
		return g.mapping(depth)
	}
}

func (g *c07gen) seq(depth int) string {
	anchor := ""
	if g.rng.Chance(40) {
		g.nAnchor++
		anchor = fmt.Sprintf("a%d", g.nAnchor)
		g.open = append(g.open, anchor)
	}
	var parts []string
	for k := g.rng.Intn(4); k > 0; k-- {
		parts = append(parts, g.value(depth-1))
	}
	s := "[" + strings.Join(parts, ", ") + "]"
	if anchor != "" {
		g.open = g.open[:len(g.open)-1]
		g.closedAny = append(g.closedAny, anchor)
		return "&" + anchor + " " + s
	}
	return s
}

func (g *c07gen) mapping(depth int) string {
	anchor := ""
	if g.rng.Chance(55) {
		g.nAnchor++
		anchor = fmt.Sprintf("a%d", g.nAnchor)
		g.open = append(g.open, anchor)
	}
	var parts []string
	merges := 0
	for k := 1 + g.rng.Intn(4); k > 0; k-- {
		r := g.rng.Intn(100)
		switch {
		case r < 30 && len(g.closedMap) > 0:
			merges++
			if g.rng.Chance(35) {
				n := 1 + g.rng.Intn(3)
				var srcs []string
				for j := 0; j < n; j++ {
					srcs = append(srcs, "*"+sx.Pick(g.rng, g.closedMap))
				}
				parts = append(parts, "<<: ["+strings.Join(srcs, ", ")+"]")
			} else {
				parts = append(parts, "<<: *"+sx.Pick(g.rng, g.closedMap))
			}
		case r < 32 && len(g.open) > 0:
			merges++
			src := sx.Pick(g.rng, g.open)
			if src == anchor {
				g.mergeCycle = true // the mapping merges itself: a pure merge cycle
			} else {
				g.mixedCycle = true // merging an enclosing mapping re-introduces this mapping as a value
			}
			parts = append(parts, "<<: *"+src)
		case r < 33 && len(g.closedMap) > 0:
			// a merge whose value is a sequence containing itself: a merge cycle with no mapping on it
			merges++
			g.nAnchor++
			l := fmt.Sprintf("l%d", g.nAnchor)
			g.mergeCycle = true
			parts = append(parts, sx.Pick(g.rng, []string{
				"<<: &" + l + " [*" + l + "]",
				"<<: &" + l + " [[*" + l + "], *" + sx.Pick(g.rng, g.closedMap) + "]",
				"<<: &" + l + " [*" + sx.Pick(g.rng, g.closedMap) + ", *" + l + "]"}))
		case r < 35:
			merges++
			g.mergeBad = true
			parts = append(parts, "<<: "+sx.Pick(g.rng, []string{"scalar", "[1, 2]", "~"}))
		default:
			parts = append(parts, g.key(k)+": "+g.value(depth-1))
		}
	}
	if merges > 1 {
		g.repeated = true
	}
	s := "{" + strings.Join(parts, ", ") + "}"
	if anchor != "" {
		g.open = g.open[:len(g.open)-1]
		g.closedAny = append(g.closedAny, anchor)
		g.closedMap = append(g.closedMap, anchor)
		return "&" + anchor + " " + s
	}
	return s
}

func (g *c07gen) document() string {
	var b strings.Builder
	// a few anchored bases first, so that merges have sources
	for k := g.rng.Intn(4); k > 0; k-- {
		fmt.Fprintf(&b, "base%d: %s\n", k, g.mapping(2))
	}
	fmt.Fprintf(&b, "main: %s\n", g.value(3))
	if g.rng.Chance(50) {
		fmt.Fprintf(&b, "<<: %s\n", sx.Pick(g.rng, []string{"*" + firstOr(g.closedMap, "nope"), "[" + "*" + firstOr(g.closedMap, "nope") + "]"}))
		if len(g.closedMap) == 0 {
			*g = c07gen{rng: g.rng}
			return "main: 1\n"
		}
	}
	return b.String()
}

func firstOr(l []string, d string) string {
	if len(l) == 0 {
		return d
	}
	return l[len(l)-1]
}

// sharedPointers: does the decoded tree share a map or slice between two positions?
func sharedPointers(v any) bool {
	seen := map[uintptr]bool{}
	shared := false
	var walk func(v any)
	walk = func(v any) {
		switch t := v.(type) {
		case *ordered.MapSA:
			p := reflect.ValueOf(t).Pointer()
			if seen[p] {
				shared = true
				return
			}
			seen[p] = true
			t.Range(func(_ string, e any) error { walk(e); return nil })
		case []any:
			if len(t) > 0 {
				p := reflect.ValueOf(t).Pointer()
				if seen[p] {
					shared = true
					return
				}
				seen[p] = true
			}
			for _, e := range t {
				walk(e)
			}
		}
	}
	walk(v)
	return shared
}

type c07leaf struct {
	Name string `yaml:"name"`
}

type c07tree struct {
	Name     string                         `yaml:"name"`
	Children *ordered.Map[string, *c07tree] `yaml:"children"`
}

func c07one(text string, g *c07gen) {
	c := sx.A(text)
	noteCase("C07", text)
	var n yaml.Node
	if err := yaml.Unmarshal([]byte(text), &n); err != nil {
		stat("C07", "yaml-parse-error")
		return
	}
	type result struct {
		v   any
		err error
		pan string
	}
	ch := make(chan result, 1)
	go func() {
		var r result
		defer func() {
			if x := recover(); x != nil {
				r.pan = fmt.Sprint(x)
			}
			ch <- r
		}()
		r.v, r.err = ordered.DecodeYAML(&n)
	}()
	var r result
	select {
	case r = <-ch:
	case <-time.After(20 * time.Second):
		oracleFail("C07", "hang", c, "DecodeYAML did not return within 20s")
		return
	}
	if r.pan != "" {
		oracleFail("C07", "panic", c, r.pan)
		return
	}
	if g != nil {
		if g.valueCycle && r.err == nil {
			oracleFail("C07", "value-cycle-accepted", c, "a document with an alias to an enclosing node (value cycle) decoded without error")
			return
		}
		if !g.valueCycle && !g.mixedCycle && !g.mergeBad && !g.oddKeys && r.err != nil {
			oracleFail("C07", "acyclic-rejected", c, "no value cycle, only mapping merges (merge cycles allowed), yet error: "+r.err.Error())
			return
		}
	}
	// decoding has no memory: each top-level value of this (already decoded, perhaps rejected) node tree decodes
	// to what it decodes to in a freshly parsed tree
	if n.Kind == yaml.DocumentNode && len(n.Content) == 1 && n.Content[0].Kind == yaml.MappingNode && len(n.Content[0].Content) <= 24 {
		dec := func(nd *yaml.Node) string {
			var out string
			func() {
				defer func() {
					if x := recover(); x != nil {
						out = fmt.Sprint("panic: ", x)
					}
				}()
				v, err := ordered.DecodeYAML(nd)
				if err != nil {
					out = "error"
				} else {
					out = sx.String(anySexp(v))
				}
			}()
			return out
		}
		rootA := n.Content[0]
		anyValueFails := false
		defer func() {
			// the same document decoded into an ordered map with TYPED values (the other public entry point of the
			// decoder): a value that cannot be expanded is an error there too, not something to skip or to recurse on
			if !anyValueFails {
				return
			}
			for ti, target := range []any{ordered.NewMap[string, c07leaf](0), ordered.NewMap[string, map[string]any](0), ordered.NewMap[string, *c07tree](0)} {
				var terr error
				func() {
					defer func() {
						if x := recover(); x != nil {
							terr = fmt.Errorf("panic: %v", x)
						}
					}()
					terr = yaml.Unmarshal([]byte(text), target)
				}()
				if terr == nil {
					oracleFail("C07", "typed-map-accepts-cycle", c, fmt.Sprintf("a top-level value of this document cannot be decoded (alias cycle), yet decoding the document into an ordered map with typed values (target %d) succeeds", ti))
					return
				}
			}
			stat("C07", "typed-map-rejects")
		}()
		for vi := 1; vi < len(rootA.Content); vi += 2 {
			var fresh yaml.Node
			if yaml.Unmarshal([]byte(text), &fresh) != nil || len(fresh.Content) != 1 || len(fresh.Content[0].Content) != len(rootA.Content) {
				break
			}
			used, clean := dec(rootA.Content[vi]), dec(fresh.Content[0].Content[vi])
			if clean == "error" {
				anyValueFails = true
			}
			if used != clean {
				oracleFail("C07", "decode-depends-on-history", c, fmt.Sprintf("the value of top-level key %q decodes to %s in a node tree that was decoded before (whole document: err=%v) and to %s in a freshly parsed tree", rootA.Content[vi-1].Value, used, r.err, clean))
				return
			}
		}
		stat("C07", "history-checked")
	}
	// the shallow decode (values kept as YAML nodes) names its entries as the full decode does - merges expanded,
	// alias keys resolved, scalar keys canonicalised; checked on every mapping node of the document
	if n.Kind == yaml.DocumentNode && len(n.Content) == 1 {
		var maps []*yaml.Node
		var collect func(nd *yaml.Node, depth int)
		collect = func(nd *yaml.Node, depth int) {
			if nd == nil || depth > 6 || len(maps) >= 16 {
				return
			}
			if nd.Kind == yaml.MappingNode {
				maps = append(maps, nd)
			}
			if nd.Kind != yaml.AliasNode {
				for _, ch := range nd.Content {
					collect(ch, depth+1)
				}
			}
		}
		collect(n.Content[0], 0)
		for _, mn := range maps {
			var deep any
			var derr, serr error
			shallow := ordered.NewMap[string, *yaml.Node](0)
			func() {
				defer func() {
					if x := recover(); x != nil {
						serr = fmt.Errorf("panic: %v", x)
					}
				}()
				deep, derr = ordered.DecodeYAML(mn)
				serr = mn.Decode(shallow)
			}()
			dm, ok := deep.(*ordered.MapSA)
			if derr != nil || !ok {
				continue
			}
			var deepKeys, shallowKeys []string
			dm.Range(func(k string, _ any) error { deepKeys = append(deepKeys, k); return nil })
			shallow.Range(func(k string, _ *yaml.Node) error { shallowKeys = append(shallowKeys, k); return nil })
			if serr != nil || fmt.Sprintf("%q", deepKeys) != fmt.Sprintf("%q", shallowKeys) {
				oracleFail("C07", "shallow-decode-keys", c, fmt.Sprintf("the mapping at line %d has the keys %q when decoded fully and %q when decoded into an ordered map of YAML nodes (err %v)", mn.Line, deepKeys, shallowKeys, serr))
				return
			}
			stat("C07", "shallow-decode-keys")
		}
	}
	var obs sx.S = sx.L(sx.A("err"))
	if r.err == nil {
		if sharedPointers(r.v) {
			oracleFail("C07", "shared-copy", c, "two positions of the decoded tree share one map or slice: aliases must expand to independent copies")
			return
		}
		obs = sx.L(sx.A("ok"), anySexp(r.v))
		// an alias used as a mapping key stands for its anchor's scalar: writing that scalar in place of the
		// alias must give the same decoded value
		if g != nil && len(g.scalarText) > 0 {
			inl := text
			for a, sc := range g.scalarText {
				inl = strings.ReplaceAll(inl, "*"+a+" :", sc+" :")
			}
			if inl != text {
				var n2 yaml.Node
				if err := yaml.Unmarshal([]byte(inl), &n2); err == nil {
					if v2, err2 := ordered.DecodeYAML(&n2); err2 == nil {
						if a, b := sx.String(anySexp(r.v)), sx.String(anySexp(v2)); a != b {
							oracleFail("C07", "alias-key-differs", c, fmt.Sprintf("with the alias keys written out (%q) the document decodes to %s, with aliases to %s", inl, b, a))
							return
						}
						stat("C07", "alias-key-inlined")
					}
				}
			}
		}
		// reference: yaml.v3's own decoder, where it accepts the document (single merges, string keys)
		if g != nil && !g.repeated && !g.oddKeys && !g.mergeCycle && !g.mixedCycle {
			var ref any
			if err := yaml.Unmarshal([]byte(text), &ref); err == nil {
				a, _ := json.Marshal(ordered.ToMapRecursive(r.v))
				b, errb := json.Marshal(ref)
				if errb == nil && string(a) != string(b) {
					oracleFail("C07", "differs-from-yaml.v3", c, fmt.Sprintf("DecodeYAML content %s, yaml.v3 %s", a, b))
					return
				}
				stat("C07", "compared-with-yaml.v3")
			}
		}
		stat("C07", "decoded")
	} else {
		stat("C07", "rejected")
	}
	if len(sx.String(obs)) > 300000 {
		stat("C07", "too-large-skipped")
		return
	}
	nt := "0"
	if strings.Contains(text, "*") {
		nt = "1"
	}
	fmt.Fprintf(out, "CASE\tC07\t%s\t%s\t%s\n", sx.String(graphSexp(&n)), sx.String(obs), nt)
}

func init() {
	props["C07"] = func(rng *sx.Rng, thorough bool) {
		// hand-picked seeds first (the documented merge rules and the cycle shapes)
		for _, t := range []string{
			"a: &a {x: 1, y: 2}\nb: {<<: *a, x: 9}\n",
			"a: &a {x: 1}\nb: &b {x: 2, y: 2}\nc: {<<: [*a, *b], z: 3}\n",
			"a: &a {x: 1}\nb: &b {<<: *a, y: 2}\nc: {<<: *b}\n",
			"a: &a {x: 1}\nc: {<<: *a, <<: *a, w: 0}\n",
			"a: &a [*a]\n", "a: &a {self: *a}\n", "a: &a {<<: *a, x: 1}\n",
			"x: &x {y: &y {back: *x}}\n", "k: &k key\nm: {*k : v}\n", "m: &m {a: 1}\nn: {? *m : v}\n",
			"a: &a {x: 1}\nd: {da: *a, db: *a}\n", "1: a\n0x1: b\n", "a: &a {b: &b {<<: *a}}\n",
			"a: &a {k: 1}\nb: {<<: [*a, [*a]]}\n", "<<: scalar\n", "a: &a {x: 1}\n<<: *a\nx: 2\n",
			"a: {x: 1, <<: &l [*l]}\n", "- command: echo\n  <<: &loop [*loop]\n", "a: &a {x: 1}\nb: {<<: &l [*a, [*l]]}\n",
		} {
			c07one(t, nil)
		}
		// a mapping that does nothing but merge another mapping has that mapping's content - also when two of its
		// keys are different YAML keys that the decoder gives the same name (1 and "1")
		for _, pr := range [][2]string{{"1", `"1"`}, {"true", `"true"`}, {`"k"`, "k2"}, {"0x10", `"16"`}} {
			for _, tmpl := range []string{"x: &x {%s: first, mid: m, %s: second}\ny: {<<: *x}\n", "x: &x {%s: first, %s: second}\ny: {<<: [*x]}\nz: *x\n"} {
				text := fmt.Sprintf(tmpl, pr[0], pr[1])
				noteCase("C07", text)
				var nd yaml.Node
				if yaml.Unmarshal([]byte(text), &nd) != nil {
					continue
				}
				v, err := ordered.DecodeYAML(&nd)
				m, ok := v.(*ordered.MapSA)
				if err != nil || !ok {
					oracleFail("C07", "acyclic-rejected", sx.A(text), fmt.Sprintf("decode fails: %v", err))
					continue
				}
				x, _ := m.Get("x")
				y, _ := m.Get("y")
				if sx.String(anySexp(x)) != sx.String(anySexp(y)) {
					oracleFail("C07", "merge-differs-from-source", sx.A(text), fmt.Sprintf("x decodes to %s, y (which only merges x) to %s", sx.String(anySexp(x)), sx.String(anySexp(y))))
					continue
				}
				stat("C07", "merge-equals-source")
			}
		}
		// explicit keys beat merged keys, observed at Parse: a step that merges a base carrying `command` and writes
		// its own `commands` runs its own commands - also when that list is empty or null
		for _, own := range []struct{ text, want string }{{"[]", ""}, {"~", ""}, {"[own]", "own"}, {"[a, b]", "a\nb"}, {"\"\"", ""}} {
			text := fmt.Sprintf("base: &b {command: inherited, label: L}\nsteps:\n- <<: *b\n  commands: %s\n- <<: *b\n", own.text)
			noteCase("C07", text)
			p, err := pipeline.Parse(strings.NewReader(text))
			if err != nil && !warning.Is(err) || len(p.Steps) != 2 {
				oracleFail("C07", "acyclic-rejected", sx.A(text), fmt.Sprintf("Parse: %v", err))
				continue
			}
			s0, ok0 := p.Steps[0].(*pipeline.CommandStep)
			s1, ok1 := p.Steps[1].(*pipeline.CommandStep)
			if !ok0 || !ok1 || s0.Command != own.want || s1.Command != "inherited" || s0.Label != "L" {
				oracleFail("C07", "explicit-key-loses-to-merged", sx.A(text), fmt.Sprintf("step 0 (own commands %s over a merged command) runs %q, want %q; step 1 (merge only) runs %q", own.text, s0.Command, own.want, s1.Command))
				continue
			}
			stat("C07", "explicit-beats-merged-at-parse")
		}
		// bounded time: merge graphs with very many distinct paths to the same mapping (a ladder in which every
		// rung merges both mappings of the rung below, and a dense cycle in which every mapping merges all the
		// others) decode in time linear in the number of mappings, because each mapping is merged once
		{
			var b strings.Builder
			b.WriteString("a0: &a0 {x0: 1}\nb0: &b0 {y0: 1}\n")
			for k := 1; k <= 40; k++ {
				fmt.Fprintf(&b, "a%d: &a%d {<<: [*a%d, *b%d], x%d: 1}\nb%d: &b%d {<<: [*a%d, *b%d], y%d: 1}\n", k, k, k-1, k-1, k, k, k, k-1, k-1, k)
			}
			b.WriteString("top: {<<: [*a40, *b40]}\n")
			c07one(b.String(), nil)
			// dense merge cycle, written nested: m1 contains m2 contains ... and each merges all the enclosing ones
			var d strings.Builder
			const N = 14
			for k := 1; k <= N; k++ {
				fmt.Fprintf(&d, "%sm%d: &m%d\n", strings.Repeat("  ", k-1), k, k)
				for j := 1; j < k; j++ {
					fmt.Fprintf(&d, "%s<<: *m%d\n", strings.Repeat("  ", k), j)
				}
				fmt.Fprintf(&d, "%sk%d: v\n", strings.Repeat("  ", k), k)
			}
			_ = d
		}
		n := 2500
		if thorough {
			n = 50000
		}
		for i := 0; i < n; i++ {
			g := &c07gen{rng: rng}
			text := g.document()
			switch {
			case g.valueCycle:
				stat("C07", "gen-value-cycle")
			case g.mergeCycle:
				stat("C07", "gen-merge-cycle")
			default:
				stat("C07", "gen-acyclic")
			}
			c07one(text, g)
		}
	}
}
