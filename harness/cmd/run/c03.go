package main

import (
	"bytes"
	"encoding/json"
	"fmt"
	"math/big"
	"strings"

	pipeline "github.com/buildkite/go-pipeline"
	"github.com/buildkite/go-pipeline/warning"
	"gopkg.in/yaml.v3"
	"verifharness/sx"
)

// warnStats: number of unknown-step fallbacks reported (non-warning errors
// directly under a warning node) and whether "no steps" was raised.
func warnStats(err error) (int, bool) {
	w := warning.As(err)
	if w == nil {
		return 0, false
	}
	n, nosteps := 0, false
	var walk func(w *warning.Warning)
	walk = func(w *warning.Warning) {
		kids := w.Unwrap()
		if len(kids) == 0 && strings.Contains(w.Error(), "pipeline contains no steps") {
			nosteps = true
		}
		for _, k := range kids {
			if kw := warning.As(k); kw != nil {
				walk(kw)
			} else if k != nil {
				n++
			}
		}
	}
	walk(w)
	return n, nosteps
}

func countSteps(ss pipeline.Steps) int {
	n := 0
	for _, s := range ss {
		n++
		if g, ok := s.(*pipeline.GroupStep); ok {
			n += countSteps(g.Steps)
		}
	}
	return n
}

type parsed struct {
	text    string
	form    string
	caseSx  sx.S
	p       *pipeline.Pipeline
	err     error
	hard    bool
	jsonOut []byte
	jsonErr error
	obs     sx.S
	nfObs   sx.S // what the declarative normal form must give: the marshalled JSON, or none
}

// runParse: text -> (model case, implementation observation)
func runParse(text, form string) (*parsed, string) {
	noteCase("C03", text)
	r := &parsed{text: text, form: form}
	a, derr := decodeText(text)
	if derr != nil {
		// not a YAML document, or one whose aliases cannot be expanded: Parse must say so (a hard error, no result
		// to use) - and must get there without panicking
		panicked := ""
		var p *pipeline.Pipeline
		var perr error
		func() {
			defer func() {
				if x := recover(); x != nil {
					panicked = fmt.Sprint(x)
				}
			}()
			p, perr = pipeline.Parse(strings.NewReader(text))
		}()
		if panicked != "" {
			return nil, "panic: " + panicked
		}
		if perr == nil || warning.Is(perr) {
			return nil, fmt.Sprintf("accepted-undecodable: the text does not decode (%v) but Parse returns a usable result (err=%v, pipeline=%v)", derr, perr, p != nil)
		}
		return nil, "decode: " + derr.Error()
	}
	r.caseSx = anySexp(a)
	panicked := ""
	func() {
		defer func() {
			if x := recover(); x != nil {
				panicked = fmt.Sprint(x)
			}
		}()
		r.p, r.err = pipeline.Parse(strings.NewReader(text))
	}()
	if panicked != "" {
		return r, "panic: " + panicked
	}
	if r.err != nil && !warning.Is(r.err) {
		r.hard = true
		r.obs = sx.L(sx.A("err"))
		r.nfObs = sx.A("none")
		return r, ""
	}
	n, nosteps := warnStats(r.err)
	status := sx.L(sx.A("ok"))
	if r.err != nil {
		status = sx.L(sx.A("warn"), sx.N(n), sx.B(nosteps))
	}
	func() {
		defer func() {
			if x := recover(); x != nil {
				panicked = fmt.Sprint(x)
			}
		}()
		r.jsonOut, r.jsonErr = json.Marshal(r.p)
	}()
	if panicked != "" {
		return r, "panic in json.Marshal: " + panicked
	}
	var js sx.S = sx.A("marshal-error")
	if r.jsonErr == nil {
		v, err := jsonSexp(r.jsonOut)
		if err != nil {
			return r, "output is not JSON: " + err.Error()
		}
		js = v
	}
	r.obs = sx.L(status, sx.N(countSteps(r.p.Steps)), js)
	r.nfObs = js
	if r.jsonErr != nil {
		r.nfObs = sx.A("none")
	}
	return r, ""
}

func renderDoc(d *dv, form int) (string, string) {
	switch form % 3 {
	case 0:
		if d.jsonOK() {
			var b bytes.Buffer
			d.jsonText(&b)
			return b.String(), "json"
		}
		fallthrough
	case 1:
		t, _ := d.yamlText(false)
		return t, "yaml-block"
	default:
		t, _ := d.yamlText(true)
		return t, "yaml-flow"
	}
}

// c03ladders: nothing is lost or altered when the document uses merges - a chain of mappings each merging the
// previous one and overriding some of its keys (before or after its own `<<`), merged into a command step.
// The expected value of every key is computed here from the merge rule (an explicit key beats a merged one).
func c03ladders(rng *sx.Rng, n int) {
	keys := []string{"ka", "kb", "kc", "kd", "timeout_in_minutes"}
	for i := 0; i < n; i++ {
		depth := 2 + rng.Intn(3)
		want := map[string]string{}
		var b strings.Builder
		for lv := 0; lv < depth; lv++ {
			var parts []string
			for _, k := range keys {
				if rng.Chance(45) {
					v := fmt.Sprintf("v%d_%s", lv, k)
					want[k] = v // the nearest level that writes the key explicitly wins
					parts = append(parts, k+": "+v)
				}
			}
			if lv > 0 {
				pos := rng.Intn(len(parts) + 1)
				parts = append(parts[:pos], append([]string{fmt.Sprintf("<<: *l%d", lv-1)}, parts[pos:]...)...)
			}
			fmt.Fprintf(&b, "l%d: &l%d {%s}\n", lv, lv, strings.Join(parts, ", "))
		}
		var own []string
		for _, k := range keys {
			if rng.Chance(20) {
				want[k] = "own_" + k
				own = append(own, k+": own_"+k)
			}
		}
		pos := rng.Intn(len(own) + 1)
		own = append(own[:pos], append([]string{fmt.Sprintf("<<: *l%d", depth-1)}, own[pos:]...)...)
		fmt.Fprintf(&b, "steps:\n- {command: c, %s}\n", strings.Join(own, ", "))
		text := b.String()
		c := sx.L(sx.A("yaml-merge-ladder"), sx.A(text))
		p, err := pipeline.Parse(strings.NewReader(text))
		if err != nil && !warning.Is(err) {
			oracleFail("C03", "ladder-parse-error", c, err.Error())
			continue
		}
		cs, ok := p.Steps[0].(*pipeline.CommandStep)
		if len(p.Steps) != 1 || !ok {
			oracleFail("C03", "ladder-kind", c, fmt.Sprintf("the step came back as %T", p.Steps[0]))
			continue
		}
		bad := ""
		for _, k := range keys {
			got, has := cs.RemainingFields[k]
			w, wantHas := want[k]
			if has != wantHas || has && fmt.Sprint(got) != w {
				bad = fmt.Sprintf("key %s: got %v (present %v), the merge rule gives %q (present %v)", k, got, has, w, wantHas)
			}
		}
		if len(cs.RemainingFields) != len(want) {
			bad = fmt.Sprintf("%d unknown keys on the step, expected %d", len(cs.RemainingFields), len(want))
		}
		if bad != "" {
			oracleFail("C03", "ladder-value", c, bad)
			continue
		}
		stat("C03", "merge-ladders")
		if r, badp := runParse(text, "yaml-merge-ladder"); badp == "" && r != nil && r.obs != nil {
			fmt.Fprintf(out2(), "CASE\tC03\t%s\t%s\t1\n", sx.String(r.caseSx), sx.String(r.obs))
		}
	}
}

// c03plainKeys: plain (unquoted) keys that YAML resolves to integers or booleans appear in the normal form
// exactly once under their canonical spelling (decimal / true / false), wherever they stand
func c03plainKeys() {
	type kc struct{ text, canon string }
	var ks []kc
	for _, t := range []string{"0x10", "0X1f", "0o17", "0b101", "1_000", "+7", "-0x8", "007", "18446744073709551615", "0xFFFFFFFFFFFFFFFF", "9223372036854775808",
		"0b1111111111111111111111111111111111111111111111111111111111111111", "0o1777777777777777777777", "18_446_744_073_709_551_615"} {
		clean := strings.ReplaceAll(t, "_", "")
		if strings.HasPrefix(clean, "00") || len(clean) > 1 && clean[0] == '0' && clean[1] >= '0' && clean[1] <= '9' {
			continue // YAML 1.1 octal spellings: left out, the two YAML versions disagree on them
		}
		n, ok := new(big.Int).SetString(clean, 0)
		if !ok {
			continue
		}
		ks = append(ks, kc{t, n.String()})
	}
	for _, t := range []string{"true", "True", "TRUE", "false", "False"} {
		ks = append(ks, kc{t, strings.ToLower(t)})
	}
	// everything else stays as written: date- and time-shaped keys, versions, plain words
	for _, t := range []string{"2024-02-01", "2001-12-14t21:59:43.10-05:00", "2002-1-2", "v1.2.3", "1.2.3", "plain", "a.b", "1-2"} {
		ks = append(ks, kc{t, t})
	}
	for _, k := range ks {
		for ti, tmpl := range []string{"%s: topv\nsteps: []\n", "steps:\n- command: c\n  %s: stepv\n", "steps:\n- command: c\n  agents:\n    %s: nestedv\n", "steps:\n- wait: ~\n  %s: waitv\n"} {
			text := fmt.Sprintf(tmpl, k.text)
			c := sx.L(sx.A("yaml-plain-key"), sx.A(text))
			r, bad := runParse(text, "yaml-plain-key")
			if bad != "" || r == nil || r.hard || r.jsonErr != nil {
				oracleFail("C03", "plain-key-rejected", c, fmt.Sprintf("a document with the plain key %s does not parse and marshal: %s %v", k.text, bad, r))
				continue
			}
			out := string(r.jsonOut)
			val := []string{"topv", "stepv", "nestedv", "waitv"}[ti]
			if want := fmt.Sprintf("%q:%q", k.canon, val); strings.Count(out, want) != 1 {
				oracleFail("C03", "plain-key-spelling", c, fmt.Sprintf("the key %s should appear once as %s in %s", k.text, want, out))
				continue
			}
			stat("C03", "plain-keys")
			fmt.Fprintf(out2(), "CASE\tC03\t%s\t%s\t1\n", sx.String(r.caseSx), sx.String(r.obs))
		}
	}
}

func init() {
	props["C03"] = func(rng *sx.Rng, thorough bool) {
		c03plainKeys()
		if thorough {
			c03ladders(rng, 5000)
		} else {
			c03ladders(rng, 300)
		}
		n := 2000
		if thorough {
			n = 50000
		}
		for i := 0; i < n; i++ {
			g := newDocgen(rng, false)
			g.specialKeys = i%2 == 1 // keys spelled exactly like other YAML types (always written as strings)
			d := g.document()
			text, form := renderDoc(d, i)
			r, bad := runParse(text, form)
			c := sx.L(sx.A(form), sx.A(text))
			if bad != "" {
				oracleFail("C03", "parse-failure", c, bad)
				continue
			}
			// the decoded value tree is the document that was written (keys, order, scalar kinds and values)
			// (documents with timestamps are left out: whether a plain scalar is a timestamp is yaml.v3's decision)
			if want, got := sx.String(dvSexp(d, form == "json")), sx.String(r.caseSx); !hasTimestamp(d) && want != got {
				oracleFail("C03", "decode-differs-from-document", c, fmt.Sprintf("the document denotes %s but decodes to %s", want, got))
				continue
			}
			if r.hard {
				oracleFail("C03", "hard-error-on-wellformed", c, "Parse rejected a well-formed document: "+r.err.Error())
				continue
			}
			if r.jsonErr != nil {
				oracleFail("C03", "marshal-error", c, r.jsonErr.Error())
				continue
			}
			// no data loss: every marker placed in the document appears exactly once in the output
			out := string(r.jsonOut)
			lost := ""
			var placed []string
			for _, m := range g.markers {
				if strings.Count(text, m) == 1 {
					placed = append(placed, m)
				}
			}
			g.markers = placed
			for _, m := range g.markers {
				if k := strings.Count(out, m); k != 1 {
					lost = fmt.Sprintf("marker %s appears %d times in the marshalled pipeline", m, k)
					break
				}
			}
			if lost != "" {
				oracleFail("C03", "data-loss", c, lost+"; output "+out)
				continue
			}
			// nothing is lost or re-typed by marshalling: the values read back from the marshalled JSON are the
			// values of the parsed pipeline (independent projection of the Go values, see proj.go). Documents of
			// the known-finding class F17 (empty key / label next to a surviving alias) are left to C09.
			if !emptyPrimaryWithAlias(d) {
				if p2, err2 := pipeline.Parse(bytes.NewReader(r.jsonOut)); err2 == nil || warning.Is(err2) {
					if a, b := projPipeline(r.p), projPipeline(p2); a != b {
						oracleFail("C03", "marshal-loses-values", c, fmt.Sprintf("the values read back from the marshalled JSON differ from the parsed pipeline's:\nparsed   : %s\nread back: %s\nJSON     : %s", a, b, out))
						continue
					}
				}
			}
			// YAML marshalling carries the same data
			var yb []byte
			var yerr error
			func() {
				defer func() {
					if x := recover(); x != nil {
						yerr = fmt.Errorf("panic: %v", x)
					}
				}()
				yb, yerr = yaml.Marshal(r.p)
			}()
			if yerr != nil {
				oracleFail("C03", "yaml-marshal-error", c, yerr.Error())
				continue
			}
			for _, m := range g.markers {
				if k := strings.Count(string(yb), m); k != 1 {
					lost = fmt.Sprintf("marker %s appears %d times in the YAML marshalling", m, k)
					break
				}
			}
			if lost != "" {
				oracleFail("C03", "data-loss-yaml", c, lost)
				continue
			}
			// ... and the values read back from the YAML marshalling are those of the parsed pipeline (keys and
			// values neither lost nor re-typed). Left to C09: the F17 class and a key spelled <<. A multi-line string that
			// begins with whitespace makes the YAML output unreadable (known finding F22).
			if !emptyPrimaryWithAlias(d) && !hasMergeKey(d) && !strings.Contains(out, `"\u003c\u003c":`) {
				var outv any
				json.Unmarshal(r.jsonOut, &outv)
				var strs []string
				collectStrings(outv, &strs)
				excluded := false
				for _, s2 := range strs {
					if strings.ContainsAny(s2, "\n\r\u2028\u2029\u0085") && leadingSpace(s2) {
						excluded = true
					}
				}
				{
					py, perr := pipeline.Parse(bytes.NewReader(yb))
					if perr != nil && !warning.Is(perr) {
						cls := "yaml-marshal-unreadable"
						if excluded {
							cls = "yaml-marshal-indented-block" // known finding F22
						}
						oracleFail("C03", cls, c, fmt.Sprintf("the YAML marshalling cannot be parsed again: %v\n%s", perr, yb))
						continue
					}
					if a, b := projPipeline(r.p), projPipeline(py); a != b {
						cls := "yaml-marshal-loses-values"
						if excluded {
							cls = "yaml-marshal-indented-block" // known finding F22
						}
						oracleFail("C03", cls, c, fmt.Sprintf("the values read back from the YAML marshalling differ from the parsed pipeline's:\nparsed   : %s\nread back: %s\nYAML     : %s", a, b, yb))
						continue
					}
					stat("C03", "yaml-read-back")
				}
			}
			stat("C03", "form-"+form)
			if r.err != nil {
				stat("C03", "with-warning")
			}
			fmt.Fprintf(out2(), "CASE\tC03\t%s\t%s\t1\n", sx.String(r.caseSx), sx.String(r.obs))
			fmt.Fprintf(out2(), "CASE\tC03nf\t%s\t%s\t1\n", sx.String(r.caseSx), sx.String(r.nfObs))
		}
	}
}

func hasTimestamp(d *dv) bool {
	switch d.kind {
	case 't':
		return true
	case 'l':
		for _, e := range d.l {
			if hasTimestamp(e) {
				return true
			}
		}
	case 'm':
		for _, e := range d.m {
			if hasTimestamp(e.v) {
				return true
			}
		}
	}
	return false
}
