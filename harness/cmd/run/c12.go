package main

import (
	"encoding/json"
	"fmt"
	"github.com/buildkite/go-pipeline/warning"
	"reflect"
	"strings"

	pipeline "github.com/buildkite/go-pipeline"
	"github.com/buildkite/go-pipeline/ordered"
	"verifharness/sx"
)

// c12ref is an independent reading of the property text: tokens are
// "{{" ws* "matrix" ["." dim] ws* "}}", dim non-empty over [A-Za-z0-9_.-];
// leftmost, non-overlapping, single pass; unknown dimension => error.
func c12ref(perm map[string]string, s string) (string, bool) {
	isWS := func(c byte) bool { return c == ' ' || c == '\t' || c == '\n' || c == '\r' || c == '\f' }
	isDim := func(c byte) bool {
		return c >= '0' && c <= '9' || c >= 'a' && c <= 'z' || c >= 'A' && c <= 'Z' || c == '_' || c == '-' || c == '.'
	}
	var out strings.Builder
	ok := true
	i := 0
	for i < len(s) {
		j := i
		matched := false
		dim := ""
		if strings.HasPrefix(s[j:], "{{") {
			j += 2
			for j < len(s) && isWS(s[j]) {
				j++
			}
			if strings.HasPrefix(s[j:], "matrix") {
				j += 6
				k := j
				if k < len(s) && s[k] == '.' {
					k++
					st := k
					for k < len(s) && isDim(s[k]) {
						k++
					}
					if k > st {
						dim = s[st:k]
						j = k
					}
				}
				for j < len(s) && isWS(s[j]) {
					j++
				}
				if strings.HasPrefix(s[j:], "}}") {
					j += 2
					matched = true
				}
			}
		}
		if !matched {
			out.WriteByte(s[i])
			i++
			continue
		}
		v, has := perm[dim]
		if !has {
			ok = false
		}
		out.WriteString(v)
		i = j
	}
	return out.String(), ok
}

func c12step(perm map[string]string, s string, full bool) *pipeline.CommandStep {
	setup := pipeline.MatrixSetup{}
	for d, v := range perm {
		setup[d] = []string{v}
	}
	st := &pipeline.CommandStep{
		Command: s,
		Label:   s,
		Matrix:  &pipeline.Matrix{Setup: setup},
	}
	if full {
		st.Key = s
		st.Plugins = pipeline.Plugins{{Source: s, Config: map[string]any{s: s, "list": []any{s, 1, map[string]any{"n": s}}}}}
		st.Env = map[string]string{s: s, "PLAIN": "plain"}
		st.Signature = &pipeline.Signature{Algorithm: s, SignedFields: []string{s}, Value: s}
		st.Matrix.RemainingFields = map[string]any{"note": s}
		st.Matrix.Adjustments = pipeline.MatrixAdjustments{{With: pipeline.MatrixAdjustmentWith{}, Skip: false, RemainingFields: map[string]any{"soft_fail": s}}}
		for d := range perm {
			st.Matrix.Adjustments[0].With[d] = s
		}
		st.Cache = &pipeline.Cache{Paths: []string{s}, Name: s}
		st.RemainingFields = map[string]any{s: s, "om": ordered.MapFromItems(ordered.TupleSA{Key: s, Value: []any{s}})}
	}
	return st
}

func c12one(perm map[string]string, s string, full bool) {
	pl := sx.List{}
	for _, d := range sortedKeys(perm) {
		pl = append(pl, sx.L(sx.A(d), sx.A(perm[d])))
	}
	c := sx.L(pl, sx.A(s))
	st := c12step(perm, s, full)
	orig := c12step(perm, s, full)
	var err error
	panicked := ""
	func() {
		defer func() {
			if r := recover(); r != nil {
				panicked = fmt.Sprint(r)
			}
		}()
		err = st.InterpolateMatrixPermutation(pipeline.MatrixPermutation(perm))
	}()
	if panicked != "" {
		oracleFail("C12", "panic", c, panicked)
		return
	}
	want, wantOK := c12ref(perm, s)
	if (err == nil) != wantOK {
		oracleFail("C12", "unknown-dimension", c, fmt.Sprintf("err=%v but reference says ok=%v", err, wantOK))
		return
	}
	if err != nil {
		stat("C12", "err-unknown-token")
		fmt.Fprintf(out, "CASE\tC12\t%s\t%s\t1\n", sx.String(c), sx.String(sx.L(sx.A("err"))))
		return
	}
	if st.Command != want {
		oracleFail("C12", "replacement", c, fmt.Sprintf("command became %q, reference %q", st.Command, want))
		return
	}
	if st.Label != want {
		oracleFail("C12", "scope-label", c, fmt.Sprintf("label became %q want %q", st.Label, want))
		return
	}
	if full {
		bad := ""
		switch {
		case st.Key != s:
			bad = "step key changed"
		case st.Plugins[0].Source != want:
			bad = "plugin source not interpolated"
		case !reflect.DeepEqual(st.Plugins[0].Config, map[string]any{want: want, "list": []any{want, 1, map[string]any{"n": want}}}):
			bad = fmt.Sprintf("plugin config is %v", st.Plugins[0].Config)
		case !reflect.DeepEqual(st.Env, map[string]string{s: want, "PLAIN": "plain"}):
			bad = fmt.Sprintf("env is %v (names must stay, values interpolated)", st.Env)
		case !reflect.DeepEqual(st.Signature, orig.Signature):
			bad = "signature changed"
		case !reflect.DeepEqual(st.Cache, orig.Cache):
			bad = "cache changed"
		}
		mb, _ := json.Marshal(st.Matrix)
		ob, _ := json.Marshal(orig.Matrix)
		if bad == "" && string(mb) != string(ob) {
			bad = fmt.Sprintf("matrix definition changed: %s -> %s", ob, mb)
		}
		if bad == "" {
			om, _ := st.RemainingFields["om"].(*ordered.MapSA)
			v, has := st.RemainingFields[want]
			if !has || v != want || om == nil {
				bad = fmt.Sprintf("unknown fields are %v", st.RemainingFields)
			} else if ov, ok := om.Get(want); !ok || !reflect.DeepEqual(ov, []any{want}) || om.Len() != 1 {
				bad = "nested ordered map in unknown fields not interpolated"
			}
		}
		if bad != "" {
			oracleFail("C12", "scope", c, bad)
			return
		}
	}
	nt := "1"
	if want == s {
		nt = "0"
		stat("C12", "ok-unchanged")
	} else {
		stat("C12", "ok-replaced")
	}
	fmt.Fprintf(out, "CASE\tC12\t%s\t%s\t%s\n", sx.String(c), sx.String(sx.L(sx.A("ok"), sx.A(st.Command))), nt)
}

func c12empty(s string) {
	st := c12step(map[string]string{}, s, true)
	st.Matrix = nil
	before, _ := json.Marshal(st)
	err := st.InterpolateMatrixPermutation(pipeline.MatrixPermutation{})
	after, _ := json.Marshal(st)
	if err != nil || string(before) != string(after) {
		oracleFail("C12", "empty-permutation", sx.L(sx.L(), sx.A(s)), fmt.Sprintf("err=%v before=%s after=%s", err, before, after))
	}
}

// step level: a generated command-step document (tokens in every string position) loaded through
// CommandStep.UnmarshalJSON, a permutation that is valid, an adjustment, skipped or invalid
// c12leftover returns an in-scope string of the step which the reference replacement would still change.
func c12leftover(cs *pipeline.CommandStep, perm map[string]string) string {
	bad := ""
	chk := func(s string) {
		if r, _ := c12ref(perm, s); r != s && bad == "" {
			bad = s
		}
	}
	var walk func(v any)
	walk = func(v any) {
		switch x := v.(type) {
		case string:
			chk(x)
		case []any:
			for _, e := range x {
				walk(e)
			}
		case []string:
			for _, e := range x {
				chk(e)
			}
		case map[string]any:
			for k, e := range x {
				chk(k)
				walk(e)
			}
		case *ordered.MapSA:
			x.Range(func(k string, e any) error { chk(k); walk(e); return nil })
		}
	}
	chk(cs.Command)
	chk(cs.Label)
	for _, p := range cs.Plugins {
		chk(p.Source)
		walk(p.Config)
	}
	for _, v := range cs.Env {
		chk(v)
	}
	walk(cs.RemainingFields)
	return bad
}

func c12stepCases(rng *sx.Rng, n int) {
	tok := []string{"plain", "{{matrix.}}", "x y", "", "{ {matrix}}", "$FOO"}
	tokNamed := []string{"{{ matrix.os }}", "{{matrix.arch}}", "{{matrix.os}}-{{matrix.arch}}", "{{matrix.nope}}"}
	tokAnon := []string{"{{matrix}}", "{{ matrix }}", "{{matrix.os}}"}
	_, _ = tokNamed, tokAnon
	for i := 0; i < n; i++ {
		g := newDocgen(rng, false)
		g.strPool = tok
		g.decorate = func(m string) string { return m + sx.Pick(rng, tok) }
		d := g.signableStep()
		d.set("key", dStr("k{{matrix}}"))
		d.set("label", dStr(sx.Pick(rng, tok)))
		unknownKey := "n{{matrix.os}}"
		d.set("cache", dStr("c{{matrix}}"))
		var perm map[string]string
		switch rng.Intn(3) {
		case 0: // anonymous dimension
			if rng.Chance(85) {
				unknownKey = "n{{matrix}}" // else: a token of a dimension the permutation lacks, the call must fail
			}
			// plugins written without a config (string form / null config) whose source carries a token
			d.set("plugins", dList(dStr("tool-{{matrix}}#v1"), dMap(dkv{"other-{{ matrix }}", dNull()}), dMap(dkv{"third#{{matrix}}", dMap(dkv{"k", dStr("{{matrix}}")})})))
			// key chains in Go maps: with the token-shaped value {{matrix}}-b the key a-{{matrix}} becomes
			// a-{{matrix}}-b, which is the OLD name of its sibling (single pass: both entries survive)
			d.set("chain", dMap(dkv{"a-{{matrix}}", dInt(1)}, dkv{"a-{{matrix}}-b", dInt(2)}, dkv{"zz{{matrix}}", dStr("v{{matrix}}")}))
			d.set("pair", dMap(dkv{"k-a", dInt(1)}, dkv{"k-{{matrix}}", dInt(2)}))
			d.set("pair2", dMap(dkv{"k-{{matrix}}", dInt(1)}, dkv{"k-a", dInt(2)}))
			d.set("a-{{matrix}}", dStr("first"))
			d.set("a-{{matrix}}-b", dStr("second"))
			d.set("matrix", dMap(dkv{"setup", dList(dStr("a"), dStr("{{matrix}}"), dStr("{{matrix}}-b"))}, dkv{"adjustments", dList(dMap(dkv{"with", dStr("extra")}, dkv{"skip", sx.Pick(rng, []*dv{dBool(false), dBool(true), dStr("why")})}))}))
			perm = map[string]string{"": sx.Pick(rng, []string{"a", "{{matrix}}", "{{matrix}}-b", "{{matrix}}-b", "extra", "zzz"})}
		case 1:
			d.set("plugins", dList(dStr("tool-{{matrix.os}}#v1"), dMap(dkv{"other-{{matrix.arch}}", dNull()})))
			d.set("matrix", dMap(dkv{"setup", dMap(dkv{"os", dList(dStr("linux"), dStr("mac"))}, dkv{"arch", dList(dStr("x"), dStr("y"))})},
				dkv{"adjustments", dList(dMap(dkv{"with", dMap(dkv{"os", dStr("win")}, dkv{"arch", dStr("x")})}))}))
			perm = map[string]string{"os": sx.Pick(rng, []string{"linux", "mac", "win"}), "arch": sx.Pick(rng, []string{"x", "y"})}
			if rng.Chance(15) {
				delete(perm, "arch")
			}
		default:
			d.del("matrix")
			// no matrix at all, or one without dimensions (only unknown keys, an empty setup, ...): the empty
			// permutation is the valid one and changes nothing, tokens included
			if rng.Chance(50) {
				d.set("matrix", sx.Pick(rng, []*dv{dMap(dkv{"soft_fail", dBool(true)}), dMap(), dMap(dkv{"setup", dMap()}, dkv{"note", dStr("{{matrix}}")}),
					dMap(dkv{"adjustments", dList()}, dkv{"x", dInt(1)}), dNull()}))
			}
			perm = map[string]string{}
			if rng.Chance(30) {
				perm["os"] = "linux"
			}
		}
		d.set("unknown", dMap(dkv{unknownKey, dList(dStr(sx.Pick(rng, tok)), dInt(1))}))
		if rng.Chance(20) {
			// a token of a dimension the permutation lacks in an EARLIER element of a list (later ones are fine)
			d.set("agents_list", dList(dStr("queue={{matrix.nope}}"), dStr("fine"), dStr("also fine")))
		}
		cs, text, err := stepFromDoc(d)
		if err != nil {
			oracleFail("C12", "step-rejected", sx.A(text), "a generated, well-formed command step does not load: "+err.Error())
			continue
		}
		ds, derr := docSexp(text)
		if derr != nil {
			oracleFail("C12", "step-rejected", sx.A(text), "a generated, well-formed command step does not decode: "+derr.Error())
			continue
		}
		pl := sx.List{}
		for _, k := range sortedKeys(perm) {
			pl = append(pl, sx.L(sx.A(k), sx.A(perm[k])))
		}
		c := sx.L(ds, pl)
		before, _ := json.Marshal(cs)
		beforeRem := map[string]bool{}
		for k := range cs.RemainingFields {
			beforeRem[k] = true
		}
		// nested ordered mappings with scalar values, as (key, value) lists
		orderedBefore := map[string][][2]string{}
		for k, v := range cs.RemainingFields {
			if om, ok := v.(*ordered.MapSA); ok {
				var l [][2]string
				flat := true
				om.Range(func(k2 string, v2 any) error {
					switch v2.(type) {
					case string, int, bool:
						l = append(l, [2]string{k2, fmt.Sprint(v2)})
					default:
						flat = false
					}
					return nil
				})
				if flat {
					orderedBefore[k] = l
				}
			}
		}
		ierr := cs.InterpolateMatrixPermutation(pipeline.MatrixPermutation(perm))
		after, _ := json.Marshal(cs)
		var obs sx.S = sx.L(sx.A("err"))
		if ierr == nil {
			js, e := jsonSexp(after)
			if e != nil {
				continue
			}
			obs = sx.L(sx.A("ok"), js)
			if len(perm) == 0 && string(before) != string(after) {
				oracleFail("C12", "empty-permutation", c, "the empty permutation changed the step")
				continue
			}
			// the property's own words: after a successful call no in-scope string still carries a token of a
			// dimension the permutation has (values that look like tokens are left out: they legitimately stay)
			tokenFree := true
			for _, v := range perm {
				if strings.Contains(v, "{{") {
					tokenFree = false
				}
			}
			// unknown fields: each key is replaced in a single pass; when the new names are pairwise distinct no
			// field may be lost or invented
			if len(perm) > 0 {
				wantKeys := map[string]bool{}
				distinct := true
				for k := range beforeRem {
					nk, _ := c12ref(perm, k)
					if wantKeys[nk] {
						distinct = false
					}
					wantKeys[nk] = true
				}
				if distinct {
					for k := range wantKeys {
						if _, ok := cs.RemainingFields[k]; !ok {
							oracleFail("C12", "unknown-field-lost", c, fmt.Sprintf("unknown field %q is missing after interpolation", k))
							distinct = false
							break
						}
					}
					if distinct && len(cs.RemainingFields) != len(wantKeys) {
						oracleFail("C12", "unknown-field-lost", c, "the set of unknown fields changed size")
						distinct = false
					}
					if !distinct {
						continue
					}
				}
			}
			// nested ORDERED mappings: entries are renamed in place top to bottom, a rename onto another entry's name
			// replaces that entry (a later one is then never visited)
			if len(perm) > 0 {
				bad := ""
				for fk, ref := range orderedBefore {
					items := append([][2]string{}, ref...)
					dead := make([]bool, len(items))
					for i2 := range items {
						if dead[i2] {
							continue
						}
						nk, _ := c12ref(perm, items[i2][0])
						nv, _ := c12ref(perm, items[i2][1])
						for j := range items {
							if j != i2 && !dead[j] && items[j][0] == nk {
								dead[j] = true
							}
						}
						items[i2] = [2]string{nk, nv}
					}
					var want, got []string
					for i2, it := range items {
						if !dead[i2] {
							want = append(want, it[0]+"="+it[1])
						}
					}
					nfk, _ := c12ref(perm, fk)
					if om, ok := cs.RemainingFields[nfk].(*ordered.MapSA); ok {
						om.Range(func(k string, v any) error { got = append(got, k+"="+fmt.Sprint(v)); return nil })
					}
					if fmt.Sprint(got) != fmt.Sprint(want) {
						bad = fmt.Sprintf("nested mapping %q became %q, top-to-bottom renaming gives %q", fk, got, want)
					}
				}
				if bad != "" {
					oracleFail("C12", "ordered-collision", c, bad)
					continue
				}
			}
			if len(perm) > 0 && tokenFree {
				if left := c12leftover(cs, perm); left != "" {
					oracleFail("C12", "token-left-in-scope", c, "interpolation succeeded but an in-scope string still carries a token: "+left)
					continue
				}
			}
			stat("C12", "step-ok")
		} else {
			stat("C12", "step-err")
		}
		fmt.Fprintf(out, "CASE\tC12step\t%s\t%s\t1\n", sx.String(c), sx.String(obs))
	}
}

func init() {
	props["C12"] = func(rng *sx.Rng, thorough bool) {
		if thorough {
			c12stepCases(rng, 20000)
			c12aliases(rng, 2000)
		} else {
			c12stepCases(rng, 1500)
			c12aliases(rng, 150)
		}
		syms := []string{"{", "}", " ", "\t", "matrix", ".", "a", "-"}
		maxLen := 6
		if thorough {
			maxLen = 7
		}
		perm := map[string]string{"": "V", "a": "{{matrix}}"}
		var rec func(cur []string)
		rec = func(cur []string) {
			c12one(perm, strings.Join(cur, ""), false)
			if len(cur) == maxLen {
				return
			}
			for _, s := range syms {
				rec(append(cur, s))
			}
		}
		rec(nil)
		// random longer strings with full scope
		n := 3000
		if thorough {
			n = 60000
		}
		dimc := "abzAZ09_.-"
		frag := []string{"{{matrix}}", "{{ matrix }}", "{{matrix.os}}", "{{\tmatrix.os\n}}", "{{matrix.}}", "{{ matrix .os}}", "{matrix}", "{{matrixx}}", "{{{matrix}}}",
			"{{matrix.os.arch}}", "{{matrix.a-b_c}}", "{{ matrix.nope }}", "{{matrix", "matrix}}", "{{", "}}", " ", "echo ", "$X", "\n", "{{matrix.os }} {{matrix}}", "é", "{{matrix.é}}", "{{ matrix}}", "{{\vmatrix}}", "{{\fmatrix}}"}
		for i := 0; i < n; i++ {
			p := map[string]string{}
			if rng.Chance(60) {
				p[""] = sx.Pick(rng, []string{"V", "", "{{matrix}}", "x y"})
			}
			for k := rng.Intn(3); k > 0; k-- {
				d := sx.Pick(rng, []string{"os", "arch", "a-b_c", "os.arch", ".", "-", "é"})
				if rng.Chance(30) {
					b := make([]byte, 1+rng.Intn(4))
					for j := range b {
						b[j] = dimc[rng.Intn(len(dimc))]
					}
					d = string(b)
				}
				p[d] = sx.Pick(rng, []string{"linux", "{{matrix.os}}", "", "a b", "}}"})
			}
			if len(p) == 0 {
				p["os"] = "linux"
			}
			var sb strings.Builder
			for k := 1 + rng.Intn(6); k > 0; k-- {
				if rng.Chance(25) {
					// a token for a dimension of p (mostly known)
					for d := range p {
						if d == "" {
							sb.WriteString("{{matrix}}")
						} else {
							sb.WriteString("{{ matrix." + d + " }}")
						}
						break
					}
				} else {
					sb.WriteString(sx.Pick(rng, frag))
				}
			}
			c12one(p, sb.String(), true)
			if i%50 == 0 {
				c12empty(sb.String())
			}
		}
	}
}

// c12aliases: a subtree written once and referenced from several fields of a step is, after parsing, several
// independent subtrees; each is interpolated once, from the original text - also when a permutation value itself
// looks like a token. The document with aliases must give what the document with the subtree written out gives.
func c12aliases(rng *sx.Rng, n int) {
	strs := []string{"q-{{matrix.a}}", "{{matrix.b}} and {{ matrix.a }}", "plain", "{{matrix.a}}{{matrix.a}}", "x {{matrix.b}}"}
	for i := 0; i < n; i++ {
		q := func() string { return fmt.Sprintf("%q", sx.Pick(rng, strs)) }
		shared := sx.Pick(rng, []string{
			fmt.Sprintf("{queue: %s, tags: [%s, %s]}", q(), q(), q()),
			fmt.Sprintf("[%s, {n: %s}]", q(), q()),
			fmt.Sprintf("{k: {deep: %s}}", q()),
		})
		va := sx.Pick(rng, []string{"{{matrix.b}}", "plain-a", "{{ matrix.b }}", "{{matrix.a}}"})
		vb := sx.Pick(rng, []string{"x", "{{matrix.a}}", "y"})
		tmpl := "x-shared: &sh %s\nsteps:\n- command: echo {{matrix.a}}\n  matrix:\n    setup:\n      a: [%q]\n      b: [%q]\n  agents: %s\n  fallback_agents: %s\n  plugins:\n  - docker#v1: %s\n  - other#v2: %s\n"
		withAlias := fmt.Sprintf(tmpl, shared, va, vb, "*sh", "*sh", "*sh", "*sh")
		inlined := fmt.Sprintf(tmpl, shared, va, vb, shared, shared, shared, shared)
		run := func(text string) (string, error) {
			noteCase("C12", text)
			p, err := pipeline.Parse(strings.NewReader(text))
			if err != nil && !warning.Is(err) {
				return "", err
			}
			cs, ok := p.Steps[0].(*pipeline.CommandStep)
			if !ok {
				return "", fmt.Errorf("not a command step: %T", p.Steps[0])
			}
			if err := cs.InterpolateMatrixPermutation(pipeline.MatrixPermutation{"a": va, "b": vb}); err != nil {
				return "", err
			}
			b, err := json.Marshal(cs)
			return string(b), err
		}
		a, ea := run(withAlias)
		b, eb := run(inlined)
		if (ea == nil) != (eb == nil) || a != b {
			oracleFail("C12", "alias-shared", sx.L(sx.A("yaml-block"), sx.A(withAlias)), fmt.Sprintf("with aliases: %s (%v)\nwritten out : %s (%v)", a, ea, b, eb))
			continue
		}
		stat("C12", "alias-docs")
	}
}
