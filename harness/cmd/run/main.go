// Command run drives the real go-pipeline library on generated cases and
// prints, per case, the projected observation (for the model comparison) and
// the verdict of the property oracle evaluated on the implementation alone.
//
//	CASE\t<prop>\t<case-sexp>\t<impl-observation-sexp>
//	ORACLE\t<prop>\t<class>\t<case-sexp>\t<message>
//	STAT\t<prop>\t<key>\t<count>
package main

import (
	"bufio"
	"flag"
	"fmt"
	"os"
	"runtime/debug"
	"runtime/pprof"
	"sort"
	"strings"

	"verifharness/sx"
)

var (
	out   *bufio.Writer
	stats = map[string]int{}
	seed  uint64
	tier  string
)

func emitCase(prop string, c, obs sx.S) {
	fmt.Fprintf(out, "CASE\t%s\t%s\t%s\n", prop, sx.String(c), sx.String(obs))
}

func oracleFail(prop, class string, c sx.S, msg string) {
	msg = strings.ReplaceAll(strings.ReplaceAll(msg, "\n", "\\n"), "\t", " ")
	fmt.Fprintf(out, "ORACLE\t%s\t%s\t%s\t%s\n", prop, class, sx.String(c), msg)
}

// noteCase records the input about to be run, so that a crash the process cannot recover from
// (fatal stack overflow, runtime throw) can still be reported with its input.
var noteFiles = map[string]*os.File{}

// noteCase records the input about to be handled, so that a crash or a hang of the process can be reported with it
func noteCase(prop, text string) {
	f := noteFiles[prop]
	if f == nil {
		os.MkdirAll("../build/tmp", 0o755)
		var err error
		f, err = os.OpenFile("../build/tmp/last-case-"+prop+".txt", os.O_CREATE|os.O_RDWR|os.O_TRUNC, 0o644)
		if err != nil {
			return
		}
		noteFiles[prop] = f
	}
	f.Truncate(0)
	f.WriteAt([]byte(text), 0)
}

func stat(prop, key string)         { stats[prop+"\t"+key]++ }
func statN(prop, key string, n int) { stats[prop+"\t"+key] += n }

type runner func(rng *sx.Rng, thorough bool)

var props = map[string]runner{}

func main() {
	prop := flag.String("prop", "", "property id")
	flag.Uint64Var(&seed, "seed", 1, "PRNG seed")
	flag.StringVar(&tier, "tier", "quick", "quick|thorough")
	replay := flag.String("replay", "", "replay one case sexp (with -prop)")
	flag.Parse()
	debug.SetGCPercent(1000)
	out = bufio.NewWriterSize(os.Stdout, 1<<20)
	defer out.Flush()
	if *replay != "" {
		c, err := sx.Parse(*replay)
		if err != nil {
			fmt.Fprintln(os.Stderr, "bad replay case:", err)
			os.Exit(2)
		}
		rp, ok := replayers[*prop]
		if !ok {
			fmt.Fprintln(os.Stderr, "no replayer for", *prop)
			os.Exit(2)
		}
		rp(c)
		return
	}
	r, ok := props[*prop]
	if !ok {
		fmt.Fprintln(os.Stderr, "unknown property", *prop)
		os.Exit(2)
	}
	if pf := os.Getenv("VERIF_PPROF"); pf != "" {
		f, _ := os.Create(pf)
		pprof.StartCPUProfile(f)
		defer pprof.StopCPUProfile()
	}
	r(sx.NewRng(seed), tier == "thorough")
	keys := make([]string, 0, len(stats))
	for k := range stats {
		keys = append(keys, k)
	}
	sort.Strings(keys)
	for _, k := range keys {
		fmt.Fprintf(out, "STAT\t%s\t%d\n", k, stats[k])
	}
}

func out2() *bufio.Writer { return out }

var replayers = map[string]func(c sx.S){}
