package main

import (
	"encoding/json"
	"errors"
	"fmt"
	"strings"

	pipeline "github.com/buildkite/go-pipeline"
	"github.com/buildkite/go-pipeline/ordered"
	"github.com/buildkite/go-pipeline/warning"
	"verifharness/sx"
)

var c15keys = []string{"command", "commands", "plugins", "wait", "waiter", "block", "input", "manual", "trigger", "group"}

// well-typed values for each kind-determining key
var c15vals = map[string]any{
	"command": "echo hi", "commands": []any{"a", "b"}, "plugins": []any{map[string]any{"docker#v1": map[string]any{"image": "x"}}},
	"wait": nil, "waiter": nil, "block": "Deploy?", "input": "Name?", "manual": "Go?", "trigger": "other-pipeline", "group": "grp",
}

func c15kindOf(s pipeline.Step, err error) string {
	name := ""
	switch s.(type) {
	case *pipeline.CommandStep:
		name = "CommandStep"
	case *pipeline.WaitStep:
		name = "WaitStep"
	case *pipeline.InputStep:
		name = "InputStep"
	case *pipeline.TriggerStep:
		name = "TriggerStep"
	case *pipeline.GroupStep:
		name = "GroupStep"
	case *pipeline.UnknownStep:
		name = "UnknownStep"
		switch {
		case errors.Is(err, pipeline.ErrUnknownStepType) && errors.Is(err, pipeline.ErrStepTypeInference):
			name += ":both-sentinels"
		case errors.Is(err, pipeline.ErrUnknownStepType):
			name += ":ErrUnknownStepType"
		case errors.Is(err, pipeline.ErrStepTypeInference):
			name += ":ErrStepTypeInference"
		default:
			name += ":no-sentinel"
		}
	default:
		name = fmt.Sprintf("%T", s)
	}
	return name
}

// the rule table, from the property text
func c15want(hasType bool, ty string, keys map[string]bool) string {
	if hasType {
		switch ty {
		case "command", "script":
			return "CommandStep"
		case "wait", "waiter":
			return "WaitStep"
		case "block", "input", "manual":
			return "InputStep"
		case "trigger":
			return "TriggerStep"
		case "group":
			return "GroupStep"
		}
		return "UnknownStep:ErrUnknownStepType"
	}
	switch {
	case keys["command"] || keys["commands"] || keys["plugins"]:
		return "CommandStep"
	case keys["wait"] || keys["waiter"]:
		return "WaitStep"
	case keys["block"] || keys["input"] || keys["manual"]:
		return "InputStep"
	case keys["trigger"]:
		return "TriggerStep"
	case keys["group"]:
		return "GroupStep"
	}
	return "UnknownStep:ErrStepTypeInference"
}

func c15parseOne(stepJSON string) (pipeline.Step, error, error) {
	p, err := pipeline.Parse(strings.NewReader(`{"steps":[` + stepJSON + `]}`))
	if err != nil && !warning.Is(err) {
		return nil, nil, err
	}
	if len(p.Steps) != 1 {
		return nil, nil, fmt.Errorf("got %d steps", len(p.Steps))
	}
	return p.Steps[0], err, nil
}

func c15map(hasType bool, ty string, mask int, extras map[string]any, form string) {
	m := map[string]any{}
	keys := map[string]bool{}
	kl := sx.List{}
	for i, k := range c15keys {
		if mask&(1<<i) != 0 {
			m[k] = c15vals[k]
			if form == "nulls" {
				m[k] = nil // the kind depends on which keys are present, not on their values
			}
			keys[k] = true
			kl = append(kl, sx.A(k))
		}
	}
	if hasType {
		m["type"] = ty
	}
	for k, v := range extras {
		m[k] = v
		kl = append(kl, sx.A(k))
	}
	b, _ := json.Marshal(m)
	c := sx.L(sx.A("map"), sx.Opt(hasType, sx.A(ty)), kl)
	st, werr, herr := c15parseOne(string(b))
	if herr != nil {
		oracleFail("C15", "hard-error-"+form, sx.L(c, sx.A(string(b))), "Parse failed outright: "+herr.Error())
		return
	}
	got := c15kindOf(st, werr)
	want := c15want(hasType, ty, keys)
	if got != want {
		oracleFail("C15", "kind-"+form, sx.L(c, sx.A(string(b))), fmt.Sprintf("step %s became %s, rule table says %s (warning: %v)", b, got, want, werr))
		return
	}
	stat("C15", "map-"+strings.SplitN(got, ":", 2)[0])
	// the same step handed over as an ordered map that was edited first: keys of other kinds (and a `type`) that
	// were set and then deleted again do not count, whatever traces they left in the map's storage
	if form == "plain" && mask%3 == 0 {
		om := ordered.NewMap[string, any](0)
		om.Set("label", "edited")
		om.Set("zz_padding", 1)
		var dead []string
		if !hasType {
			om.Set("type", "trigger")
			dead = append(dead, "type")
		}
		// (a third of these maps stays small: only one unwanted kind key next to the `type`, so that maps of a few
		// entries with a dead slot occur as well as large ones)
		small := (mask/3)%3 == 0
		nDead := 0
		for i, k := range c15keys {
			if mask&(1<<i) == 0 && (i+mask)%2 == 0 && (!small || nDead < 1) {
				om.Set(k, c15vals[k])
				dead = append(dead, k)
				nDead++
			}
		}
		// (every other time the unwanted keys are deleted BEFORE the real ones are set, so that the real keys are
		// added to a map that already carries dead slots)
		if mask%2 == 0 {
			for _, k := range dead {
				om.Delete(k)
			}
		}
		if decoded, derr := decodeText(string(b)); derr == nil {
			if src, ok := decoded.(*ordered.MapSA); ok {
				src.Range(func(k string, v any) error { om.Set(k, v); return nil })
			}
		}
		for _, k := range dead {
			if _, live := m[k]; !live {
				om.Delete(k)
			}
		}
		doc := ordered.NewMap[string, any](0)
		doc.Set("steps", []any{om})
		var p pipeline.Pipeline
		uerr := ordered.Unmarshal(doc, &p)
		ce := sx.L(sx.A("edited-map"), sx.Opt(hasType, sx.A(ty)), kl, sx.A(strings.Join(dead, ",")))
		if uerr != nil && !warning.Is(uerr) || len(p.Steps) != 1 {
			oracleFail("C15", "hard-error-edited", ce, fmt.Sprintf("unmarshalling the edited map: %v (%d steps)", uerr, len(p.Steps)))
			return
		}
		if got2 := c15kindOf(p.Steps[0], uerr); got2 != want {
			oracleFail("C15", "kind-edited", ce, fmt.Sprintf("step %s, handed over as an ordered map from which the keys %v had been deleted, became %s; rule table says %s", b, dead, got2, want))
			return
		}
		stat("C15", "edited-map")
	}
	nt := "1"
	if mask == 0 && !hasType {
		nt = "0"
	}
	fmt.Fprintf(out, "CASE\tC15\t%s\t%s\t%s\n", sx.String(c), sx.String(sx.A(got)), nt)
}

func c15scalar(s string) {
	b, _ := json.Marshal(s)
	c := sx.L(sx.A("scalar"), sx.A(s))
	st, werr, herr := c15parseOne(string(b))
	if herr != nil {
		oracleFail("C15", "hard-error-scalar", c, herr.Error())
		return
	}
	got := c15kindOf(st, werr)
	want := "UnknownStep:ErrUnknownStepType"
	switch s {
	case "wait", "waiter":
		want = "WaitStep"
	case "block", "input", "manual":
		want = "InputStep"
	}
	if got != want {
		oracleFail("C15", "kind-scalar", c, fmt.Sprintf("scalar %q became %s want %s", s, got, want))
		return
	}
	stat("C15", "scalar-"+strings.SplitN(got, ":", 2)[0])
	fmt.Fprintf(out, "CASE\tC15\t%s\t%s\t1\n", sx.String(c), sx.String(sx.A(got)))
}

func init() {
	props["C15"] = func(rng *sx.Rng, thorough bool) {
		types := []string{"command", "script", "wait", "waiter", "block", "input", "manual", "trigger", "group", "future", "Command", ""}
		extraPool := []map[string]any{
			{"label": "L", "key": "k1"},
			{"": "empty-key"},
			{"depends_on": []any{"a"}, "if": "build.branch == 'main'", "x": map[string]any{"command": "nested"}},
			{"name": "N", "id": "I", "steps": []any{}},
			{"env": map[string]any{"A": "b"}, "agents": map[string]any{"queue": "q"}, "": map[string]any{"a": 1}},
			// typed keys of the command step holding empty or null values: additional keys never change the decision
			{"env": map[string]any{}, "cache": map[string]any{}, "agents": map[string]any{}},
			{"signature": map[string]any{}, "matrix": map[string]any{}, "env": nil},
			{"cache": nil, "matrix": nil, "signature": nil, "agents": nil},
			{"env": map[string]any{}, "retry": []any{}, "label": ""},
			{"contents": "hello", "rem": 1, "remainingfields": []any{1}, "scalar": "x"},
			{"Contents": map[string]any{"a": 1}, "remainingFields": "x", "rem": map[string]any{}},
		}
		for mask := 0; mask < 1024; mask++ {
			for ti := -1; ti < len(types); ti++ {
				hasType := ti >= 0
				ty := ""
				if hasType {
					ty = types[ti]
				}
				c15map(hasType, ty, mask, nil, "plain")
				c15map(hasType, ty, mask, extraPool[rng.Intn(len(extraPool))], "extras")
				if mask%3 == ti%3 || thorough {
					c15map(hasType, ty, mask, nil, "nulls")
				}
				if thorough {
					for _, e := range extraPool {
						c15map(hasType, ty, mask, e, "extras")
					}
				}
			}
		}
		for _, s := range []string{"wait", "waiter", "block", "input", "manual", "command", "Wait", " wait", "wait ", "trigger", "group", "", "script", "WAIT", "blocks", "~", "null", "true", "waitér"} {
			c15scalar(s)
		}
		// the key set that decides the kind may come through YAML merges: a chain of mappings, each merging the
		// previous one and overriding `type` (before or after its own <<), merged into the step
		types3 := []string{"command", "wait", "block", "trigger", "group"}
		kindOf := map[string]string{"command": "CommandStep", "wait": "WaitStep", "block": "InputStep", "trigger": "TriggerStep", "group": "GroupStep"}
		for i := 0; i < 60; i++ {
			depth := 2 + rng.Intn(2)
			var b strings.Builder
			want := ""
			for lv := 0; lv < depth; lv++ {
				var parts []string
				if lv == 0 || rng.Chance(60) {
					want = sx.Pick(rng, types3)
					parts = append(parts, "type: "+want)
				}
				parts = append(parts, fmt.Sprintf("x%d: 1", lv))
				if lv > 0 {
					pos := rng.Intn(len(parts) + 1)
					parts = append(parts[:pos], append([]string{fmt.Sprintf("<<: *l%d", lv-1)}, parts[pos:]...)...)
				}
				fmt.Fprintf(&b, "l%d: &l%d {%s}\n", lv, lv, strings.Join(parts, ", "))
			}
			fmt.Fprintf(&b, "steps:\n- {<<: *l%d, label: L}\n", depth-1)
			text := b.String()
			c := sx.L(sx.A("merge-ladder"), sx.A(text))
			p, err := pipeline.Parse(strings.NewReader(text))
			if err != nil && !warning.Is(err) {
				oracleFail("C15", "ladder-hard-error", c, err.Error())
				continue
			}
			if len(p.Steps) != 1 {
				oracleFail("C15", "ladder-steps", c, fmt.Sprintf("%d steps", len(p.Steps)))
				continue
			}
			if got := c15kindOf(p.Steps[0], err); got != kindOf[want] {
				oracleFail("C15", "kind-merge-ladder", c, fmt.Sprintf("the merged step has type %s (the nearest level that writes it), yet it became %s", want, got))
				continue
			}
			stat("C15", "merge-ladders")
		}
		// a group whose children are of every kind, incl. unknown ones: the group stays a group
		for _, child := range []string{`"wait"`, `{"command":"x"}`, `{"mystery":1}`, `"frobnicate"`, `{"type":"future"}`} {
			js := `{"group":"g","steps":[` + child + `]}`
			st, werr, herr := c15parseOne(js)
			c := sx.L(sx.A("group-with-child"), sx.A(child))
			if herr != nil {
				oracleFail("C15", "hard-error-group", c, herr.Error())
				continue
			}
			if got := c15kindOf(st, werr); got != "GroupStep" {
				oracleFail("C15", "kind-group-child", c, fmt.Sprintf("group step %s became %s (warning: %v)", js, got, werr))
			}
		}
	}
}
