package main

// Grammar-based pipeline document generator (DESIGN.md Appendix A), shared by
// C03 C08 C09 C13 C02 C04.  A document is a neutral value tree (dv) that can be
// rendered as JSON text, block YAML or flow YAML.

import (
	"bytes"
	"encoding/json"
	"fmt"
	"math"
	"regexp"
	"strconv"
	"strings"
	"time"

	"github.com/buildkite/go-pipeline/ordered"
	"gopkg.in/yaml.v3"
	"verifharness/sx"
)

type dv struct {
	kind byte // n b i f s t l m
	b    bool
	i    int64
	f    float64
	s    string
	l    []*dv
	m    []dkv
}

// keys that are emitted unquoted although YAML resolves them as timestamps
var dateKey = regexp.MustCompile(`^[0-9]{4}-[0-9]{1,2}-[0-9]{1,2}([Tt][0-9:.+-]+)?$`)

type dkv struct {
	k string
	v *dv
}

func dNull() *dv           { return &dv{kind: 'n'} }
func dBool(b bool) *dv     { return &dv{kind: 'b', b: b} }
func dInt(i int64) *dv     { return &dv{kind: 'i', i: i} }
func dFloat(f float64) *dv { return &dv{kind: 'f', f: f} }
func dStr(s string) *dv    { return &dv{kind: 's', s: s} }
func dTime(s string) *dv   { return &dv{kind: 't', s: s} }
func dList(l ...*dv) *dv   { return &dv{kind: 'l', l: l} }
func dMap(m ...dkv) *dv    { return &dv{kind: 'm', m: m} }
func (d *dv) set(k string, v *dv) {
	for i := range d.m {
		if d.m[i].k == k {
			d.m[i].v = v
			return
		}
	}
	d.m = append(d.m, dkv{k, v})
}
func (d *dv) has(k string) bool {
	for _, e := range d.m {
		if e.k == k {
			return true
		}
	}
	return false
}

// ---- rendering ----

func (d *dv) node(flow bool) *yaml.Node {
	switch d.kind {
	case 'n':
		return &yaml.Node{Kind: yaml.ScalarNode, Tag: "!!null", Value: "null"}
	case 'b':
		return &yaml.Node{Kind: yaml.ScalarNode, Tag: "!!bool", Value: strconv.FormatBool(d.b)}
	case 'i':
		return &yaml.Node{Kind: yaml.ScalarNode, Tag: "!!int", Value: strconv.FormatInt(d.i, 10)}
	case 'f':
		v := strconv.FormatFloat(d.f, 'g', -1, 64)
		switch {
		case math.IsNaN(d.f):
			v = ".nan"
		case math.IsInf(d.f, 1):
			v = ".inf"
		case math.IsInf(d.f, -1):
			v = "-.inf"
		case !strings.ContainsAny(v, ".e"):
			v += ".0"
		}
		return &yaml.Node{Kind: yaml.ScalarNode, Tag: "!!float", Value: v}
	case 's':
		return &yaml.Node{Kind: yaml.ScalarNode, Tag: "!!str", Value: d.s}
	case 't':
		return &yaml.Node{Kind: yaml.ScalarNode, Tag: "!!timestamp", Value: d.s}
	case 'l':
		n := &yaml.Node{Kind: yaml.SequenceNode, Tag: "!!seq"}
		if flow {
			n.Style = yaml.FlowStyle
		}
		for _, e := range d.l {
			n.Content = append(n.Content, e.node(flow))
		}
		return n
	default:
		n := &yaml.Node{Kind: yaml.MappingNode, Tag: "!!map"}
		if flow {
			n.Style = yaml.FlowStyle
		}
		for _, e := range d.m {
			kn := &yaml.Node{Kind: yaml.ScalarNode, Tag: "!!str", Value: e.k}
			if dateKey.MatchString(e.k) {
				kn.Tag = "!!timestamp" // written plain, as a user would write a date-shaped key
			}
			n.Content = append(n.Content, kn, e.v.node(flow))
		}
		return n
	}
}

func (d *dv) yamlText(flow bool) (string, error) {
	b, err := yaml.Marshal(d.node(flow))
	return string(b), err
}

// jsonOK: can this tree be written as JSON text (no timestamps, finite floats)?
func (d *dv) jsonOK() bool {
	switch d.kind {
	case 't':
		return false
	case 'f':
		return !math.IsNaN(d.f) && !math.IsInf(d.f, 0)
	case 'l':
		for _, e := range d.l {
			if !e.jsonOK() {
				return false
			}
		}
	case 'm':
		for _, e := range d.m {
			if !e.v.jsonOK() {
				return false
			}
		}
	}
	return true
}

func (d *dv) jsonText(b *bytes.Buffer) {
	switch d.kind {
	case 'n':
		b.WriteString("null")
	case 'b':
		b.WriteString(strconv.FormatBool(d.b))
	case 'i':
		b.WriteString(strconv.FormatInt(d.i, 10))
	case 'f':
		if d.f == 0 && math.Signbit(d.f) {
			b.WriteString("-0.0") // stays a float (negative zero) for the reader
			break
		}
		jb, _ := json.Marshal(d.f)
		b.Write(jb)
	case 's', 't':
		jb, _ := json.Marshal(d.s)
		b.Write(jb)
	case 'l':
		b.WriteByte('[')
		for i, e := range d.l {
			if i > 0 {
				b.WriteByte(',')
			}
			e.jsonText(b)
		}
		b.WriteByte(']')
	default:
		b.WriteByte('{')
		for i, e := range d.m {
			if i > 0 {
				b.WriteByte(',')
			}
			kb, _ := json.Marshal(e.k)
			b.Write(kb)
			b.WriteByte(':')
			e.v.jsonText(b)
		}
		b.WriteByte('}')
	}
}

// ---- Go "any" (as returned by ordered.DecodeYAML) -> model wire format ----

func floatTokens(f float64) (string, string) {
	jb, err := json.Marshal(f)
	j := string(jb)
	if err != nil {
		j = ""
	}
	return j, fmt.Sprint(f)
}

func anySexp(a any) sx.S {
	switch v := a.(type) {
	case nil:
		return sx.L(sx.A("n"))
	case bool:
		return sx.L(sx.A("b"), sx.B(v))
	case int:
		return sx.L(sx.A("i"), sx.A(strconv.Itoa(v)))
	case int64:
		return sx.L(sx.A("i"), sx.A(strconv.FormatInt(v, 10)))
	case uint64:
		return sx.L(sx.A("i"), sx.A(strconv.FormatUint(v, 10)))
	case float64:
		j, s := floatTokens(v)
		return sx.L(sx.A("f"), sx.A(j), sx.A(s))
	case string:
		return sx.L(sx.A("s"), sx.A(v))
	case time.Time:
		jb, _ := json.Marshal(v)
		var s string
		json.Unmarshal(jb, &s)
		return sx.L(sx.A("t"), sx.A(s))
	case []any:
		l := sx.List{sx.A("l")}
		for _, e := range v {
			l = append(l, anySexp(e))
		}
		return l
	case *ordered.MapSA:
		l := sx.List{sx.A("m")}
		v.Range(func(k string, e any) error {
			l = append(l, sx.L(sx.A(k), anySexp(e)))
			return nil
		})
		return l
	case map[string]any:
		l := sx.List{sx.A("u")}
		for _, k := range sortedKeys(v) {
			l = append(l, sx.L(sx.A(k), anySexp(v[k])))
		}
		return l
	}
	return sx.L(sx.A("unsupported"), sx.A(fmt.Sprintf("%T", a)))
}

// dvSexp: the value tree a generated document denotes, written directly from the generator's own tree (no
// library code involved): what ordered.DecodeYAML must return for the rendered text
func dvSexp(d *dv, jsonForm bool) sx.S {
	switch d.kind {
	case 'n':
		return sx.L(sx.A("n"))
	case 'b':
		return sx.L(sx.A("b"), sx.B(d.b))
	case 'i':
		return sx.L(sx.A("i"), sx.A(strconv.FormatInt(d.i, 10)))
	case 'f':
		j, s := floatTokens(d.f)
		if _, err := strconv.ParseInt(j, 10, 64); err == nil && jsonForm {
			return sx.L(sx.A("i"), sx.A(j)) // JSON writes an integral float without a fraction: the text denotes an integer
		}
		return sx.L(sx.A("f"), sx.A(j), sx.A(s))
	case 's':
		return sx.L(sx.A("s"), sx.A(d.s))
	case 't':
		// as anySexp renders a time.Time: its JSON text
		if t, err := parseYAMLTime(d.s); err == nil {
			return anySexp(t)
		}
		return sx.L(sx.A("t"), sx.A(d.s))
	case 'l':
		l := sx.List{sx.A("l")}
		for _, e := range d.l {
			l = append(l, dvSexp(e, jsonForm))
		}
		return l
	default:
		l := sx.List{sx.A("m")}
		for _, e := range d.m {
			l = append(l, sx.L(sx.A(e.k), dvSexp(e.v, jsonForm)))
		}
		return l
	}
}

// sortedAnySexp: anySexp with the members of every mapping sorted by key
func sortedAnySexp(a any) sx.S {
	switch v := a.(type) {
	case []any:
		l := sx.List{sx.A("l")}
		for _, e := range v {
			l = append(l, sortedAnySexp(e))
		}
		return l
	case *ordered.MapSA:
		m := v.ToMap()
		l := sx.List{sx.A("m")}
		for _, k := range sortedKeys(m) {
			l = append(l, sx.L(sx.A(k), sortedAnySexp(m[k])))
		}
		return l
	case map[string]any:
		l := sx.List{sx.A("m")}
		for _, k := range sortedKeys(v) {
			l = append(l, sx.L(sx.A(k), sortedAnySexp(v[k])))
		}
		return l
	}
	return anySexp(a)
}

// decodeText: text -> what ordered.DecodeYAML gives (the model's input)
func decodeText(text string) (any, error) {
	var n yaml.Node
	if err := yaml.Unmarshal([]byte(text), &n); err != nil {
		return nil, err
	}
	return ordered.DecodeYAML(&n)
}

// ---- JSON bytes -> order-preserving sexp with number tokens ----

func jsonSexp(b []byte) (sx.S, error) {
	dec := json.NewDecoder(bytes.NewReader(b))
	dec.UseNumber()
	v, err := jsonValue(dec)
	if err != nil {
		return nil, err
	}
	return v, nil
}

func jsonValue(dec *json.Decoder) (sx.S, error) {
	t, err := dec.Token()
	if err != nil {
		return nil, err
	}
	switch v := t.(type) {
	case json.Delim:
		switch v {
		case '{':
			l := sx.List{sx.A("o")}
			for dec.More() {
				kt, err := dec.Token()
				if err != nil {
					return nil, err
				}
				val, err := jsonValue(dec)
				if err != nil {
					return nil, err
				}
				l = append(l, sx.L(sx.A(kt.(string)), val))
			}
			dec.Token()
			return l, nil
		case '[':
			l := sx.List{sx.A("a")}
			for dec.More() {
				val, err := jsonValue(dec)
				if err != nil {
					return nil, err
				}
				l = append(l, val)
			}
			dec.Token()
			return l, nil
		}
	case nil:
		return sx.L(sx.A("n")), nil
	case bool:
		return sx.L(sx.A("b"), sx.B(v)), nil
	case json.Number:
		return sx.L(sx.A("#"), sx.A(v.String())), nil
	case string:
		return sx.L(sx.A("s"), sx.A(v)), nil
	}
	return nil, fmt.Errorf("unexpected token %v", t)
}

// ---- generator ----

type docgen struct {
	rng         *sx.Rng
	marker      int      // unique marker counter for unknown keys/values
	markers     []string // every marker placed (each must appear exactly once in the output)
	malformed   bool     // inject type errors
	negZero     bool     // free-form floats may be -0.0
	injected    int
	strPool     []string
	depth       int
	specialKeys bool                       // use keys that look exactly like other YAML types (C09/C08)
	penvNames   []string                   // names of the pipeline env, for step envs to shadow
	mergeKeys   bool                       // allow "<<" as an ordinary key (C08/C09)
	decorate    func(marker string) string // optional: text appended to every marker (C04: env references)
	placed      []string                   // decorated markers as placed
}

var defaultStrPool = []string{
	"echo hello", "make test", "yes", "no", "on", "true", "null", "~", "0x1f", "1e3", "2002-08-15", "<<", "a: b", "- x", "#c", "é ü 日本",
	"line1\nline2", "tab\there", "trailing ", " leading", "", "'q'", "\"dq\"", "{{matrix}}", "$FOO", "$$X", "a,b", "[x]", "{y}", "*a", "&b", "!t", "%p", "@at", "`bt", "|", ">", "123", "-1", "1.5", "0o17", ".5", "+1", "0b1", "1_000",
}

func newDocgen(rng *sx.Rng, malformed bool) *docgen {
	return &docgen{rng: rng, malformed: malformed, strPool: defaultStrPool}
}

func (g *docgen) mark() string {
	g.marker++
	m := fmt.Sprintf("mk%dq", g.marker)
	g.markers = append(g.markers, m)
	if g.decorate != nil {
		d := g.decorate(m)
		g.placed = append(g.placed, d)
		return d
	}
	return m
}

func (g *docgen) str() *dv { return dStr(sx.Pick(g.rng, g.strPool)) }

// value for key / id / identifier / label / name: mostly a unique marked string, so that a dropped
// or duplicated alias is visible in the output
func (g *docgen) nameValue() *dv {
	if g.rng.Chance(70) {
		return dStr("nv" + g.mark())
	}
	return g.scalar()
}

// scalar that a string-typed field accepts (string, int, bool, finite float)
func (g *docgen) scalar() *dv {
	switch g.rng.Intn(10) {
	case 0:
		return dInt(int64(g.rng.Intn(2000) - 1000))
	case 1:
		return dBool(g.rng.Bool())
	case 2:
		return dFloat(sx.Pick(g.rng, []float64{1.5, -0.25, 1e21, 3.0, 1e-7, 0, 100}))
	default:
		return g.str()
	}
}

// elem: an item of a list that ends in a typed slice (commands, matrix values, cache paths): any scalar, now and then
// null or the empty string
func (g *docgen) elem() *dv {
	switch g.rng.Intn(16) {
	case 0:
		return dNull()
	case 1:
		return dStr("")
	}
	return g.scalar()
}

// arbitrary value tree for unknown fields / plugin configs, leaves carry unique markers
func (g *docgen) anyValue(depth int) *dv {
	r := g.rng.Intn(12)
	if depth <= 0 && r >= 8 {
		r = g.rng.Intn(8)
	}
	switch r {
	case 0, 1, 2:
		return dStr(g.mark())
	case 3:
		return dInt(int64(g.rng.Intn(100000)))
	case 4:
		return dBool(g.rng.Bool())
	case 5:
		return dNull()
	case 6:
		if g.negZero && g.rng.Chance(60) {
			// negative zero: a float here, the integer 0 once it has been through JSON text (used where the oracle
			// is a verdict, not a comparison of number spellings)
			return dFloat(math.Copysign(0, -1))
		}
		return dFloat(sx.Pick(g.rng, []float64{2.5, 1e100, -3.0, 0.1}))
	case 7:
		if g.rng.Chance(30) {
			return dTime(sx.Pick(g.rng, []string{"2002-08-15", "2001-12-14T21:59:43.10-05:00"}))
		}
		return g.str()
	case 8, 9:
		l := dList()
		for k := g.rng.Intn(4); k > 0; k-- {
			l.l = append(l.l, g.anyValue(depth-1))
		}
		return l
	default:
		m := dMap()
		for k := g.rng.Intn(4); k > 0; k-- {
			m.set(g.extraKey(), g.anyValue(depth-1))
		}
		return m
	}
}

var specialKeys = []string{"0x1F", "1e3", "True", "+7", "0o17", "~", "yes", "No", "null", "1", "007", "1.0", "-0", ".5", "2002-08-15", "0b11", "1_000", "y", "OFF"}

func (g *docgen) extraKey() string {
	if g.mergeKeys && g.rng.Chance(6) {
		return "<<"
	}
	if g.specialKeys && g.rng.Chance(10) {
		return sx.Pick(g.rng, specialKeys) // exactly a string that plain YAML would read as another type
	}
	if g.rng.Chance(12) {
		return sx.Pick(g.rng, []string{"yes", "1", "true", "null", "0x1", "~", "k with space", "depends_on", "agents", "if", "soft_fail", "é", "2002-08-15", "1.5"}) + g.mark()
	}
	return "xk" + g.mark()
}

func (g *docgen) extras(m *dv, max int) {
	for k := g.rng.Intn(max + 1); k > 0; k-- {
		m.set(g.extraKey(), g.anyValue(2))
	}
}

// wrongType: a value of a type the target field does not accept
func (g *docgen) wrongType() *dv {
	g.injected++
	switch g.rng.Intn(5) {
	case 0:
		return dMap(dkv{"oops", dStr("x")})
	case 1:
		return dList(dMap(dkv{"a", dInt(1)}))
	case 2:
		return dTime("2002-08-15")
	case 3:
		return dList(dList(dStr("nested")))
	default:
		return dFloat(math.Inf(1))
	}
}

func (g *docgen) maybeWrong(v *dv, pct int) *dv {
	if g.malformed && g.rng.Chance(pct) {
		return g.wrongType()
	}
	return v
}

func (g *docgen) pluginSource() string {
	return sx.Pick(g.rng, []string{"docker#v3.0.0", "my-org/thing#main", "docker-compose", "./local/plugin", "https://example.org/p.git#v1", "git@github.com:o/r.git", "github.com/buildkite-plugins/docker-buildkite-plugin#v1", "a/b/c", "ecr#v2.1.0", "x#feature/y", "../sibling-plugin", "../sibling#v1", "./.buildkite/plugins/x", "./here", ".hidden/plugin", "/abs/plugin"})
}

func (g *docgen) pluginConfig() *dv {
	switch g.rng.Intn(7) {
	case 0:
		return dNull()
	case 1:
		return dMap()
	case 5:
		// a scalar config (zero values included: false, 0, "" are configs of their own, not "no config")
		return sx.Pick(g.rng, []*dv{dBool(false), dBool(true), dInt(0), dInt(7), dStr(""), dStr("cfg " + g.mark()), dFloat(0), dList()})
	default:
		m := dMap()
		for k := 1 + g.rng.Intn(3); k > 0; k-- {
			m.set("c"+g.mark(), g.anyValue(2))
		}
		return m
	}
}

func (g *docgen) plugins() *dv {
	switch g.rng.Intn(4) {
	case 0: // legacy: one mapping, order matters
		m := dMap()
		for k := 1 + g.rng.Intn(4); k > 0; k-- {
			m.set(g.pluginSource()+fmt.Sprint(k), g.pluginConfig())
		}
		return m
	case 1:
		return dNull()
	default:
		l := dList()
		for k := g.rng.Intn(4); k > 0; k-- {
			switch g.rng.Intn(4) {
			case 0:
				l.l = append(l.l, dStr(g.pluginSource()))
			case 1: // one list element with several entries
				l.l = append(l.l, dMap(dkv{g.pluginSource() + "a", g.pluginConfig()}, dkv{g.pluginSource() + "b", g.pluginConfig()}))
			default:
				l.l = append(l.l, dMap(dkv{g.pluginSource(), g.pluginConfig()}))
			}
		}
		return l
	}
}

func (g *docgen) envMap() *dv {
	m := dMap()
	// shadow pipeline variables (when the caller announced them), also with an empty value
	for _, n := range g.penvNames {
		if g.rng.Chance(35) {
			m.set(n, sx.Pick(g.rng, []*dv{dStr(""), dStr("step value"), g.scalar()}))
		}
	}
	for k := g.rng.Intn(5); k > 0; k-- {
		m.set(sx.Pick(g.rng, []string{"FOO", "BAR", "PATH", "A_B", "lower", "N1", "Ünï", "X Y"})+fmt.Sprint(k), g.scalar())
	}
	return m
}

func (g *docgen) matrix() *dv {
	vals := func() *dv {
		l := dList()
		for k := g.rng.Intn(4); k > 0; k-- {
			l.l = append(l.l, g.elem())
		}
		return l
	}
	switch g.rng.Intn(8) {
	case 0:
		return vals() // simple list
	case 1:
		return dNull()
	case 6:
		// present but empty in various spellings
		return sx.Pick(g.rng, []*dv{dMap(), dMap(dkv{"setup", dMap()}), dMap(dkv{"adjustments", dList()}),
			dMap(dkv{"setup", dMap()}, dkv{"adjustments", dList()}), dMap(dkv{"setup", dNull()}), dMap(dkv{"setup", dList()})})
	}
	m := dMap()
	named := g.rng.Chance(60)
	if g.rng.Chance(92) {
		if named {
			su := dMap()
			for k := 1 + g.rng.Intn(3); k > 0; k-- {
				switch g.rng.Intn(10) {
				case 9:
					su.set(fmt.Sprint("dim", k), dNull()) // null -> nil value list
				case 0:
					su.set(fmt.Sprint("dim", k), g.scalar()) // scalar -> one-element list
				default:
					su.set(fmt.Sprint("dim", k), vals())
				}
			}
			// the anonymous dimension next to named ones (legal: a map setup with the key "")
			if g.rng.Chance(12) {
				su.set("", vals())
			}
			m.set("setup", su)
		} else {
			m.set("setup", vals())
		}
	}
	if g.rng.Chance(60) {
		adjs := dList()
		for k := g.rng.Intn(3); k > 0; k-- {
			a := dMap()
			if g.rng.Chance(10) {
				// an adjustment without a "with" (nil map), or with an empty one
				if g.rng.Chance(40) {
					a.set("with", dMap())
				}
			} else if named {
				w := dMap()
				for j := 1 + g.rng.Intn(2); j > 0; j-- {
					w.set(fmt.Sprint("dim", j), sx.Pick(g.rng, []*dv{dStr("v"), dInt(7), dBool(true), g.str()}))
				}
				if g.rng.Chance(15) {
					w.set("", sx.Pick(g.rng, []*dv{dStr("anon"), dInt(3), g.str()}))
				}
				a.set("with", g.maybeWrong(w, 10))
			} else {
				a.set("with", g.maybeWrong(sx.Pick(g.rng, []*dv{dStr("banana"), dInt(47), dBool(false), g.str(), dStr("")}), 10))
			}
			switch g.rng.Intn(6) {
			case 0:
				a.set("skip", dBool(true))
			case 1:
				a.set("skip", dBool(false))
			case 2:
				a.set("skip", dStr("reason "+g.mark()))
			case 3:
				// anything but false and null means skip - also values that look empty
				a.set("skip", sx.Pick(g.rng, []*dv{dStr(""), dInt(0), dFloat(0), dList(), dMap(), dInt(1), dList(dStr("r " + g.mark())), dMap(dkv{"why" + g.mark(), dStr(g.mark())}), dList(dMap(dkv{"n", g.str()})), dNull()}))
			}
			if g.rng.Chance(40) {
				a.set("soft_fail", g.anyValue(1))
			}
			adjs.l = append(adjs.l, a)
		}
		m.set("adjustments", g.maybeWrong(adjs, 5))
	}
	g.extras(m, 1)
	return m
}

func (g *docgen) cache() *dv {
	switch g.rng.Intn(6) {
	case 0:
		return dBool(g.rng.Bool())
	case 1:
		return dStr("node_modules")
	case 2:
		return dList(dStr("a/"), g.elem())
	case 3:
		return dNull()
	default:
		m := dMap()
		if g.rng.Chance(8) {
			// the mapping spelling of a disabled cache (on its own: a disabled cache keeps nothing else, F12)
			return dMap(dkv{"disabled", dBool(true)})
		}
		if g.rng.Chance(8) {
			m.set("disabled", dBool(false))
		}
		if g.rng.Chance(70) {
			m.set("paths", sx.Pick(g.rng, []*dv{dList(dStr("p1"), dStr("p2")), dStr("single"), dList(), dList(dStr("p1"), g.elem())}))
		}
		if g.rng.Chance(50) {
			m.set("name", g.scalar())
		}
		if g.rng.Chance(40) {
			m.set("size", sx.Pick(g.rng, []*dv{dStr("20g"), dInt(20)}))
		}
		g.extras(m, 1)
		return m
	}
}

func (g *docgen) signature() *dv {
	m := dMap(dkv{"algorithm", dStr("EdDSA")}, dkv{"value", dStr("eyJ..sig" + g.mark())})
	switch g.rng.Intn(4) {
	case 0:
		m.set("signed_fields", dList())
	case 1:
	default:
		m.set("signed_fields", dList(dStr("command"), dStr("env"), dStr("plugins"), dStr("matrix"), dStr("repository_url")))
		if g.rng.Chance(10) {
			m.get("signed_fields").l = append(m.get("signed_fields").l, dNull())
		}
	}
	return m
}

func (g *docgen) commandStep() *dv {
	m := dMap()
	add := func(k string, v *dv) {
		// random position relative to other keys: build in random order
		m.set(k, v)
	}
	// primary / alias key combinations
	switch g.rng.Intn(8) {
	case 0:
		add("command", g.maybeWrong(g.scalar(), 8))
	case 1:
		l := dList()
		for k := g.rng.Intn(4); k > 0; k-- {
			l.l = append(l.l, g.elem())
		}
		add("commands", g.maybeWrong(l, 8))
	case 2:
		add("command", dList(g.str(), g.str()))
	case 3:
		add("commands", g.scalar())
	case 4:
		add("command", g.scalar())
		add("commands", dList(g.str()))
	case 5:
		add("command", dNull())
	case 6: // plugins only
	default:
		add("command", g.str())
	}
	if !m.has("command") && !m.has("commands") || g.rng.Chance(45) {
		add("plugins", g.maybeWrong(g.plugins(), 6))
	}
	for _, k := range []string{"key", "id", "identifier"} {
		if g.rng.Chance(25) {
			add(k, g.maybeWrong(g.nameValue(), 4))
		}
	}
	for _, k := range []string{"label", "name"} {
		if g.rng.Chance(30) {
			add(k, g.maybeWrong(g.nameValue(), 4))
		}
	}
	if g.rng.Chance(40) {
		add("env", g.maybeWrong(g.envMap(), 8))
	}
	if g.rng.Chance(35) {
		add("matrix", g.maybeWrong(g.matrix(), 5))
	}
	if g.rng.Chance(30) {
		add("cache", g.maybeWrong(g.cache(), 5))
	}
	if g.rng.Chance(15) {
		add("signature", g.maybeWrong(g.signature(), 10))
	}
	if g.rng.Chance(10) {
		add("type", dStr(sx.Pick(g.rng, []string{"command", "script"})))
	}
	// a type error somewhere INSIDE a typed field (one env value, one matrix dimension, one element of a list, ...)
	if g.malformed && g.rng.Chance(12) {
		var typed []string
		for _, k := range []string{"env", "matrix", "cache", "plugins", "signature", "commands"} {
			if v := m.get(k); v != nil && (v.kind == 'm' && len(v.m) > 0 || v.kind == 'l' && len(v.l) > 0) {
				typed = append(typed, k)
			}
		}
		if len(typed) > 0 {
			g.deepWrong(m.get(sx.Pick(g.rng, typed)), 3)
		}
	}
	g.extras(m, 3)
	g.shuffle(m)
	return m
}

// deepWrong replaces one randomly chosen descendant of a non-empty container by a value of an unexpected type
func (g *docgen) deepWrong(v *dv, depth int) {
	var child **dv
	switch v.kind {
	case 'm':
		child = &v.m[g.rng.Intn(len(v.m))].v
	case 'l':
		child = &v.l[g.rng.Intn(len(v.l))]
	default:
		return
	}
	c := *child
	if depth > 1 && g.rng.Chance(60) && (c.kind == 'm' && len(c.m) > 0 || c.kind == 'l' && len(c.l) > 0) {
		g.deepWrong(c, depth-1)
		return
	}
	*child = g.wrongType()
}

func (g *docgen) shuffle(m *dv) {
	for i := len(m.m) - 1; i > 0; i-- {
		j := g.rng.Intn(i + 1)
		m.m[i], m.m[j] = m.m[j], m.m[i]
	}
}

// step: one step; now and then a mapping step also carries a key of ANOTHER kind's family (the kind is decided by
// family precedence, not by which key comes first in the document)
func (g *docgen) step(depth int) *dv {
	st := g.step1(depth)
	if st.kind == 'm' && !st.has("type") && g.rng.Chance(7) {
		k := sx.Pick(g.rng, []string{"command", "commands", "wait", "waiter", "block", "input", "manual", "trigger", "group"})
		// (not command next to commands: the former is then ignored, a recorded limit of the normal form)
		if !st.has(k) && !((k == "command" || k == "commands") && (st.has("command") || st.has("commands"))) {
			st.m = append(st.m, dkv{k, dStr("other family " + g.mark())})
			g.shuffle(st)
		}
	}
	return st
}

func (g *docgen) step1(depth int) *dv {
	r := g.rng.Intn(100)
	switch {
	case r < 45:
		return g.commandStep()
	case r < 52:
		return dStr(sx.Pick(g.rng, []string{"wait", "waiter", "block", "input", "manual"}))
	case r < 60:
		m := dMap(dkv{sx.Pick(g.rng, []string{"wait", "waiter"}), sx.Pick(g.rng, []*dv{dNull(), dStr("~"), g.str()})})
		if g.rng.Chance(50) {
			m.set("continue_on_failure", dBool(true))
		}
		g.extras(m, 2)
		g.shuffle(m)
		return m
	case r < 68:
		m := dMap(dkv{sx.Pick(g.rng, []string{"block", "input", "manual"}), g.scalar()})
		if g.rng.Chance(50) {
			m.set("fields", dList(dMap(dkv{"text", dStr(g.mark())}, dkv{"key", dStr("k")})))
		}
		g.extras(m, 2)
		g.shuffle(m)
		return m
	case r < 75:
		m := dMap(dkv{"trigger", g.scalar()})
		if g.rng.Chance(50) {
			m.set("build", dMap(dkv{"message", dStr(g.mark())}, dkv{"env", g.envMap()}))
		}
		g.extras(m, 2)
		g.shuffle(m)
		return m
	case r < 87 && depth > 0:
		m := dMap(dkv{"group", sx.Pick(g.rng, []*dv{g.scalar(), dNull(), dStr("grp " + g.mark())})})
		switch g.rng.Intn(6) {
		case 0:
			m.set("steps", dNull())
		case 1:
		default:
			m.set("steps", g.steps(depth-1, 3))
		}
		for _, k := range []string{"key", "id", "identifier", "label", "name"} {
			if g.rng.Chance(20) {
				m.set(k, g.nameValue())
			}
		}
		g.extras(m, 2)
		g.shuffle(m)
		return m
	case r < 91:
		m := dMap(dkv{"type", dStr(sx.Pick(g.rng, []string{"wait", "waiter", "block", "input", "manual", "trigger", "group"}))})
		g.extras(m, 2)
		return m
	case r < 95: // unknown kinds
		switch g.rng.Intn(3) {
		case 0:
			return dStr("frobnicate" + g.mark())
		case 1:
			m := dMap(dkv{"type", dStr("future")}, dkv{"payload", g.anyValue(2)})
			return m
		default:
			m := dMap(dkv{"mystery" + g.mark(), g.anyValue(2)})
			g.extras(m, 2)
			return m
		}
	default:
		if g.malformed {
			g.injected++
			return sx.Pick(g.rng, []*dv{dInt(5), dNull(), dList(dStr("x")), dBool(true), dMap(dkv{"type", dInt(3)}, dkv{"command", dStr("x")})})
		}
		return g.commandStep()
	}
}

func (g *docgen) steps(depth, max int) *dv {
	l := dList()
	for k := g.rng.Intn(max + 1); k > 0; k-- {
		l.l = append(l.l, g.step(depth))
	}
	return l
}

func (g *docgen) document() *dv {
	if g.rng.Chance(15) {
		return g.steps(2, 5) // bare list
	}
	m := dMap()
	switch g.rng.Intn(10) {
	case 0:
		m.set("steps", dNull())
	case 1: // no steps key at all
	default:
		m.set("steps", g.maybeWrong(g.steps(2, 5), 2))
	}
	if g.rng.Chance(50) {
		e := dMap()
		for k := g.rng.Intn(6); k > 0; k-- {
			name := sx.Pick(g.rng, []string{"FOO", "BAR", "BAZ", "yes", "1", "é", "key with space"}) + fmt.Sprint(k)
			if g.specialKeys && g.rng.Chance(15) {
				name = sx.Pick(g.rng, specialKeys)
			}
			e.set(name, g.scalar())
		}
		m.set("env", g.maybeWrong(e, 4))
	}
	g.extras(m, 3)
	g.shuffle(m)
	return m
}

// parseYAMLTime: the timestamp spellings YAML 1.1 / yaml.v3 accept
func parseYAMLTime(v string) (time.Time, error) {
	for _, layout := range []string{"2006-1-2T15:4:5.999999999Z07:00", "2006-1-2t15:4:5.999999999Z07:00", "2006-1-2 15:4:5.999999999", "2006-1-2"} {
		if t, err := time.Parse(layout, v); err == nil {
			return t, nil
		}
	}
	return time.Time{}, fmt.Errorf("not a timestamp: %q", v)
}
