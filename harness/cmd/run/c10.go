package main

import (
	"encoding/json"
	"fmt"
	"strings"

	pipeline "github.com/buildkite/go-pipeline"
	"github.com/buildkite/go-pipeline/ordered"
	"github.com/buildkite/interpolate"
	"verifharness/sx"
)

// hEnv is the caller's InterpolationEnv, case-sensitive or case-insensitive
// (the library's own internal/env package cannot be imported).
type hEnv struct {
	m  map[string]string
	ci bool
}

func (e *hEnv) norm(k string) string {
	if e.ci {
		return strings.ToUpper(k)
	}
	return k
}
func (e *hEnv) Get(k string) (string, bool) { v, ok := e.m[e.norm(k)]; return v, ok }
func (e *hEnv) Set(k, v string)             { e.m[e.norm(k)] = v }
func (e *hEnv) clone() *hEnv {
	c := &hEnv{m: map[string]string{}, ci: e.ci}
	for k, v := range e.m {
		c.m[k] = v
	}
	return c
}

// a string built from segments, with its raw text
type c10seg struct {
	kind, n, d string
}
type c10str struct {
	raw  string
	segs []c10seg
}

func (s c10str) sexp() sx.S {
	l := sx.List{}
	for _, g := range s.segs {
		switch g.kind {
		case "lit":
			l = append(l, sx.L(sx.A("lit"), sx.A(g.n)))
		case "var", "esc", "req":
			l = append(l, sx.L(sx.A(g.kind), sx.A(g.n)))
		default:
			l = append(l, sx.L(sx.A(g.kind), sx.A(g.n), sx.A(g.d)))
		}
	}
	return l
}

func c10gen(rng *sx.Rng, names []string) c10str {
	var s c10str
	lits := []string{"", "a", "-", "x y", "/bin", "1", "_", ".", "é"}
	k := 1 + rng.Intn(3)
	for i := 0; i < k; i++ {
		n := sx.Pick(rng, names)
		var g c10seg
		switch rng.Intn(13) {
		case 12:
			g = c10seg{kind: "lit", n: "tail"}
			s.raw += "tail"
		case 0, 1, 2, 3:
			g = c10seg{kind: "lit", n: sx.Pick(rng, lits)}
			// a literal directly after $name would extend the identifier: keep a separator
			if len(s.segs) > 0 && s.segs[len(s.segs)-1].kind != "lit" && g.n != "" && (isIdentByte(g.n[0])) {
				g.n = "-" + g.n
			}
			s.raw += g.n
		case 4, 5, 6:
			g = c10seg{kind: "var", n: n}
			if rng.Bool() {
				s.raw += "${" + n + "}"
			} else {
				s.raw += "$" + n
				s.segs = append(s.segs, g)
				g = c10seg{kind: "lit", n: "."}
				s.raw += "."
			}
		case 7:
			g = c10seg{kind: "dflt", n: n, d: sx.Pick(rng, []string{"dv", "", "d-1"})}
			s.raw += "${" + n + ":-" + g.d + "}"
		case 8:
			g = c10seg{kind: "unset", n: n, d: sx.Pick(rng, []string{"uv", ""})}
			s.raw += "${" + n + "-" + g.d + "}"
		case 9, 10:
			g = c10seg{kind: "esc", n: n}
			if rng.Bool() {
				s.raw += "$$" + n
			} else {
				s.raw += `\$` + n
			}
			s.segs = append(s.segs, g)
			g = c10seg{kind: "lit", n: "!"}
			s.raw += "!"
		default:
			g = c10seg{kind: "req", n: n}
			s.raw += "${" + n + "?}"
		}
		s.segs = append(s.segs, g)
	}
	return s
}

func isIdentByte(c byte) bool {
	return c == '_' || c >= '0' && c <= '9' || c >= 'a' && c <= 'z' || c >= 'A' && c <= 'Z'
}

// list-level reference of the property, using the real expansion library
func c10reference(prefer bool, e *hEnv, block [][2]string) ([][2]string, error) {
	remove := func(l [][2]string, k string) [][2]string {
		var out [][2]string
		for _, p := range l {
			if p[0] != k {
				out = append(out, p)
			}
		}
		return out
	}
	var done [][2]string
	todo := append([][2]string{}, block...)
	for len(todo) > 0 {
		k, v := todo[0][0], todo[0][1]
		ik, err := interpolate.Interpolate(e, k)
		if err != nil {
			return nil, err
		}
		iv, err := interpolate.Interpolate(e, v)
		if err != nil {
			return nil, err
		}
		done = append(remove(done, ik), [2]string{ik, iv})
		todo = remove(todo[1:], ik)
		if _, exists := e.Get(ik); !(prefer && exists) {
			e.Set(ik, iv)
		}
	}
	return done, nil
}

func init() {
	props["C10"] = func(rng *sx.Rng, thorough bool) {
		c10nilEnv()
		n := 4000
		if thorough {
			n = 80000
		}
		for it := 0; it < n; it++ {
			ci := rng.Chance(40)
			prefer := rng.Bool()
			names := []string{"FOO", "BAR", "BAZ", "foo", "Path", "N", "X1", "TGT", "AL1", "AL2", "AL3", "AL4"}
			env := &hEnv{m: map[string]string{}, ci: ci}
			// the same initial variables as a plain map, for the library's own env implementation (internal/env,
			// reached through the verif hook); unusable when two names differ only in case
			rawInit := map[string]string{}
			rawClash := false
			setInit := func(nm, v string) {
				for k := range rawInit {
					if k != nm && strings.EqualFold(k, nm) {
						rawClash = true
					}
				}
				rawInit[nm] = v
				env.Set(nm, v)
			}
			e0 := sx.List{}
			for k := rng.Intn(4); k > 0; k-- {
				nm, v := sx.Pick(rng, names), sx.Pick(rng, []string{"r1", "", "FOO", "BAR", "rv"})
				setInit(nm, v)
				e0 = append(e0, sx.L(sx.A(nm), sx.A(v)))
			}
			// block entries: names are mostly plain identifiers, sometimes built by expansion
			var block [][2]string
			tbl := map[string]c10str{}
			blk := sx.List{}
			used := map[string]bool{}
			nEntries := 1 + rng.Intn(6)
			aliasy := it%4 == 0 // long blocks in which many names are built by expansion and collide
			if aliasy {
				nEntries = 5 + rng.Intn(10)
				// most aliases name the same target, so that many entries are superseded by renames
				main := sx.Pick(rng, []string{"FOO", "BAR", "N", "TGT"})
				for _, a := range []string{"AL1", "AL2", "AL3", "AL4"} {
					t := main
					if rng.Chance(30) {
						t = sx.Pick(rng, []string{"FOO", "BAR", "N", "TGT"})
					}
					setInit(a, t)
					e0 = append(e0, sx.L(sx.A(a), sx.A(t)))
				}
			}
			directed := aliasy && it%8 == 0
			if directed {
				// several aliases collapse onto one name (superseding half of the block), then a name built by
				// expansion equals a LATER entry's name
				other := "BAZ"
				setInit("AL5", other)
				e0 = append(e0, sx.L(sx.A("AL5"), sx.A(other)))
				mainName, _ := env.Get("AL1")
				for _, a := range []string{"AL2", "AL3", "AL4"} {
					setInit(a, mainName)
					e0 = append(e0, sx.L(sx.A(a), sx.A(mainName)))
				}
				var raws []string
				nAl := 3 + rng.Intn(2)
				for j := 1; j <= nAl; j++ {
					raws = append(raws, fmt.Sprintf("${AL%d}", j))
				}
				pos := rng.Intn(len(raws) + 1)
				raws = append(raws[:pos], append([]string{mainName}, raws[pos:]...)...)
				raws = append(raws, "${AL5}", other)
				for _, raw := range raws {
					ks := c10str{raw: raw, segs: []c10seg{{kind: "lit", n: raw}}}
					if strings.HasPrefix(raw, "${") {
						ks.segs = []c10seg{{kind: "var", n: raw[2 : len(raw)-1]}}
					}
					vs := c10str{raw: "val-" + raw[len(raw)/2:], segs: []c10seg{{kind: "lit", n: "val-" + raw[len(raw)/2:]}}}
					vs.raw = strings.NewReplacer("$", "", "{", "", "}", "").Replace(vs.raw)
					vs.segs[0].n = vs.raw
					used[ks.raw] = true
					tbl[ks.raw], tbl[vs.raw] = ks, vs
					block = append(block, [2]string{ks.raw, vs.raw})
					blk = append(blk, sx.L(sx.A(ks.raw), sx.A(vs.raw)))
				}
				nEntries = 0
			}
			for k := nEntries; k > 0; k-- {
				var ks c10str
				if aliasy && rng.Chance(55) {
					a := sx.Pick(rng, []string{"AL1", "AL2", "AL3", "AL4"})
					if rng.Bool() {
						ks = c10str{raw: "${" + a + "}", segs: []c10seg{{kind: "var", n: a}}}
					} else {
						ks = c10str{raw: "$" + a, segs: []c10seg{{kind: "var", n: a}}}
					}
				} else if aliasy && rng.Chance(50) {
					nm := sx.Pick(rng, []string{"FOO", "BAR", "N", "TGT"})
					ks = c10str{raw: nm, segs: []c10seg{{kind: "lit", n: nm}}}
				} else if rng.Chance(25) {
					ks = c10gen(rng, names)
				} else {
					nm := sx.Pick(rng, names)
					ks = c10str{raw: nm, segs: []c10seg{{kind: "lit", n: nm}}}
				}
				if used[ks.raw] {
					continue
				}
				used[ks.raw] = true
				vs := c10gen(rng, names)
				tbl[ks.raw], tbl[vs.raw] = ks, vs
				block = append(block, [2]string{ks.raw, vs.raw})
				blk = append(blk, sx.L(sx.A(ks.raw), sx.A(vs.raw)))
			}
			probe := c10gen(rng, names)
			// make sure a raw string has one segment reading (same raw text generated twice is identical by construction)
			tl := sx.List{}
			for _, raw := range sortedKeys(tbl) {
				tl = append(tl, sx.L(sx.A(raw), tbl[raw].sexp()))
			}
			pl := sx.List{}
			for _, nm := range names {
				pl = append(pl, sx.A(nm))
			}
			c := sx.L(sx.B(prefer), sx.B(ci), e0, blk, tl, pl, probe.sexp())

			items := make([]ordered.TupleSS, 0, len(block))
			for _, p := range block {
				items = append(items, ordered.TupleSS{Key: p[0], Value: p[1]})
			}
			if len(items) > 1 && rng.Chance(15) {
				// the same block written as a pair list in which one name repeats: the constructor keeps the first
				// position and the last value, so this is the very same block
				j := rng.Intn(len(items) - 1)
				real := items[j].Value
				items[j].Value = "stale $FOO"
				items = append(items, ordered.TupleSS{Key: items[j].Key, Value: real})
				stat("C10", "block-from-repeated-pairs")
			}
			envMap := ordered.MapFromItems(items...)
			if len(block) >= 4 && rng.Chance(12) {
				// the same block assembled by hand: a junk entry is removed again (its slot stays behind, the map is
				// too large to be compacted) before the last entry is added
				envMap = ordered.NewMap[string, string](0)
				envMap.Set("ZZ_JUNK_ENTRY", "junk")
				for _, pr := range block[:len(block)-1] {
					envMap.Set(pr[0], pr[1])
				}
				envMap.Delete("ZZ_JUNK_ENTRY")
				envMap.Set(block[len(block)-1][0], block[len(block)-1][1])
				stat("C10", "block-assembled-with-tombstone")
			}
			// no caller environment at all: the library supplies an empty one, and everything else - the flag
			// included - is as with an empty environment handed over
			if it%2 == 1 {
				mk := func() *pipeline.Pipeline {
					m := ordered.NewMap[string, string](0)
					for _, pr := range block {
						m.Set(pr[0], pr[1])
					}
					return &pipeline.Pipeline{Env: m, Steps: pipeline.Steps{&pipeline.CommandStep{Command: probe.raw}}}
				}
				pNil, pEmpty := mk(), mk()
				var eNil, eEmpty error
				func() {
					defer func() {
						if r := recover(); r != nil {
							eNil = fmt.Errorf("panic: %v", r)
						}
					}()
					eNil = pNil.Interpolate(nil, prefer)
					eEmpty = pEmpty.Interpolate(pipeline.VerifEnvFromMap(true, map[string]string{}), prefer)
				}()
				jNil, _ := json.Marshal(pNil)
				jEmpty, _ := json.Marshal(pEmpty)
				if (eNil == nil) != (eEmpty == nil) || eNil == nil && string(jNil) != string(jEmpty) {
					oracleFail("C10", "nil-env", c, fmt.Sprintf("with no environment (prefer=%v) the result is %s (err %v), with an empty environment %s (err %v)", prefer, jNil, eNil, jEmpty, eEmpty))
					continue
				}
				stat("C10", "nil-env")
			}
			// the env block is processed whatever else the pipeline holds: with no steps at all (nil, or empty) the
			// block and the caller's environment end up as they do next to a step
			if it%3 == 2 {
				mkb := func(steps pipeline.Steps) *pipeline.Pipeline {
					m := ordered.NewMap[string, string](0)
					for _, pr := range block {
						m.Set(pr[0], pr[1])
					}
					return &pipeline.Pipeline{Env: m, Steps: steps}
				}
				pWith, pBare := mkb(pipeline.Steps{&pipeline.CommandStep{Command: "plain"}}), mkb(sx.Pick(rng, []pipeline.Steps{nil, {}}))
				eWith, eBare := env.clone(), env.clone()
				errWith, errBare := pWith.Interpolate(eWith, prefer), pBare.Interpolate(eBare, prefer)
				dump := func(p *pipeline.Pipeline, e *hEnv) string {
					var b strings.Builder
					p.Env.Range(func(k, v string) error { fmt.Fprintf(&b, "%q=%q;", k, v); return nil })
					b.WriteString(" | ")
					for _, k := range sortedKeys(e.m) {
						fmt.Fprintf(&b, "%q=%q;", k, e.m[k])
					}
					return b.String()
				}
				if (errWith == nil) != (errBare == nil) || errWith == nil && dump(pWith, eWith) != dump(pBare, eBare) {
					oracleFail("C10", "env-only-pipeline", c, fmt.Sprintf("block and environment after interpolating the pipeline without steps: %s (err %v); next to a step: %s (err %v)", dump(pBare, eBare), errBare, dump(pWith, eWith), errWith))
					continue
				}
				stat("C10", "env-only-pipeline")
			}
			p := &pipeline.Pipeline{Env: envMap, Steps: pipeline.Steps{&pipeline.CommandStep{Command: probe.raw}}}
			refEnv := env.clone()
			useLib := it%3 == 1 && !rawClash
			var libEnv pipeline.InterpolationEnv
			rawInitBefore := fmt.Sprint(rawInit)
			if useLib {
				libEnv = pipeline.VerifEnvFromMap(!ci, rawInit)
				stat("C10", "library-env")
			}
			var err error
			panicked := ""
			func() {
				defer func() {
					if r := recover(); r != nil {
						panicked = fmt.Sprint(r)
					}
				}()
				if useLib {
					err = p.Interpolate(libEnv, prefer)
				} else {
					err = p.Interpolate(env, prefer)
				}
			}()
			if panicked != "" {
				oracleFail("C10", "panic", c, panicked)
				continue
			}
			// results are written back into the caller's ENVIRONMENT; the map that environment was once built from
			// is not the environment
			if useLib && fmt.Sprint(rawInit) != rawInitBefore {
				oracleFail("C10", "source-map-written", c, fmt.Sprintf("the map the environment was built from changed: %s -> %v", rawInitBefore, rawInit))
				continue
			}
			want, werr := c10reference(prefer, refEnv, block)
			if useLib && err == nil && panicked == "" {
				// read the library env back through its own Get, for every name that can have been set
				probeNames := append([]string{}, names...)
				for k := range rawInit {
					probeNames = append(probeNames, k)
				}
				for k := range refEnv.m {
					probeNames = append(probeNames, k)
				}
				env.m = map[string]string{}
				for _, nm := range probeNames {
					if v, ok := libEnv.Get(nm); ok {
						env.Set(nm, v)
					}
				}
			}
			var wantProbe string
			if werr == nil {
				wantProbe, werr = interpolate.Interpolate(refEnv, probe.raw)
			}
			if (err == nil) != (werr == nil) {
				oracleFail("C10", "error", c, fmt.Sprintf("Interpolate err=%v, reference err=%v", err, werr))
				continue
			}
			if err != nil {
				stat("C10", "expansion-error")
				fmt.Fprintf(out, "CASE\tC10\t%s\t%s\t1\n", sx.String(c), sx.String(sx.L(sx.A("err"))))
				continue
			}
			got := [][2]string{}
			p.Env.Range(func(k, v string) error { got = append(got, [2]string{k, v}); return nil })
			if fmt.Sprint(got) != fmt.Sprint(want) {
				oracleFail("C10", "block", c, fmt.Sprintf("env block became %v, top-to-bottom reference gives %v", got, want))
				continue
			}
			bad := ""
			for k, v := range refEnv.m {
				if gv, ok := env.m[k]; !ok || gv != v {
					bad = fmt.Sprintf("caller env[%q]=%q,%v want %q", k, gv, ok, v)
				}
			}
			if len(env.m) != len(refEnv.m) {
				bad = fmt.Sprintf("caller env has %d entries, reference %d", len(env.m), len(refEnv.m))
			}
			if bad != "" {
				oracleFail("C10", "write-back", c, bad)
				continue
			}
			if cmd := p.Steps[0].(*pipeline.CommandStep).Command; cmd != wantProbe {
				oracleFail("C10", "rest-of-pipeline", c, fmt.Sprintf("step command became %q want %q", cmd, wantProbe))
				continue
			}
			bl := sx.List{}
			for _, g := range got {
				bl = append(bl, sx.L(sx.A(g[0]), sx.A(g[1])))
			}
			pv := sx.List{}
			for _, nm := range names {
				v, ok := env.Get(nm)
				pv = append(pv, sx.Opt(ok, sx.A(v)))
			}
			stat("C10", fmt.Sprintf("prefer=%v ci=%v", prefer, ci))
			nt := "0"
			if len(block) >= 2 {
				nt = "1"
			}
			fmt.Fprintf(out, "CASE\tC10\t%s\t%s\t%s\n", sx.String(c), sx.String(sx.L(sx.A("ok"), bl, pv, sx.Opt(true, sx.A(p.Steps[0].(*pipeline.CommandStep).Command)))), nt)
		}
	}
}

// c10nilEnv: blocks in which a name is defined twice (the second time under a name that only expansion produces),
// run without a caller environment and with an empty one, under both flag values: the same result, and under
// runtime precedence the first export is what later entries and steps see while the block records the last value
func c10nilEnv() {
	for _, prefer := range []bool{false, true} {
		for _, nm := range []string{"FOO", "X_1", "lower"} {
			for _, pre := range []string{"${NOPE}", "${UNSET_P}", "${EMPTYV}"} {
				for pos := 0; pos < 3; pos++ {
					mk := func() *pipeline.Pipeline {
						m := ordered.NewMap[string, string](0)
						if pre == "${EMPTYV}" {
							m.Set("EMPTYV", "")
						}
						for i := 0; i < pos; i++ {
							m.Set(fmt.Sprintf("PAD%d", i), "p")
						}
						m.Set(nm, "first")
						m.Set(pre+nm, "second")
						m.Set("MSG", "is $"+nm)
						return &pipeline.Pipeline{Env: m, Steps: pipeline.Steps{&pipeline.CommandStep{Command: "echo $" + nm + " / $MSG"}}}
					}
					c := sx.L(sx.A("nil-env-block"), sx.B(prefer), sx.A(nm), sx.A(pre), sx.N(pos))
					pNil, pEmpty := mk(), mk()
					eNil := pNil.Interpolate(nil, prefer)
					eEmpty := pEmpty.Interpolate(pipeline.VerifEnvFromMap(true, map[string]string{}), prefer)
					jNil, _ := json.Marshal(pNil)
					jEmpty, _ := json.Marshal(pEmpty)
					if (eNil == nil) != (eEmpty == nil) || string(jNil) != string(jEmpty) {
						oracleFail("C10", "nil-env", c, fmt.Sprintf("with no environment the result is %s (err %v), with an empty environment %s (err %v)", jNil, eNil, jEmpty, eEmpty))
						continue
					}
					seen := "second"
					if prefer {
						seen = "first"
					}
					want := "echo " + seen + " / is " + seen
					if cmd := pNil.Steps[0].(*pipeline.CommandStep).Command; eNil != nil || cmd != want {
						oracleFail("C10", "nil-env", c, fmt.Sprintf("prefer=%v: the step reads %q, want %q (err %v)", prefer, cmd, want, eNil))
						continue
					}
					if v, _ := pNil.Env.Get(nm); v != "second" {
						oracleFail("C10", "nil-env", c, fmt.Sprintf("the block records %q for %s, want the pipeline's last value \"second\"", v, nm))
						continue
					}
					stat("C10", "nil-env-blocks")
				}
			}
		}
	}
}
