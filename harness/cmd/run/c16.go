package main

import (
	"bytes"
	"encoding/json"
	"errors"
	"fmt"
	"reflect"
	"strings"

	"github.com/buildkite/go-pipeline/ordered"
	"github.com/buildkite/go-pipeline/warning"
	"gopkg.in/yaml.v3"
	"verifharness/sx"
)

// aliased = not compared with the YAML library: types with alias tags, and T8 (an inline struct that has
// an inline map of its own: the YAML library does not route unknown keys into that nested map, ordered does)
var c16types = []struct {
	name    string
	t       reflect.Type
	aliased bool
}{
	{"T1", reflect.TypeOf(T1{}), false}, {"T2", reflect.TypeOf(T2{}), false}, {"T3", reflect.TypeOf(T3{}), false},
	{"T4", reflect.TypeOf(T4{}), false}, {"T5", reflect.TypeOf(T5{}), false}, {"T6", reflect.TypeOf(T6{}), false},
	{"T7", reflect.TypeOf(T7{}), false}, {"T8", reflect.TypeOf(T8{}), true}, {"T9", reflect.TypeOf(T9{}), false},
	{"A1", reflect.TypeOf(A1{}), true}, {"A2", reflect.TypeOf(A2{}), true}, {"A3", reflect.TypeOf(A3{}), true},
}

type c16gen struct {
	rng     *sx.Rng
	coerce  bool // also produce the library-only coercions (scalar into string / slice targets)
	depth   int
	counter int
}

func (g *c16gen) str() *dv {
	g.counter++
	return dStr(sx.Pick(g.rng, []string{"v", "x y", "", "yes", "12", "é"}) + fmt.Sprint(g.counter))
}

// value well-typed for t (null sometimes)
func (g *c16gen) value(t reflect.Type, depth int) *dv {
	if g.rng.Chance(8) {
		return dNull()
	}
	switch t.Kind() {
	case reflect.String:
		if g.coerce && g.rng.Chance(25) {
			return sx.Pick(g.rng, []*dv{dInt(7), dBool(true), dFloat(1.5)})
		}
		return g.str()
	case reflect.Int:
		return dInt(int64(g.rng.Intn(1000) - 500))
	case reflect.Bool:
		return dBool(g.rng.Bool())
	case reflect.Float64:
		return dFloat(sx.Pick(g.rng, []float64{1.5, -2.25, 1e21, 0.125}))
	case reflect.Interface:
		return g.anyValue(2)
	case reflect.Pointer:
		return g.value(t.Elem(), depth)
	case reflect.Slice:
		if g.coerce && g.rng.Chance(20) && (t.Elem().Kind() == reflect.String || t.Elem().Kind() == reflect.Interface) {
			return g.str() // a scalar appended to the slice
		}
		l := dList()
		if depth > 0 {
			for k := g.rng.Intn(4); k > 0; k-- {
				e := g.value(t.Elem(), depth-1)
				// a null element is well-typed only for pointer and interface elements (the YAML library skips
				// nulls in slices of scalars and structs; the library appends a zero value): keep it to coercion mode
				if e.kind == 'n' && !g.coerce && t.Elem().Kind() != reflect.Pointer && t.Elem().Kind() != reflect.Interface {
					continue
				}
				l.l = append(l.l, e)
			}
		}
		return l
	case reflect.Map:
		m := dMap()
		if depth > 0 {
			for k := g.rng.Intn(4); k > 0; k-- {
				m.set(fmt.Sprintf("mk%d", g.rng.Intn(6)), g.value(t.Elem(), depth-1))
			}
		}
		return m
	case reflect.Struct:
		return g.structDoc(t, depth)
	}
	return dNull()
}

func (g *c16gen) anyValue(depth int) *dv {
	switch g.rng.Intn(7) {
	case 0:
		return g.str()
	case 1:
		return dInt(int64(g.rng.Intn(100)))
	case 2:
		return dBool(g.rng.Bool())
	case 3:
		return dFloat(2.5)
	case 4:
		if depth > 0 {
			return dList(g.anyValue(depth-1), g.anyValue(depth-1))
		}
		return dNull()
	case 5:
		if depth > 0 {
			return dMap(dkv{"zz", g.anyValue(depth - 1)}, dkv{"aa", g.anyValue(depth - 1)})
		}
		return g.str()
	}
	return dNull()
}

func yamlKey(f reflect.StructField) (string, bool, bool) {
	tag := f.Tag.Get("yaml")
	if tag == "-" {
		return "", false, false
	}
	if tag == ",inline" {
		return "", true, false
	}
	k, _, _ := strings.Cut(tag, ",")
	if k == "" {
		k = strings.ToLower(f.Name)
	}
	return k, false, true
}

func (g *c16gen) structDoc(t reflect.Type, depth int) *dv {
	m := dMap()
	var inline *reflect.StructField
	for i := 0; i < t.NumField(); i++ {
		f := t.Field(i)
		k, isInline, keyed := yamlKey(f)
		if isInline {
			ff := f
			inline = &ff
			continue
		}
		if !keyed {
			// a key named like a "-" field goes to the inline field (or is dropped)
			if g.rng.Chance(30) {
				m.set(strings.ToLower(f.Name), g.str())
			}
			continue
		}
		names := []string{k}
		if a := f.Tag.Get("aliases"); a != "" {
			names = append(names, strings.Split(a, ",")...)
		}
		// any subset of the field's names may be present
		for _, n := range names {
			if g.rng.Chance(55) && depth >= 0 {
				m.set(n, g.value(f.Type, depth-1))
			}
		}
	}
	// unknown keys: consumed by the inline field, or ignored
	for k := g.rng.Intn(3); k > 0; k-- {
		key := fmt.Sprintf("extra%d", g.rng.Intn(5))
		if g.rng.Chance(12) {
			// keys written plain that YAML resolves to something other than text keep their spelling
			key = sx.Pick(g.rng, []string{"2024-02-01", "2001-12-14t21:59:43.10-05:00", "2002-1-2"})
		}
		if inline != nil && g.rng.Chance(25) {
			// an unknown key that happens to spell the inline field's own (lower-cased) Go name is an unknown key
			key = strings.ToLower(inline.Name)
		}
		if inline != nil {
			it := inline.Type
			for it.Kind() == reflect.Pointer {
				it = it.Elem()
			}
			switch it.Kind() {
			case reflect.Map:
				m.set(key, g.value(it.Elem(), 1))
			case reflect.Struct:
				// keys of the inlined struct (or its own inline map)
				sub := g.structDoc(it, depth-1)
				for _, e := range sub.m {
					if !m.has(e.k) {
						m.set(e.k, e.v)
					}
				}
			}
		} else {
			m.set(key, g.str())
		}
	}
	// document order is arbitrary
	for i := len(m.m) - 1; i > 0; i-- {
		j := g.rng.Intn(i + 1)
		m.m[i], m.m[j] = m.m[j], m.m[i]
	}
	return m
}

func sortedJSON(b []byte) string {
	var v any
	dec := json.NewDecoder(bytes.NewReader(b))
	dec.UseNumber()
	if dec.Decode(&v) != nil {
		return "?"
	}
	out, _ := json.Marshal(v)
	return string(out)
}

// targets whose fields are ordered maps with non-scalar values (outside the translated family: compared with
// the plain-map version of the same struct, which the family and the model cover)
type c16om struct {
	Items *ordered.Map[string, T1]       `yaml:"items"`
	Lists *ordered.Map[string, []string] `yaml:"lists"`
	Ptrs  *ordered.Map[string, *T2]      `yaml:"ptrs"`
	Rest  *ordered.Map[string, any]      `yaml:",inline"`
}
type c16pm struct {
	Items map[string]T1       `yaml:"items"`
	Lists map[string][]string `yaml:"lists"`
	Ptrs  map[string]*T2      `yaml:"ptrs"`
	Rest  map[string]any      `yaml:",inline"`
}

func c16orderedTargets(rng *sx.Rng, n int) {
	for i := 0; i < n; i++ {
		sub := func(fields map[string]func() *dv) *dv {
			m := dMap()
			for _, k := range sortedKeys(fields) {
				if rng.Chance(55) {
					m.set(k, fields[k]())
				}
			}
			return m
		}
		t1 := func() *dv {
			return sub(map[string]func() *dv{"a": func() *dv { return dStr(sx.Pick(rng, []string{"x", "y", ""})) }, "b": func() *dv { return dInt(int64(rng.Intn(5))) },
				"c": func() *dv { return dBool(rng.Bool()) }, "d": func() *dv { return dFloat(1.5) }})
		}
		t2 := func() *dv {
			return sub(map[string]func() *dv{"name": func() *dv { return dStr("n") }, "count": func() *dv { return dInt(int64(rng.Intn(9))) }, "flag": func() *dv { return dBool(true) }})
		}
		coll := func(el func() *dv) *dv {
			m := dMap()
			for k := rng.Intn(5); k > 0; k-- {
				if rng.Chance(12) {
					m.set(sx.Pick(rng, []string{"2024-02-01", "2002-1-2"}), el())
					continue
				}
				m.set(fmt.Sprintf("k%d", rng.Intn(8)), el())
			}
			return m
		}
		doc := dMap(dkv{"items", coll(t1)}, dkv{"lists", coll(func() *dv {
			l := dList()
			for k := rng.Intn(3); k > 0; k-- {
				l.l = append(l.l, dStr(fmt.Sprint("v", rng.Intn(4))))
			}
			return l
		})}, dkv{"ptrs", coll(t2)}, dkv{"extra1", dInt(1)})
		text, form := renderDoc(doc, i)
		a, derr := decodeText(text)
		if derr != nil {
			oracleFail("C16", "document-rejected", sx.L(sx.A("ordered-map-fields"), sx.A(form), sx.A(text)), "a generated, well-formed document does not decode: "+derr.Error())
			continue
		}
		short := sx.L(sx.A("ordered-map-fields"), sx.A(form), sx.A(text))
		var om c16om
		var pm c16pm
		e1 := ordered.Unmarshal(a, &om)
		e2 := ordered.Unmarshal(a, &pm)
		if (e1 == nil) != (e2 == nil) {
			oracleFail("C16", "ordered-target-error", short, fmt.Sprintf("ordered-map fields: %v; plain-map fields: %v", e1, e2))
			continue
		}
		if e1 != nil {
			continue
		}
		// same keys and values as the plain-map target, in document order
		b1, _ := json.Marshal(map[string]any{"items": om.Items.ToMap(), "lists": om.Lists.ToMap(), "ptrs": om.Ptrs.ToMap(), "rest": om.Rest.ToMap()})
		b2, _ := json.Marshal(map[string]any{"items": pm.Items, "lists": pm.Lists, "ptrs": pm.Ptrs, "rest": pm.Rest})
		if sortedJSON(b1) != sortedJSON(b2) {
			oracleFail("C16", "ordered-target-differs", short, fmt.Sprintf("decoded into ordered-map fields: %s\ndecoded into plain-map fields : %s", sortedJSON(b1), sortedJSON(b2)))
			continue
		}
		stat("C16", "ordered-map-targets")
	}
}

type c16mt struct {
	Timeout int            `yaml:"timeout"`
	Name    string         `yaml:"name"`
	Queue   string         `yaml:"queue" aliases:"q"`
	Rest    map[string]any `yaml:",inline"`
}

// c16merges: the keys a mapping gets through `<<` merges are input keys like any other - a chain of mappings, each
// merging the previous one and overriding some keys before or after its own `<<`, decoded into a struct with an
// inline catch-all, must give what the YAML library's own decoder gives for the same node
func c16merges(rng *sx.Rng, n int) {
	keys := []string{"timeout", "name", "queue", "extra1", "extra2"}
	val := func(k string, lv int) string {
		if k == "timeout" {
			return fmt.Sprint(10*lv + rng.Intn(9))
		}
		return fmt.Sprintf("%s-l%d-%d", k, lv, rng.Intn(9))
	}
	for i := 0; i < n; i++ {
		depth := 2 + rng.Intn(3)
		var b strings.Builder
		for lv := 0; lv < depth; lv++ {
			var before, after []string
			for _, k := range keys {
				if rng.Chance(45) {
					e := k + ": " + val(k, lv)
					if rng.Chance(50) {
						before = append(before, e)
					} else {
						after = append(after, e)
					}
				}
			}
			parts := before
			if lv > 0 {
				src := fmt.Sprintf("*lv%d", lv-1)
				if lv > 1 && rng.Chance(25) {
					src = fmt.Sprintf("[*lv%d, *lv%d]", lv-1, lv-2)
				}
				parts = append(parts, "<<: "+src)
			}
			parts = append(parts, after...)
			name := fmt.Sprintf("lv%d: &lv%d ", lv, lv)
			if lv == depth-1 {
				name = "target: "
			}
			fmt.Fprintf(&b, "%s{%s}\n", name, strings.Join(parts, ", "))
		}
		text := b.String()
		short := sx.L(sx.A("merge-chain"), sx.A(text))
		var doc yaml.Node
		if yaml.Unmarshal([]byte(text), &doc) != nil || len(doc.Content) != 1 {
			continue
		}
		root := doc.Content[0]
		target := root.Content[len(root.Content)-1]
		var viaOrdered, viaYAML c16mt
		var oerr error
		func() {
			defer func() {
				if r := recover(); r != nil {
					oerr = fmt.Errorf("panic: %v", r)
				}
			}()
			oerr = ordered.Unmarshal(target, &viaOrdered)
		}()
		yerr := target.Decode(&viaYAML)
		ob, _ := json.Marshal(viaOrdered)
		yb, _ := json.Marshal(viaYAML)
		if yerr != nil {
			continue
		}
		if oerr != nil || sortedJSON(ob) != sortedJSON(yb) {
			oracleFail("C16", "differs-from-yaml.v3", short, fmt.Sprintf("ordered.Unmarshal gives %s (err %v), yaml.v3 gives %s", sortedJSON(ob), oerr, sortedJSON(yb)))
			continue
		}
		stat("C16", "merge-chains")
	}
}

// an embedded struct as inline destination; its field Name is shadowed (as a Go name) by the outer one
type C16Base struct {
	Name string `yaml:"base_name"`
	Kind string `yaml:"kind"`
}

type c16outer struct {
	Name    string `yaml:"name"`
	C16Base `yaml:",inline"`
}

// a field type that unmarshals itself and reports a message-only warning
type c16warnField struct{ V string }

func (f *c16warnField) UnmarshalOrdered(src any) error {
	f.V = fmt.Sprint(src)
	return warning.New("noted, not fatal")
}

type c16warnTarget struct {
	First string         `yaml:"first"`
	Noted c16warnField   `yaml:"noted"`
	Last  string         `yaml:"last"`
	Rest  map[string]any `yaml:",inline"`
}

// c16edges: null zeroes what it is unmarshalled into, whatever that is; nil and non-pointer destinations are
// refused with the documented errors (a fixed table)
func c16edges() {
	fail := func(what, msg string) { oracleFail("C16", "edge", sx.A(what), msg) }
	try := func(what string, f func() string) {
		defer func() {
			if r := recover(); r != nil {
				fail(what, fmt.Sprintf("panic: %v", r))
			}
		}()
		if msg := f(); msg != "" {
			fail(what, msg)
		} else {
			stat("C16", "edge-cases")
		}
	}
	try("null into a struct", func() string {
		v := T1{A: "x", B: 3, C: true, D: 1.5}
		if err := ordered.Unmarshal(nil, &v); err != nil || v != (T1{}) {
			return fmt.Sprintf("got %+v err %v, want the zero struct", v, err)
		}
		return ""
	})
	try("null into a pointer field", func() string {
		p := &T1{A: "x"}
		if err := ordered.Unmarshal(nil, &p); err != nil || p != nil {
			return fmt.Sprintf("got %+v err %v, want a nil pointer", p, err)
		}
		return ""
	})
	try("null into a map", func() string {
		m := map[string]any{"a": 1}
		if err := ordered.Unmarshal(nil, &m); err != nil || m != nil {
			return fmt.Sprintf("got %v err %v, want a nil map", m, err)
		}
		return ""
	})
	try("null into a string, a slice, an any", func() string {
		st, sl, an := "x", []string{"a"}, any(3)
		e1, e2, e3 := ordered.Unmarshal(nil, &st), ordered.Unmarshal(nil, &sl), ordered.Unmarshal(nil, &an)
		if e1 != nil || e2 != nil || e3 != nil || st != "" || sl != nil || an != nil {
			return fmt.Sprintf("got %q %v %v (errors %v %v %v), want zero values", st, sl, an, e1, e2, e3)
		}
		return ""
	})
	try("a field that reports a warning does not stop the others", func() string {
		src := ordered.NewMap[string, any](0)
		src.Set("first", "f")
		src.Set("noted", "n")
		src.Set("last", "l")
		src.Set("left", "over")
		var dst c16warnTarget
		err := ordered.Unmarshal(src, &dst)
		if err == nil || !warning.Is(err) {
			return fmt.Sprintf("err = %v, want the field's warning", err)
		}
		if dst.First != "f" || dst.Noted.V != "n" || dst.Last != "l" || dst.Rest["left"] != "over" || len(dst.Rest) != 1 {
			return fmt.Sprintf("got %+v (err %v): every key must reach its destination although one field reported a warning", dst, err)
		}
		return ""
	})
	try("an embedded struct tagged inline", func() string {
		for _, text := range []string{"name: outer\nbase_name: inner\nkind: k\n", "base_name: inner\n", "kind: k\nname: outer\nextra: ignored\n"} {
			var n yaml.Node
			if err := yaml.Unmarshal([]byte(text), &n); err != nil {
				return err.Error()
			}
			var viaOrdered, viaYAML c16outer
			oerr := ordered.Unmarshal(&n, &viaOrdered)
			yerr := n.Decode(&viaYAML)
			if oerr != nil || yerr != nil || viaOrdered != viaYAML {
				return fmt.Sprintf("document %q: ordered.Unmarshal gives %+v (err %v), yaml.v3 gives %+v (err %v)", text, viaOrdered, oerr, viaYAML, yerr)
			}
		}
		return ""
	})
	try("nil destinations", func() string {
		if err := ordered.Unmarshal(nil, nil); err != nil {
			return fmt.Sprintf("nil into nil: %v", err)
		}
		if err := ordered.Unmarshal("x", nil); !errors.Is(err, ordered.ErrIntoNil) {
			return fmt.Sprintf("a value into nil: %v, want ErrIntoNil", err)
		}
		if err := ordered.Unmarshal("x", (*string)(nil)); !errors.Is(err, ordered.ErrIntoNil) {
			return fmt.Sprintf("a value into a typed nil pointer: %v, want ErrIntoNil", err)
		}
		if err := ordered.Unmarshal(nil, (*string)(nil)); err != nil {
			return fmt.Sprintf("nil into a typed nil pointer: %v", err)
		}
		m := ordered.NewMap[string, any](0)
		m.Set("a", "x")
		if err := ordered.Unmarshal(m, (*T1)(nil)); !errors.Is(err, ordered.ErrIntoNil) {
			return fmt.Sprintf("a mapping into a typed nil struct pointer: %v, want ErrIntoNil", err)
		}
		return ""
	})
	try("non-pointer destinations", func() string {
		if err := ordered.Unmarshal(nil, T1{}); !errors.Is(err, ordered.ErrIntoNonPointer) {
			return fmt.Sprintf("nil into a struct value: %v, want ErrIntoNonPointer", err)
		}
		if err := ordered.Unmarshal("x", "y"); err == nil {
			return "a string into a string value: no error"
		}
		m := ordered.NewMap[string, any](0)
		m.Set("a", "x")
		if err := ordered.Unmarshal(m, T1{}); err == nil {
			return "a mapping into a struct value: no error"
		}
		// a map value (not a pointer to one) is a usable destination when it is non-nil
		dst := map[string]any{"keep": 1}
		if err := ordered.Unmarshal(m, dst); err != nil || dst["a"] != "x" || dst["keep"] != 1 {
			return fmt.Sprintf("a mapping into a non-nil map value: %v err %v", dst, err)
		}
		return ""
	})
}

func init() {
	props["C16"] = func(rng *sx.Rng, thorough bool) {
		c16edges()
		if thorough {
			c16merges(rng, 5000)
		} else {
			c16merges(rng, 300)
		}
		if thorough {
			c16orderedTargets(rng, 5000)
		} else {
			c16orderedTargets(rng, 300)
		}
		n := 3000
		if thorough {
			n = 60000
		}
		for i := 0; i < n; i++ {
			ty := c16types[i%len(c16types)]
			g := &c16gen{rng: rng, coerce: i%5 == 4}
			d := g.structDoc(ty.t, 3)
			text, form := renderDoc(d, i)
			a, derr := decodeText(text)
			if derr != nil {
				oracleFail("C16", "document-rejected", sx.L(sx.A(ty.name), sx.A(form), sx.A(text)), "a generated, well-formed document does not decode: "+derr.Error())
				continue
			}
			c := sx.L(sx.A(ty.name), anySexp(a))
			short := sx.L(sx.A(ty.name), sx.A(form), sx.A(text))
			noteCase("C16", ty.name+" "+text)
			dst := reflect.New(ty.t).Interface()
			var uerr error
			panicked := ""
			func() {
				defer func() {
					if r := recover(); r != nil {
						panicked = fmt.Sprint(r)
					}
				}()
				uerr = ordered.Unmarshal(a, dst)
			}()
			if panicked != "" {
				oracleFail("C16", "panic", short, panicked)
				continue
			}
			var obs sx.S = sx.L(sx.A("err"))
			var ob []byte
			if uerr == nil {
				ob, _ = json.Marshal(dst)
				js, err := jsonSexp(ob)
				if err != nil {
					continue
				}
				obs = sx.L(sx.A("ok"), js)
				stat("C16", "type-"+ty.name)
			} else {
				stat("C16", "unmarshal-error")
			}
			fmt.Fprintf(out, "CASE\tC16\t%s\t%s\t1\n", sx.String(c), sx.String(obs))
			// the source may also be the YAML node itself, by pointer or by value: same outcome
			if i%4 == 1 {
				var n yaml.Node
				if yaml.Unmarshal([]byte(text), &n) == nil && n.Kind == yaml.DocumentNode {
					for vi, src := range []any{&n, n} {
						dstN := reflect.New(ty.t).Interface()
						var nerr error
						func() {
							defer func() {
								if r := recover(); r != nil {
									nerr = fmt.Errorf("panic: %v", r)
								}
							}()
							nerr = ordered.Unmarshal(src, dstN)
						}()
						nb, _ := json.Marshal(dstN)
						if (nerr == nil) != (uerr == nil) || uerr == nil && string(nb) != string(ob) {
							oracleFail("C16", "node-source-differs", short, fmt.Sprintf("from the YAML node (%s) the result is %s (err %v), from the decoded document %s (err %v)", []string{"pointer", "value"}[vi], nb, nerr, ob, uerr))
							break
						}
						stat("C16", "node-source")
					}
				}
			}
			// the source may be any ordered map, also one with history: the same live entries in a map that
			// still carries tombstones (a deleted junk key, below the compaction threshold) must decode alike
			if src, ok := a.(*ordered.MapSA); ok && src.Len() >= 2 && i%3 == 0 {
				hist := ordered.NewMap[string, any](0)
				pos := rng.Intn(src.Len())
				j := 0
				src.Range(func(k string, v any) error {
					if j == pos {
						hist.Set("zz-dead-key", "dead value")
					}
					hist.Set(k, v)
					j++
					return nil
				})
				hist.Delete("zz-dead-key")
				if i%2 == 0 {
					// or: every entry put in with Replace(k, k, v) on a map that does not hold k yet (the
					// documented way to insert at the end)
					hist = ordered.NewMap[string, any](0)
					src.Range(func(k string, v any) error { hist.Replace(k, k, v); return nil })
				}
				dst2 := reflect.New(ty.t).Interface()
				var uerr2 error
				func() {
					defer func() {
						if r := recover(); r != nil {
							uerr2 = fmt.Errorf("panic: %v", r)
						}
					}()
					uerr2 = ordered.Unmarshal(hist, dst2)
				}()
				ob2, _ := json.Marshal(dst2)
				if (uerr == nil) != (uerr2 == nil) || uerr == nil && string(ob2) != string(ob) {
					oracleFail("C16", "tombstoned-source-differs", short, fmt.Sprintf("decoding the same entries from a map that carries a tombstone gives %s (err %v), from a fresh map %s (err %v)", ob2, uerr2, ob, uerr))
					continue
				}
				stat("C16", "tombstoned-source")
			}
			// the matching rule, checked directly on the destination (top level, string fields, inline map):
			// tag key if present, else the first present alias; every other key ends in the inline map
			if uerr == nil && d.kind == 'm' {
				if msg := c16rule(ty.t, d, reflect.ValueOf(dst).Elem()); msg != "" {
					oracleFail("C16", "matching-rule", short, msg)
					continue
				}
			}
			// alias-free target, well-typed document: the YAML library's own decoder must agree
			if !ty.aliased && !g.coerce {
				if uerr != nil {
					oracleFail("C16", "welltyped-rejected", short, "ordered.Unmarshal rejects a well-typed document: "+uerr.Error())
					continue
				}
				var n yaml.Node
				if yaml.Unmarshal([]byte(text), &n) != nil {
					continue
				}
				dst2 := reflect.New(ty.t).Interface()
				if err := n.Decode(dst2); err != nil {
					stat("C16", "yaml.v3-rejects")
					continue
				}
				yb, _ := json.Marshal(dst2)
				if sortedJSON(ob) != sortedJSON(yb) {
					oracleFail("C16", "differs-from-yaml.v3", short, fmt.Sprintf("ordered.Unmarshal gives %s, yaml.v3 gives %s", sortedJSON(ob), sortedJSON(yb)))
					continue
				}
				if rs, err := jsonSexp([]byte(sortedJSON(yb))); err == nil {
					fmt.Fprintf(out, "CASE\tC16ref\t%s\t%s\t1\n", sx.String(c), sx.String(rs))
				}
				stat("C16", "agrees-with-yaml.v3")
			}
		}
	}
}

func c16rule(t reflect.Type, d *dv, v reflect.Value) string {
	consumed := map[string]bool{}
	var inline *reflect.Value
	for i := 0; i < t.NumField(); i++ {
		f := t.Field(i)
		k, isInline, keyed := yamlKey(f)
		if isInline {
			fv := v.Field(i)
			inline = &fv
			continue
		}
		if !keyed {
			continue
		}
		names := []string{k}
		if a := f.Tag.Get("aliases"); a != "" {
			names = append(names, strings.Split(a, ",")...)
		}
		chosen := ""
		for _, n := range names {
			if d.has(n) {
				chosen = n
				break
			}
		}
		if chosen == "" {
			continue
		}
		consumed[chosen] = true
		if f.Type.Kind() == reflect.String {
			want := ""
			if src := d.get(chosen); src.kind != 'n' {
				want, _ = sprintDv(src)
			}
			if got := v.Field(i).String(); got != want {
				return fmt.Sprintf("field %s should take the value of key %q (%q) but holds %q", f.Name, chosen, want, got)
			}
		}
	}
	if inline != nil && inline.Kind() == reflect.Map {
		for _, e := range d.m {
			has := inline.MapIndex(reflect.ValueOf(e.k)).IsValid()
			if consumed[e.k] && has {
				return fmt.Sprintf("key %q was consumed by a field and also copied into the inline map", e.k)
			}
			if !consumed[e.k] && !has {
				return fmt.Sprintf("key %q was consumed by no field but is missing from the inline map", e.k)
			}
		}
		if inline.Len() != len(d.m)-len(consumed) {
			return fmt.Sprintf("inline map has %d entries, want %d", inline.Len(), len(d.m)-len(consumed))
		}
	}
	return ""
}
