package main

import (
	"bytes"
	"encoding/json"
	"fmt"
	"reflect"

	"github.com/buildkite/go-pipeline/ordered"
	"gopkg.in/yaml.v3"
	"verifharness/sx"
)

// ---- list-of-pairs reference (the plain model the property names) ----

type kv struct{ k, v string }
type plist []kv

func (l plist) find(k string) int {
	for i, p := range l {
		if p.k == k {
			return i
		}
	}
	return -1
}
func (l plist) remove(k string) plist {
	out := make(plist, 0, len(l))
	for _, p := range l {
		if p.k != k {
			out = append(out, p)
		}
	}
	return out
}
func (l plist) set(k, v string) plist {
	if i := l.find(k); i >= 0 {
		out := append(plist{}, l...)
		out[i].v = v
		return out
	}
	return append(append(plist{}, l...), kv{k, v})
}
func (l plist) replace(old, new, v string) plist {
	i := l.find(old)
	if i < 0 {
		return append(l.remove(new), kv{new, v})
	}
	out := plist{}
	for j, p := range l {
		switch {
		case j == i:
			out = append(out, kv{new, v})
		case p.k == new:
		default:
			out = append(out, p)
		}
	}
	return out
}
func (l plist) rename(fk func(string) string, fv func(k, v string) string) plist {
	done, todo := plist{}, append(plist{}, l...)
	for len(todo) > 0 {
		p := todo[0]
		k2 := fk(p.k)
		done = append(done.remove(k2), kv{k2, fv(p.k, p.v)})
		todo = todo[1:].remove(k2)
	}
	return done
}

// ---- ops ----

type c05op struct {
	kind    string // s r d rr
	a, b, v string
	tbl     [][2]string
}

func (o c05op) sexp() sx.S {
	switch o.kind {
	case "s":
		return sx.L(sx.A("s"), sx.A(o.a), sx.A(o.v))
	case "r":
		return sx.L(sx.A("r"), sx.A(o.a), sx.A(o.b), sx.A(o.v))
	case "d":
		return sx.L(sx.A("d"), sx.A(o.a))
	default:
		t := sx.List{}
		for _, e := range o.tbl {
			t = append(t, sx.L(sx.A(e[0]), sx.A(e[1])))
		}
		return sx.L(sx.A("rr"), t)
	}
}
func (o c05op) keys() []string {
	switch o.kind {
	case "s", "d":
		return []string{o.a}
	case "r":
		return []string{o.a, o.b}
	}
	return nil
}
func (o c05op) fk(k string) string {
	for _, e := range o.tbl {
		if e[0] == k {
			return e[1]
		}
	}
	return k
}
func rrfv(k, v string) string { return v + "+" + k }

func c05apply(m *ordered.MapSS, ref plist, o c05op) plist {
	switch o.kind {
	case "s":
		m.Set(o.a, o.v)
		return ref.set(o.a, o.v)
	case "r":
		m.Replace(o.a, o.b, o.v)
		return ref.replace(o.a, o.b, o.v)
	case "d":
		m.Delete(o.a)
		return ref.remove(o.a)
	default:
		m.Range(func(k, v string) error {
			m.Replace(k, o.fk(k), rrfv(k, v))
			return nil
		})
		return ref.rename(o.fk, rrfv)
	}
}

func c05range(m *ordered.MapSS) plist {
	out := plist{}
	m.Range(func(k, v string) error { out = append(out, kv{k, v}); return nil })
	return out
}
func c05snapshot(m *ordered.MapSS) sx.S {
	l := sx.List{}
	for _, p := range c05range(m) {
		l = append(l, sx.L(sx.A(p.k), sx.A(p.v)))
	}
	return l
}

// jsonPairs reads a JSON object's members in token order.
func jsonPairs(b []byte) (plist, error) {
	dec := json.NewDecoder(bytes.NewReader(b))
	t, err := dec.Token()
	if err != nil || t != json.Delim('{') {
		return nil, fmt.Errorf("not an object: %s", b)
	}
	out := plist{}
	for dec.More() {
		kt, err := dec.Token()
		if err != nil {
			return nil, err
		}
		var v string
		if err := dec.Decode(&v); err != nil {
			return nil, err
		}
		out = append(out, kv{kt.(string), v})
	}
	return out, nil
}

// c05oracle compares every observer of m with the reference list.
func c05oracle(m *ordered.MapSS, ref plist, probe []string, full, withYAML bool) string {
	if m.Len() != len(ref) {
		return fmt.Sprintf("Len=%d want %d", m.Len(), len(ref))
	}
	if m.IsZero() != (len(ref) == 0) {
		return "IsZero disagrees"
	}
	for _, k := range probe {
		v, ok := m.Get(k)
		i := ref.find(k)
		if ok != (i >= 0) || (ok && v != ref[i].v) {
			return fmt.Sprintf("Get(%q)=(%q,%v) ref index %d", k, v, ok, i)
		}
		if m.Contains(k) != (i >= 0) {
			return fmt.Sprintf("Contains(%q)=%v", k, m.Contains(k))
		}
	}
	got := c05range(m)
	if !reflect.DeepEqual(got, append(plist{}, ref...)) {
		return fmt.Sprintf("Range=%v want %v", got, ref)
	}
	if !full {
		return ""
	}
	tm := m.ToMap()
	if len(tm) != len(ref) {
		return fmt.Sprintf("ToMap has %d entries want %d", len(tm), len(ref))
	}
	for _, p := range ref {
		if v, ok := tm[p.k]; !ok || v != p.v {
			return fmt.Sprintf("ToMap[%q]=%q,%v", p.k, v, ok)
		}
	}
	// conversions to maps of another value type keep keys, order and (converted) values
	tv := ordered.TransformValues(m, func(v string) any { return "<" + v + ">" })
	if tv.Len() != len(ref) {
		return fmt.Sprintf("TransformValues has %d entries want %d", tv.Len(), len(ref))
	}
	ti := 0
	tbad := ""
	tv.Range(func(k string, v any) error {
		if ti >= len(ref) || k != ref[ti].k || v != any("<"+ref[ti].v+">") {
			tbad = fmt.Sprintf("TransformValues entry %d is %q=%v", ti, k, v)
		}
		ti++
		return nil
	})
	if tbad != "" {
		return tbad
	}
	av, aerr := ordered.AssertValues[string](ordered.TransformValues(m, func(v string) any { return v }))
	if aerr != nil || !ordered.Equal(av, m) {
		return fmt.Sprintf("AssertValues of the same entries gives a different map (err=%v)", aerr)
	}
	jb, err := m.MarshalJSON()
	if err != nil {
		return "MarshalJSON error " + err.Error()
	}
	jp, err := jsonPairs(jb)
	if err != nil || !reflect.DeepEqual(jp, append(plist{}, ref...)) {
		return fmt.Sprintf("MarshalJSON=%s want %v (%v)", jb, ref, err)
	}
	if !withYAML {
		return c05twin(m, ref)
	}
	y, err := m.MarshalYAML()
	if err != nil {
		return "MarshalYAML error " + err.Error()
	}
	yn := y.(*yaml.Node)
	yp := plist{}
	for i := 0; i+1 < len(yn.Content); i += 2 {
		yp = append(yp, kv{yn.Content[i].Value, yn.Content[i+1].Value})
	}
	if !reflect.DeepEqual(yp, append(plist{}, ref...)) {
		return fmt.Sprintf("MarshalYAML=%v want %v", yp, ref)
	}
	// ... and the encoding as TEXT: read back, the same string keys and string values in the same order
	if yb, err := yaml.Marshal(m); err != nil {
		return "yaml.Marshal error " + err.Error()
	} else {
		var back yaml.Node
		if err := yaml.Unmarshal(yb, &back); err != nil {
			return fmt.Sprintf("the YAML encoding %q does not parse: %v", yb, err)
		}
		tp := plist{}
		if len(back.Content) == 1 && back.Content[0].Kind == yaml.MappingNode {
			c := back.Content[0].Content
			for i := 0; i+1 < len(c); i += 2 {
				if c[i].ShortTag() != "!!str" || c[i+1].ShortTag() != "!!str" {
					return fmt.Sprintf("the YAML encoding %q reads back with a key or value that is not a string: %s %q: %s %q", yb, c[i].ShortTag(), c[i].Value, c[i+1].ShortTag(), c[i+1].Value)
				}
				tp = append(tp, kv{c[i].Value, c[i+1].Value})
			}
		}
		if !reflect.DeepEqual(tp, append(plist{}, ref...)) {
			return fmt.Sprintf("the YAML encoding %q reads back as %v want %v", yb, tp, ref)
		}
	}
	return c05twin(m, ref)
}

// equality against an independently built map
func c05twin(m *ordered.MapSS, ref plist) string {
	twin := ordered.NewMap[string, string](0)
	for _, p := range ref {
		twin.Set(p.k, p.v)
	}
	if !ordered.EqualSS(m, twin) || !ordered.EqualSS(twin, m) {
		return "Equal against independently built twin is false"
	}
	if !ordered.EqualSS(m, m) {
		return "Equal not reflexive"
	}
	return ""
}

func refEq(a, b plist) bool { return reflect.DeepEqual(append(plist{}, a...), append(plist{}, b...)) }

type c05trace struct {
	m   *ordered.MapSS
	ref plist
	obs sx.List
	bad string
}

func c05run(every int, ops []c05op, start string) (t c05trace) {
	noteCase("C05", fmt.Sprint(start, " ", ops))
	defer func() {
		if r := recover(); r != nil {
			t.bad = fmt.Sprintf("panic: %v", r)
		}
	}()
	switch start {
	case "zero":
		t.m = new(ordered.MapSS)
	default:
		t.m = ordered.NewMap[string, string](0)
	}
	t.ref = plist{}
	for i, o := range ops {
		t.ref = c05apply(t.m, t.ref, o)
		step := sx.List{sx.N(t.m.Len()), sx.B(t.m.IsZero())}
		for _, k := range o.keys() {
			v, ok := t.m.Get(k)
			step = append(step, sx.L(sx.Opt(ok, sx.A(v)), sx.B(t.m.Contains(k))))
		}
		if i%every == 0 {
			step = append(step, c05snapshot(t.m))
		}
		t.obs = append(t.obs, step)
		probe := append(o.keys(), "a", "zz")
		if msg := c05oracle(t.m, t.ref, probe, i%every == 0 || i == len(ops)-1, i%(every*8) == 0 || i == len(ops)-1); msg != "" && t.bad == "" {
			t.bad = fmt.Sprintf("after op %d %s: %s", i, sx.String(o.sexp()), msg)
		}
	}
	return t
}

// c05fromItems: the constructor MapFromItems is the same thing as Set of each pair in turn, repeated keys
// included; a few more operations follow so that every observer sees the constructed storage
func c05fromItems(rng *sx.Rng, n int) {
	keys := []string{"a", "b", "c", "d", "e", "1", "true"}
	for i := 0; i < n; i++ {
		var items []ordered.TupleSS
		ref := plist{}
		desc := sx.List{sx.A("from-items")}
		for k := rng.Intn(7); k > 0; k-- {
			key, v := sx.Pick(rng, keys), fmt.Sprint("v", rng.Intn(100))
			items = append(items, ordered.TupleSS{Key: key, Value: v})
			ref = ref.set(key, v)
			desc = append(desc, sx.L(sx.A(key), sx.A(v)))
		}
		bad := ""
		func() {
			defer func() {
				if r := recover(); r != nil {
					bad = fmt.Sprintf("panic: %v", r)
				}
			}()
			given := append([]ordered.TupleSS{}, items...)
			m := ordered.MapFromItems(items...)
			// a second map from the same pair list is an independent map, and the list stays the caller's: neither
			// sees what happens to the other from here on
			twin := ordered.MapFromItems(items...)
			twinRef := append(plist{}, ref...)
			bad = c05oracle(m, ref, append([]string{"zz"}, keys...), true, true)
			// the constructor is the history "Set each pair in turn" (the Coq model's from_items): the map built that
			// way, which the model comparison covers, is equal to it in every respect
			if bad == "" {
				var sets []c05op
				for _, it := range given {
					sets = append(sets, c05op{kind: "s", a: it.Key, v: it.Value})
				}
				if t := c05run(1, sets, "new"); t.bad != "" || !ordered.EqualSS(m, t.m) || !ordered.EqualSS(t.m, m) || sx.String(c05snapshot(m)) != sx.String(c05snapshot(t.m)) {
					bad = fmt.Sprintf("the constructed map differs from the map built by Set of each pair in turn (%s): %s vs %s", t.bad, sx.String(c05snapshot(m)), sx.String(c05snapshot(t.m)))
				}
				c05case(1, sets, sets, "new")
			}
			for k := rng.Intn(4); k > 0 && bad == ""; k-- {
				o := c05op{kind: sx.Pick(rng, []string{"s", "r", "d"}), a: sx.Pick(rng, keys), b: sx.Pick(rng, keys), v: "w"}
				ref = c05apply(m, ref, o)
				desc = append(desc, o.sexp())
				bad = c05oracle(m, ref, append([]string{"zz"}, keys...), true, true)
				if bad == "" {
					if b2 := c05oracle(twin, twinRef, append([]string{"zz"}, keys...), true, false); b2 != "" {
						bad = "a second map built from the same pair list changed when the first was edited: " + b2
					}
				}
			}
			if bad == "" && fmt.Sprint(given) != fmt.Sprint(items) {
				bad = fmt.Sprintf("the caller's pair list was modified: %v -> %v", given, items)
			}
			if bad == "" {
				for j := range items {
					items[j] = ordered.TupleSS{Key: "overwritten", Value: "by the caller"}
				}
				if b2 := c05oracle(m, ref, append([]string{"zz", "overwritten"}, keys...), true, false); b2 != "" {
					bad = "the map changed when the caller reused its pair list: " + b2
				}
			}
		}()
		if bad != "" {
			oracleFail("C05", "from-items", desc, bad)
			continue
		}
		stat("C05", "from-items")
	}
}

func c05case(every int, oa, ob []c05op, start string) {
	la, lb := sx.List{}, sx.List{}
	for _, o := range oa {
		la = append(la, o.sexp())
	}
	for _, o := range ob {
		lb = append(lb, o.sexp())
	}
	c := sx.L(sx.N(every-1), la, lb)
	ta := c05run(every, oa, start)
	tb := c05run(every, ob, "new")
	if ta.bad != "" {
		oracleFail("C05", "history", c, "A: "+ta.bad)
		return
	}
	if tb.bad != "" {
		oracleFail("C05", "history", c, "B: "+tb.bad)
		return
	}
	var eab, eba, eaa, ebb, etw bool
	func() {
		defer func() {
			if r := recover(); r != nil {
				oracleFail("C05", "equal-panic", c, fmt.Sprintf("Equal panicked: %v", r))
				ta.bad = "panic"
			}
		}()
		eab, eba = ordered.EqualSS(ta.m, tb.m), ordered.EqualSS(tb.m, ta.m)
		eaa, ebb = ordered.EqualSS(ta.m, ta.m), ordered.EqualSS(tb.m, tb.m)
		tw := ordered.NewMap[string, string](0)
		ta.m.Range(func(k, v string) error { tw.Set(k, v); return nil })
		etw = ordered.EqualSS(ta.m, tw)
	}()
	if ta.bad != "" {
		return
	}
	want := refEq(ta.ref, tb.ref)
	if eab != want || eba != want || !eaa || !ebb || !etw {
		oracleFail("C05", "equal", c, fmt.Sprintf("Equal(a,b)=%v Equal(b,a)=%v want %v; Equal(a,a)=%v Equal(b,b)=%v twin=%v", eab, eba, want, eaa, ebb, etw))
		return
	}
	if want {
		stat("C05", "pairs-equal")
	} else {
		stat("C05", "pairs-unequal")
	}
	emitCase("C05", c, sx.L(ta.obs, c05snapshot(ta.m), c05snapshot(tb.m), sx.B(eab), sx.B(eba), sx.B(eaa), sx.B(ebb), sx.B(etw), sx.B(true)))
}

func c05allOps(keys, vals []string) []c05op {
	var ops []c05op
	for _, k := range keys {
		for _, v := range vals {
			ops = append(ops, c05op{kind: "s", a: k, v: v})
		}
	}
	for _, a := range keys {
		for _, b := range keys {
			for _, v := range vals {
				ops = append(ops, c05op{kind: "r", a: a, b: b, v: v})
			}
		}
	}
	for _, k := range keys {
		ops = append(ops, c05op{kind: "d", a: k})
	}
	return ops
}

func c05nil() {
	var m *ordered.MapSS
	bad := ""
	func() {
		defer func() {
			if r := recover(); r != nil {
				bad = fmt.Sprintf("panic on nil receiver: %v", r)
			}
		}()
		m.Delete("a")
		v, ok := m.Get("a")
		rng := sx.List{}
		m.Range(func(k, v string) error { rng = append(rng, sx.A(k)); return nil })
		if m.ToMap() != nil {
			bad = "ToMap of nil is not nil"
		}
		zero := new(ordered.MapSS)
		emitCase("C05nil", sx.L(), sx.L(sx.N(m.Len()), sx.B(m.IsZero()), sx.Opt(ok, sx.A(v)), sx.B(m.Contains("a")), rng,
			sx.B(ordered.EqualSS(m, m)), sx.B(ordered.EqualSS(m, zero))))
		if ordered.EqualSS(zero, m) {
			bad = "Equal(zero, nil) true"
		}
	}()
	if bad != "" {
		oracleFail("C05", "nil", sx.L(), bad)
	}
}

func c05random(rng *sx.Rng, n int) {
	for it := 0; it < n; it++ {
		nk := 5 + rng.Intn(56)
		keys := make([]string, nk)
		for i := range keys {
			keys[i] = fmt.Sprintf("k%d", i)
		}
		// keys are strings whatever they look like
		for i, k := range []string{"1", "true", "~", "2024-01-01", "1.5", "", "null", "0x10"} {
			if i < nk && rng.Chance(50) {
				keys[i] = k
			}
		}
		// bias the mix so the compaction threshold is crossed repeatedly
		pdel := 20 + rng.Intn(40)
		gen := func(length int) []c05op {
			ops := make([]c05op, 0, length)
			for i := 0; i < length; i++ {
				r := rng.Intn(100)
				switch {
				case r < pdel:
					ops = append(ops, c05op{kind: "d", a: sx.Pick(rng, keys)})
				case r < pdel+25:
					a, b := sx.Pick(rng, keys), sx.Pick(rng, keys)
					if rng.Chance(15) {
						b = a
					}
					ops = append(ops, c05op{kind: "r", a: a, b: b, v: fmt.Sprint("v", i)})
				case r < pdel+28:
					var tbl [][2]string
					for j := 0; j < 1+rng.Intn(6); j++ {
						tbl = append(tbl, [2]string{sx.Pick(rng, keys), sx.Pick(rng, keys)})
					}
					ops = append(ops, c05op{kind: "rr", tbl: tbl})
				default:
					ops = append(ops, c05op{kind: "s", a: sx.Pick(rng, keys), v: fmt.Sprint("v", i)})
				}
			}
			return ops
		}
		la := 50 + rng.Intn(351)
		oa := gen(la)
		var ob []c05op
		if rng.Chance(30) {
			// B: rebuild the same content a different way half of the time
			ob = append([]c05op{}, oa...)
			if rng.Chance(50) {
				ob = append(ob, c05op{kind: "s", a: keys[0], v: "x"}, c05op{kind: "d", a: keys[0]})
			}
		} else {
			ob = gen(10 + rng.Intn(60))
		}
		start := "new"
		if rng.Chance(20) {
			start = "zero"
		}
		stat("C05", fmt.Sprintf("random-len-%d..", la/100*100))
		c05case(16, oa, ob, start)
	}
}

func init() {
	props["C05"] = func(rng *sx.Rng, thorough bool) {
		c05nil()
		if thorough {
			c05fromItems(rng, 20000)
		} else {
			c05fromItems(rng, 1000)
		}
		keys, vals := []string{"a", "b", "c"}, []string{"1", "2"}
		ops := c05allOps(keys, vals)
		maxLen := 3
		if thorough {
			maxLen = 4
		}
		// enumerate all histories up to maxLen
		var hist [][]c05op
		var rec func(cur []c05op)
		rec = func(cur []c05op) {
			if len(cur) > 0 {
				hist = append(hist, append([]c05op{}, cur...))
			}
			if len(cur) == maxLen {
				return
			}
			for _, o := range ops {
				rec(append(cur, o))
			}
		}
		rec(nil)
		for i, h := range hist {
			// partner history: deterministic spread over all histories
			j := int((uint64(i)*2654435761 + seed) % uint64(len(hist)))
			start := "new"
			if i%5 == 0 {
				start = "zero"
			}
			c05case(1, h, hist[j], start)
			// rename-from-callback after the history
			if i%9 == 0 {
				tbl := [][2]string{{"a", sx.Pick(rng, keys)}, {"b", sx.Pick(rng, keys)}, {"c", sx.Pick(rng, keys)}}
				c05case(1, append(append([]c05op{}, h...), c05op{kind: "rr", tbl: tbl}), h, "new")
			}
		}
		statN("C05", "exhaustive-histories", len(hist))
		n := 2000
		if thorough {
			n = 20000
		}
		c05random(rng, n)
	}
	replayers["C05"] = func(c sx.S) {
		l := c.(sx.List)
		every := 1
		fmt.Sscan(string(l[0].(sx.Atom)), &every)
		parse := func(x sx.S) []c05op {
			var ops []c05op
			for _, e := range x.(sx.List) {
				el := e.(sx.List)
				at := func(i int) string { return string(el[i].(sx.Atom)) }
				switch at(0) {
				case "s":
					ops = append(ops, c05op{kind: "s", a: at(1), v: at(2)})
				case "r":
					ops = append(ops, c05op{kind: "r", a: at(1), b: at(2), v: at(3)})
				case "d":
					ops = append(ops, c05op{kind: "d", a: at(1)})
				case "rr":
					var tbl [][2]string
					for _, t := range el[1].(sx.List) {
						tl := t.(sx.List)
						tbl = append(tbl, [2]string{string(tl[0].(sx.Atom)), string(tl[1].(sx.Atom))})
					}
					ops = append(ops, c05op{kind: "rr", tbl: tbl})
				}
			}
			return ops
		}
		c05case(every+1, parse(l[1]), parse(l[2]), "new")
	}
}
