package main

import (
	"bytes"
	"context"
	"fmt"
	"strings"

	pipeline "github.com/buildkite/go-pipeline"
	"github.com/buildkite/go-pipeline/ordered"
	"github.com/buildkite/go-pipeline/signature"
	"verifharness/sx"
)

type c14case struct {
	doc  *dv
	penv map[string]string
	repo string
}

func (c c14case) clone() c14case {
	n := c14case{doc: cloneDv(c.doc), penv: map[string]string{}, repo: c.repo}
	for k, v := range c.penv {
		n.penv[k] = v
	}
	return n
}

func cloneDv(d *dv) *dv {
	n := *d
	n.l = nil
	n.m = nil
	for _, e := range d.l {
		n.l = append(n.l, cloneDv(e))
	}
	for _, e := range d.m {
		n.m = append(n.m, dkv{e.k, cloneDv(e.v)})
	}
	return &n
}

func (d *dv) get(k string) *dv {
	for _, e := range d.m {
		if e.k == k {
			return e.v
		}
	}
	return nil
}
func (d *dv) del(k string) {
	var out []dkv
	for _, e := range d.m {
		if e.k != k {
			out = append(out, e)
		}
	}
	d.m = out
}

func deepShuffle(g *docgen, d *dv) {
	switch d.kind {
	case 'm':
		g.shuffle(d)
		for _, e := range d.m {
			// the order of plugins written as ONE mapping is significant: do not reorder that level
			if e.k == "plugins" && e.v.kind == 'm' {
				for _, p := range e.v.m {
					deepShuffle(g, p.v)
				}
				continue
			}
			if e.k == "plugins" && e.v.kind == 'l' {
				// nor the entries of one list element written as a mapping with several entries
				for _, el := range e.v.l {
					if el.kind == 'm' {
						for _, p := range el.m {
							deepShuffle(g, p.v)
						}
					}
				}
				continue
			}
			deepShuffle(g, e.v)
		}
	case 'l':
		for _, e := range d.l {
			deepShuffle(g, e)
		}
	}
}

// c14payload: payload bytes of the real Sign for a case, plus the model case
func c14payload(c c14case, key signKey) ([]byte, sx.S, string) {
	cs, text, err := stepFromDoc(c.doc)
	if err != nil {
		return nil, nil, "step does not load: " + err.Error()
	}
	_, p, err := signPayload(key, cs, c.repo, c.penv)
	if err != nil {
		return nil, nil, "sign: " + err.Error()
	}
	ds, err := docSexp(text)
	if err != nil {
		return nil, nil, err.Error()
	}
	return p, sx.L(ds, pairsSexp(c.penv), sx.A(c.repo), sx.A(key.alg)), ""
}

// variants that must NOT change the payload
func c14equivalent(g *docgen, c c14case) []c14case {
	var out []c14case
	a := c.clone()
	deepShuffle(g, a.doc)
	out = append(out, a)
	b := c.clone()
	if !b.doc.has("env") {
		b.doc.set("env", dMap())
	}
	if !b.doc.has("plugins") && (b.doc.has("command") || b.doc.has("commands")) {
		b.doc.set("plugins", sx.Pick(g.rng, []*dv{dList(), dNull()}))
	}
	if !b.doc.has("matrix") {
		// every spelling of "no matrix": absent, null, {}, and mappings holding only empty containers
		b.doc.set("matrix", sx.Pick(g.rng, []*dv{dMap(), dNull(), dMap(dkv{"setup", dMap()}), dMap(dkv{"adjustments", dList()}),
			dMap(dkv{"setup", dMap()}, dkv{"adjustments", dList()}), dMap(dkv{"setup", dNull()})}))
	}
	out = append(out, b)
	d := c.clone()
	if cmd := d.doc.get("command"); cmd != nil && cmd.kind == 's' {
		d.doc.del("command")
		d.doc.set("commands", dList(dStr(cmd.s)))
		out = append(out, d)
	}
	// "no config" is one content however it is spelled: null, an empty mapping, an empty list, or the plugin written
	// as a bare string
	f := c.clone()
	if p := f.doc.get("plugins"); p != nil && p.kind == 'l' {
		changed := false
		for i, el := range p.l {
			empty := func(d *dv) bool { return d.kind == 'n' || d.kind == 'm' && len(d.m) == 0 || d.kind == 'l' && len(d.l) == 0 }
			switch {
			case el.kind == 's':
				p.l[i] = dMap(dkv{el.s, sx.Pick(g.rng, []*dv{dMap(), dNull(), dList()})})
				changed = true
			case el.kind == 'm' && len(el.m) == 1 && empty(el.m[0].v):
				switch g.rng.Intn(4) {
				case 0:
					p.l[i] = dStr(el.m[0].k)
				case 1:
					el.m[0].v = dMap()
				case 2:
					el.m[0].v = dNull()
				default:
					el.m[0].v = dList()
				}
				changed = true
			}
		}
		if changed {
			out = append(out, f)
		}
	}
	e := c.clone()
	e.doc.set("label", dStr("another label"))
	e.doc.set("key", dStr("another-key"))
	e.doc.set("agents", dMap(dkv{"queue", dStr("other")}))
	out = append(out, e)
	return out
}

// variants that MUST change the payload
func c14different(g *docgen, c c14case) []c14case {
	var out []c14case
	add := func(f func(n *c14case) bool) {
		n := c.clone()
		if f(&n) {
			out = append(out, n)
		}
	}
	cmdOf := func(n *c14case) *dv {
		if v := n.doc.get("command"); v != nil && v.kind == 's' {
			return v
		}
		return nil
	}
	add(func(n *c14case) bool { n.repo += "x"; return true })
	add(func(n *c14case) bool {
		if v := cmdOf(n); v != nil {
			v.s += " "
			return true
		}
		return false
	})
	// a character moved between adjacent fields
	add(func(n *c14case) bool {
		if v := cmdOf(n); v != nil && len(v.s) > 0 && v.s[len(v.s)-1] < 0x80 {
			n.repo = string(v.s[len(v.s)-1]) + n.repo
			v.s = v.s[:len(v.s)-1]
			return true
		}
		return false
	})
	// between a key and its value
	add(func(n *c14case) bool {
		e := n.doc.get("env")
		if e == nil || len(e.m) == 0 || e.m[0].v.kind != 's' {
			return false
		}
		k, v := e.m[0].k, e.m[0].v.s
		e.m[0] = dkv{k + "Z", dStr(v)}
		if len(v) > 0 && v[0] < 0x80 {
			e.m[0] = dkv{k + string(v[0]), dStr(v[1:])}
		}
		return true
	})
	// between a step env entry and a pipeline env entry
	add(func(n *c14case) bool {
		e := n.doc.get("env")
		if e == nil || len(e.m) == 0 {
			return false
		}
		v, _ := sprintDv(e.m[0].v)
		if _, shadow := n.penv[e.m[0].k]; shadow {
			return false
		}
		n.penv[e.m[0].k] = v
		e.m = e.m[1:]
		return true
	})
	add(func(n *c14case) bool {
		for k := range n.penv {
			e := n.doc.get("env")
			if e != nil && e.has(k) {
				continue
			}
			n.penv[k] += "!"
			return true
		}
		return false
	})
	add(func(n *c14case) bool {
		e := n.doc.get("env")
		if e != nil && e.has("NEWVAR") {
			return false
		}
		if _, has := n.penv["NEWVAR"]; has {
			return false
		}
		n.penv["NEWVAR"] = "1"
		return true
	})
	// plugins: order, source, config
	add(func(n *c14case) bool {
		p := n.doc.get("plugins")
		if p == nil || p.kind != 'l' || len(p.l) < 2 {
			return false
		}
		// only when the two elements are single plugins with different sources
		src := func(e *dv) string {
			if e.kind == 's' {
				return e.s
			}
			if e.kind == 'm' && len(e.m) == 1 {
				return e.m[0].k
			}
			return ""
		}
		if src(p.l[0]) == "" || src(p.l[1]) == "" || src(p.l[0]) == src(p.l[1]) {
			return false
		}
		p.l[0], p.l[1] = p.l[1], p.l[0]
		return true
	})
	// a plugin whose source spells one character as a JSON escape sequence (backslash, u, four hex digits) is a
	// different plugin: the source is data, not JSON text
	add(func(n *c14case) bool {
		p := n.doc.get("plugins")
		if p == nil || p.kind != 'l' {
			return false
		}
		for _, e := range p.l {
			var src *string
			switch {
			case e.kind == 's':
				src = &e.s
			case e.kind == 'm' && len(e.m) == 1 && (e.m[0].v.kind == 'n' || e.m[0].v.kind == 'm' && len(e.m[0].v.m) == 0):
				src = &e.m[0].k
			}
			if src == nil || len(*src) == 0 {
				continue
			}
			for ci := 0; ci < len(*src); ci++ {
				if c := (*src)[ci]; c == '-' || c >= 'a' && c <= 'z' {
					*src = (*src)[:ci] + fmt.Sprintf("\\u%04x", c) + (*src)[ci+1:]
					return true
				}
			}
		}
		return false
	})
	// a short-form source with an empty path segment (org//name, name/) is not the short form any more
	for variant := 0; variant < 2; variant++ {
		variant := variant
		add(func(n *c14case) bool {
			p := n.doc.get("plugins")
			if p == nil || p.kind != 'l' {
				return false
			}
			for _, e := range p.l {
				var src *string
				switch {
				case e.kind == 's':
					src = &e.s
				case e.kind == 'm' && len(e.m) == 1:
					src = &e.m[0].k
				}
				if src == nil {
					continue
				}
				name, ref, hasRef := strings.Cut(*src, "#")
				if name == "" || strings.ContainsAny(name, ":\\.") || strings.HasPrefix(name, "/") || strings.Count(name, "/") > 1 {
					continue
				}
				if variant == 0 {
					if i := strings.Index(name, "/"); i >= 0 {
						name = name[:i] + "//" + name[i+1:]
					} else {
						name = name + "/"
					}
				} else {
					name = name + "/"
				}
				*src = name
				if hasRef {
					*src += "#" + ref
				}
				return true
			}
			return false
		})
	}
	// a plugin named x and one named x-buildkite-plugin are different plugins
	add(func(n *c14case) bool {
		p := n.doc.get("plugins")
		if p == nil || p.kind != 'l' || len(p.l) == 0 || p.l[0].kind != 'm' || len(p.l[0].m) != 1 {
			return false
		}
		src := p.l[0].m[0].k
		name, ref, _ := strings.Cut(src, "#")
		if strings.ContainsAny(name, ":\\") || strings.HasPrefix(name, ".") || strings.HasPrefix(name, "/") || strings.Count(name, "/") > 1 {
			return false
		}
		ns := name + "-buildkite-plugin"
		if ref != "" {
			ns += "#" + ref
		}
		p.l[0].m[0].k = ns
		return true
	})
	add(func(n *c14case) bool {
		p := n.doc.get("plugins")
		if p == nil || p.kind != 'l' {
			p = dList()
		}
		p.l = append(p.l, dMap(dkv{"extra-plugin#v9", dMap(dkv{"k", dStr("v")})}))
		n.doc.set("plugins", p)
		return true
	})
	add(func(n *c14case) bool {
		m := n.doc.get("matrix")
		if m == nil || m.kind != 'l' || len(m.l) == 0 {
			return false
		}
		m.l = append(m.l, dStr("added-value"))
		return true
	})
	// map-form matrices: a value appended to one dimension (each dimension in turn, the anonymous one included),
	// a dimension added, a `with` value of an adjustment changed (each key in turn)
	setupOf := func(n *c14case) *dv {
		m := n.doc.get("matrix")
		if m == nil || m.kind != 'm' {
			return nil
		}
		su := m.get("setup")
		if su == nil || su.kind != 'm' {
			return nil
		}
		return su
	}
	for di := 0; di < 4; di++ {
		di := di
		add(func(n *c14case) bool {
			su := setupOf(n)
			if su == nil || di >= len(su.m) || su.m[di].v.kind != 'l' {
				return false
			}
			su.m[di].v.l = append(su.m[di].v.l, dStr("added-value"))
			return true
		})
	}
	add(func(n *c14case) bool {
		su := setupOf(n)
		if su == nil || su.has("newdim") {
			return false
		}
		su.set("newdim", dList(dStr("x")))
		return true
	})
	// adjustments are part of the signed matrix whether or not there is a setup: one appended, the first one's
	// skip flipped, and a matrix that has adjustments removed altogether
	adjOf := func(n *c14case) *dv {
		m := n.doc.get("matrix")
		if m == nil || m.kind != 'm' {
			return nil
		}
		ad := m.get("adjustments")
		if ad == nil || ad.kind != 'l' {
			return nil
		}
		return ad
	}
	add(func(n *c14case) bool {
		ad := adjOf(n)
		if ad == nil {
			return false
		}
		ad.l = append(ad.l, dMap(dkv{"with", dMap(dkv{"added_dim", dStr("added")})}, dkv{"skip", dBool(true)}))
		return true
	})
	add(func(n *c14case) bool {
		ad := adjOf(n)
		if ad == nil || len(ad.l) == 0 || ad.l[0].kind != 'm' {
			return false
		}
		cur := ad.l[0].get("skip")
		if cur != nil && cur.kind == 'b' && cur.b {
			ad.l[0].set("skip", dStr("a reason instead of true"))
		} else {
			ad.l[0].set("skip", dBool(true))
		}
		return true
	})
	add(func(n *c14case) bool {
		ad := adjOf(n)
		if ad == nil || len(ad.l) == 0 {
			return false
		}
		n.doc.del("matrix")
		return true
	})
	// an unknown key of an ADJUSTMENT (soft_fail, ...) added or changed: adjustments are signed with their extra keys,
	// whatever their skip looks like
	for ai := 0; ai < 3; ai++ {
		ai := ai
		add(func(n *c14case) bool {
			ad := adjOf(n)
			if ad == nil || ai >= len(ad.l) || ad.l[ai].kind != 'm' || ad.l[ai].has("zz_adjustment_extra") {
				return false
			}
			ad.l[ai].set("zz_adjustment_extra", dStr("added"))
			return true
		})
		add(func(n *c14case) bool {
			ad := adjOf(n)
			if ad == nil || ai >= len(ad.l) || ad.l[ai].kind != 'm' {
				return false
			}
			for i := range ad.l[ai].m {
				if k := ad.l[ai].m[i].k; k != "with" && k != "skip" {
					ad.l[ai].m[i].v = dStr("changed-adjustment-extra")
					return true
				}
			}
			return false
		})
	}
	// an unknown key of the matrix itself added, changed or removed (the matrix is signed with its extra keys)
	add(func(n *c14case) bool {
		m := n.doc.get("matrix")
		if m == nil || m.kind != 'm' || m.has("zz_added_key") {
			return false
		}
		m.set("zz_added_key", dStr("v"))
		return true
	})
	add(func(n *c14case) bool {
		m := n.doc.get("matrix")
		if m == nil || m.kind != 'm' {
			return false
		}
		for i := range m.m {
			if k := m.m[i].k; k != "setup" && k != "adjustments" {
				m.m[i].v = dStr("changed-extra-value")
				return true
			}
		}
		return false
	})
	for ai := 0; ai < 2; ai++ {
		for wi := 0; wi < 3; wi++ {
			ai, wi := ai, wi
			add(func(n *c14case) bool {
				m := n.doc.get("matrix")
				if m == nil || m.kind != 'm' {
					return false
				}
				ad := m.get("adjustments")
				if ad == nil || ad.kind != 'l' || ai >= len(ad.l) || ad.l[ai].kind != 'm' {
					return false
				}
				w := ad.l[ai].get("with")
				if w == nil {
					return false
				}
				switch w.kind {
				case 'm':
					if wi >= len(w.m) {
						return false
					}
					if _, ok := sprintDv(w.m[wi].v); !ok {
						return false
					}
					w.m[wi].v = dStr("changed-with-value")
					return true
				case 's', 'i', 'b':
					if wi != 0 {
						return false
					}
					ad.l[ai].set("with", dStr("changed-with-value"))
					return true
				}
				return false
			})
		}
	}
	// a plugin's config replaced by a different "zero-looking" config: null, false, 0, "" are all different contents
	for _, alt := range []*dv{dNull(), dBool(false), dInt(0), dStr(""), dBool(true)} {
		alt := alt
		add(func(n *c14case) bool {
			p := n.doc.get("plugins")
			if p == nil || p.kind != 'l' || len(p.l) == 0 || p.l[0].kind != 'm' || len(p.l[0].m) != 1 {
				return false
			}
			cur := p.l[0].m[0].v
			norm := func(d *dv) string { // configs that the normal form identifies: null, {} and []
				if d.kind == 'n' || d.kind == 'm' && len(d.m) == 0 || d.kind == 'l' && len(d.l) == 0 {
					return "null"
				}
				var b bytes.Buffer
				d.jsonText(&b)
				return b.String()
			}
			if norm(cur) == norm(alt) {
				return false
			}
			p.l[0].m[0].v = alt
			return true
		})
	}
	return out
}

// c14orderedProbe: the ordered map {a: 1, b: {x: y}, c: [1]} built in one go, or through insertions, deletions
// and renames that leave the same content
func c14orderedProbe(history bool) *ordered.MapSA {
	inner := ordered.NewMap[string, any](0)
	inner.Set("x", "y")
	m := ordered.NewMap[string, any](0)
	if !history {
		m.Set("a", 1)
		m.Set("b", inner)
		m.Set("c", []any{1})
		return m
	}
	m.Set("a", 1)
	m.Set("gone", true)
	m.Set("b", inner)
	m.Set("old_c", []any{1})
	m.Set("c", "overwritten by the rename")
	m.Delete("gone")
	m.Replace("old_c", "c", []any{1})
	return m
}

// c14withHistory copies a value; with history, every ordered map in it is rebuilt with an entry that is then deleted
func c14withHistory(v any, history bool, n *int) any {
	switch x := v.(type) {
	case *ordered.MapSA:
		if x == nil {
			return x
		}
		m := ordered.NewMap[string, any](0)
		if history {
			m.Set("zz_gone", true)
		}
		x.Range(func(k string, e any) error {
			m.Set(k, c14withHistory(e, history, n))
			return nil
		})
		if history {
			m.Delete("zz_gone")
			*n++
		}
		return m
	case []any:
		if x == nil {
			return x
		}
		l := make([]any, len(x))
		for i, e := range x {
			l[i] = c14withHistory(e, history, n)
		}
		return l
	case map[string]any:
		if x == nil {
			return x
		}
		m := make(map[string]any, len(x))
		for k, e := range x {
			m[k] = c14withHistory(e, history, n)
		}
		return m
	}
	return v
}

func sprintDv(d *dv) (string, bool) {
	switch d.kind {
	case 's':
		return d.s, true
	case 'i':
		return fmt.Sprint(d.i), true
	case 'b':
		return fmt.Sprint(d.b), true
	case 'f':
		return fmt.Sprint(d.f), true
	}
	return "", false
}

func init() {
	props["C14"] = func(rng *sx.Rng, thorough bool) {
		keys := signKeyPool(thorough)
		n := 600
		if thorough {
			n = 15000
		}
		for i := 0; i < n; i++ {
			g := newDocgen(rng, false)
			g.strPool = append([]string{}, defaultStrPool...)
			penv := g.pipelineEnv()
			g.penvNames = sortedKeys(penv)
			c := c14case{doc: g.signableStep(), penv: penv, repo: sx.Pick(rng, []string{"git@github.com:o/r.git", "https://example.org/r", "", "repo"})}
			key := keys[i%len(keys)]
			penvBefore := fmt.Sprint(penv)
			base, cs, bad := c14payload(c, key)
			if bad != "" {
				oracleFail("C14", "step-rejected", sx.A(fmt.Sprint(i)), "a generated, well-formed command step cannot be loaded or signed: "+bad)
				stat("C14", "skipped-"+bad[:12])
				continue
			}
			// the payload is a function of (algorithm, step, pipeline env, repository): signing must not change
			// the env it was given, or the payload of the NEXT step signed with the same env map would depend on
			// which steps were signed before it
			if after := fmt.Sprint(penv); after != penvBefore {
				oracleFail("C14", "sign-changes-env", cs, fmt.Sprintf("Sign changed the pipeline env it was given: %s -> %s", penvBefore, after))
				continue
			}
			if noEnv := c.clone(); noEnv.doc.has("env") {
				noEnv.doc.del("env")
				shared := map[string]string{}
				fresh := map[string]string{}
				for k, v := range penv {
					shared[k], fresh[k] = v, v
				}
				withShared := c.clone()
				withShared.penv = shared
				c14payload(withShared, key) // a step with its own env is signed first, with the shared map ...
				noEnv.penv = shared
				pShared, _, b1 := c14payload(noEnv, key) // ... then a step without one, with the same map
				noEnv.penv = fresh
				pFresh, _, b2 := c14payload(noEnv, key)
				if b1 != b2 {
					oracleFail("C14", "payload-depends-on-history", cs, fmt.Sprintf("the same step, env and repository can or cannot be signed depending on what was signed before with the same env map: %q / %q", b2, b1))
					continue
				}
				if b1 == "" && b2 == "" && !bytes.Equal(pShared, pFresh) {
					oracleFail("C14", "payload-depends-on-history", cs, fmt.Sprintf("the same step, env and repository give different payloads depending on what was signed before with the same env map:\n%s\n%s", pFresh, pShared))
					continue
				}
				stat("C14", "history-pairs")
			}
			fmt.Fprintf(out, "CASE\tC14\t%s\t%s\t1\n", sx.String(cs), sx.String(sx.A(string(base))))
			// Verify rebuilds the same bytes from the presented step (and then accepts the signature made over them)
			if st, _, err := stepFromDoc(c.doc); err == nil {
				if sg, _, err := signPayload(key, st, c.repo, c.penv); err == nil {
					vp, verr := verifyPayload(key, sg, st, c.repo, c.penv)
					if verr != nil || !bytes.Equal(vp, base) {
						oracleFail("C14", "verify-payload-differs", cs, fmt.Sprintf("Sign logged the payload\n%s\nVerify of the same step (err=%v) logged\n%s", base, verr, vp))
					}
					stat("C14", "verify-payloads")
				}
			}
			// options are applied in order: an env given first and then replaced does not leak into the payload
			if st, _, err := stepFromDoc(c.doc); err == nil {
				lg := &payloadLogger{}
				stale := map[string]string{"STALE_ONLY_IN_FIRST_OPTION": "x"}
				for k, v := range c.penv {
					stale[k] = v + " (stale)"
				}
				_, serr := signature.Sign(context.Background(), key.priv, &signature.CommandStepWithInvariants{CommandStep: *st, RepositoryURL: c.repo},
					signature.WithEnv(stale), signature.WithEnv(c.penv), signature.WithLogger(lg), signature.WithDebugSigning(true))
				if serr != nil || len(lg.payloads) != 1 || !bytes.Equal(lg.payloads[0], base) {
					got := "none logged"
					if len(lg.payloads) > 0 {
						got = string(lg.payloads[0])
					}
					oracleFail("C14", "payload-depends-on-replaced-option", cs, fmt.Sprintf("signed with the env given once the payload is\n%s\nsigned with another env first and this env after it (err=%v):\n%s", base, serr, got))
				} else {
					stat("C14", "replaced-option-payloads")
				}
			}
			// the payload is the same whichever entry point signs the step: directly, or as part of a step list, at
			// the top or inside groups
			if st, _, err := stepFromDoc(c.doc); err == nil {
				for depth := 0; depth < 3; depth++ {
					cp := *st
					var steps pipeline.Steps = pipeline.Steps{&pipeline.WaitStep{Scalar: "wait"}, &cp}
					for d := 0; d < depth; d++ {
						name := fmt.Sprintf("g%d", d)
						steps = pipeline.Steps{&pipeline.GroupStep{Group: &name, Steps: steps}}
					}
					lg := &payloadLogger{}
					serr := signature.SignSteps(context.Background(), steps, key.priv, c.repo, signature.WithEnv(c.penv), signature.WithLogger(lg), signature.WithDebugSigning(true))
					if serr != nil || len(lg.payloads) != 1 || !bytes.Equal(lg.payloads[0], base) {
						got := "none logged"
						if len(lg.payloads) > 0 {
							got = string(lg.payloads[0])
						}
						oracleFail("C14", "payload-depends-on-entry-point", cs, fmt.Sprintf("signed directly the payload is\n%s\nsigned through SignSteps at group depth %d (err=%v, %d payloads logged):\n%s", base, depth, serr, len(lg.payloads), got))
						break
					}
					stat("C14", "entry-point-payloads")
				}
			}
			// determinism over repeated runs (Go map iteration)
			for r := 0; r < 3; r++ {
				again, _, _ := c14payload(c, key)
				if !bytes.Equal(again, base) {
					oracleFail("C14", "nondeterministic", cs, fmt.Sprintf("payload differs between runs:\n%s\n%s", base, again))
				}
			}
			for _, v := range c14equivalent(g, c) {
				p, vs, bad := c14payload(v, key)
				if bad != "" {
					continue
				}
				if !bytes.Equal(p, base) {
					oracleFail("C14", "equivalent-differs", sx.L(cs, vs), fmt.Sprintf("re-ordering / re-spelling changed the payload:\n%s\n%s", base, p))
				}
				stat("C14", "equivalent-pairs")
				fmt.Fprintf(out, "CASE\tC14\t%s\t%s\t1\n", sx.String(vs), sx.String(sx.A(string(p))))
			}
			for _, v := range c14different(g, c) {
				p, vs, bad := c14payload(v, key)
				if bad != "" {
					continue
				}
				if bytes.Equal(p, base) {
					oracleFail("C14", "collision", sx.L(cs, vs), fmt.Sprintf("two different signed contents give the same payload: %s", base))
				}
				stat("C14", "different-pairs")
				fmt.Fprintf(out, "CASE\tC14\t%s\t%s\t1\n", sx.String(vs), sx.String(sx.A(string(p))))
			}
			// typed fields are what is signed, also when an unknown field of the same name sits in the inline map
			// (only a programmatically built step can have one): two steps that differ in the typed matrix setup
			// and carry the same shadowing entry must not collide
			if st, _, err := stepFromDoc(c.doc); err == nil && st.Matrix != nil {
				mk := func(extraDim bool) *pipeline.CommandStep {
					a := *st
					m := *st.Matrix
					m.Setup = pipeline.MatrixSetup{}
					for d, vs := range st.Matrix.Setup {
						m.Setup[d] = append([]string{}, vs...)
					}
					if extraDim {
						m.Setup["zz_new_dimension"] = []string{"v"}
					}
					m.RemainingFields = map[string]any{"setup": "shadow"}
					for k, v := range st.Matrix.RemainingFields {
						m.RemainingFields[k] = v
					}
					a.Matrix = &m
					return &a
				}
				_, pa, ea := signPayload(key, mk(false), c.repo, c.penv)
				_, pb, eb := signPayload(key, mk(true), c.repo, c.penv)
				if ea == nil && eb == nil {
					if bytes.Equal(pa, pb) {
						oracleFail("C14", "collision-shadowed-field", cs, fmt.Sprintf("two steps whose typed matrix setups differ (one has an extra dimension) and whose matrices carry the same unknown field named setup give the same payload: %s", pa))
					}
					stat("C14", "shadowed-pairs")
				}
			}
			// nil and empty containers are the same content wherever the Go value has both: flip every one of them
			// (a step built through the API, or edited after parsing) and the payload must stay the same
			if st, _, err := stepFromDoc(c.doc); err == nil {
				f := *st
				if len(f.Env) == 0 {
					if f.Env == nil {
						f.Env = map[string]string{}
					} else {
						f.Env = nil
					}
				}
				if len(f.Plugins) == 0 {
					if f.Plugins == nil {
						f.Plugins = pipeline.Plugins{}
					} else {
						f.Plugins = nil
					}
				} else {
					pl := make(pipeline.Plugins, len(f.Plugins))
					for pi, p0 := range f.Plugins {
						cp := *p0
						if cp.Config == nil {
							cp.Config = map[string]any{}
						}
						pl[pi] = &cp
					}
					f.Plugins = pl
				}
				if f.Matrix == nil {
					f.Matrix = &pipeline.Matrix{Setup: pipeline.MatrixSetup{}, Adjustments: pipeline.MatrixAdjustments{}, RemainingFields: map[string]any{}}
				} else {
					m := *f.Matrix
					if len(m.RemainingFields) == 0 {
						if m.RemainingFields == nil {
							m.RemainingFields = map[string]any{}
						} else {
							m.RemainingFields = nil
						}
					}
					if len(m.Adjustments) == 0 {
						if m.Adjustments == nil {
							m.Adjustments = pipeline.MatrixAdjustments{}
						} else {
							m.Adjustments = nil
						}
					}
					if len(m.Setup) == 0 {
						if m.Setup == nil {
							m.Setup = pipeline.MatrixSetup{}
						} else {
							m.Setup = nil
						}
					}
					f.Matrix = &m
				}
				_, pOrig, e1 := signPayload(key, st, c.repo, c.penv)
				_, pFlip, e2 := signPayload(key, &f, c.repo, c.penv)
				if (e1 == nil) != (e2 == nil) {
					oracleFail("C14", "nil-empty-differs", cs, fmt.Sprintf("flipping nil and empty containers of the step changes whether it can be signed: %v / %v", e1, e2))
				} else if e1 == nil {
					if !bytes.Equal(pOrig, pFlip) {
						oracleFail("C14", "nil-empty-differs", cs, fmt.Sprintf("flipping nil and empty containers of the step changes the payload:\n%s\n%s", pOrig, pFlip))
					}
					stat("C14", "nil-empty-flips")
				}
			}
			// ordered maps inside signed fields (what parsing leaves under unknown matrix keys, what an API user may
			// put in a plugin config): their content is signed, not the edits that produced it
			if st, _, err := stepFromDoc(c.doc); err == nil {
				mk := func(history bool) *pipeline.CommandStep {
					nmaps := 0
					a := *st
					probe := c14orderedProbe(history)
					if st.Matrix != nil {
						m := *st.Matrix
						m.RemainingFields = map[string]any{}
						for k, v := range st.Matrix.RemainingFields {
							m.RemainingFields[k] = c14withHistory(v, history, &nmaps)
						}
						m.RemainingFields["zz_probe"] = probe
						m.Adjustments = nil
						for _, ad := range st.Matrix.Adjustments {
							if ad == nil {
								m.Adjustments = append(m.Adjustments, nil)
								continue
							}
							na := *ad
							na.Skip = c14withHistory(ad.Skip, history, &nmaps)
							if ad.RemainingFields != nil {
								na.RemainingFields = map[string]any{}
								for k, v := range ad.RemainingFields {
									na.RemainingFields[k] = c14withHistory(v, history, &nmaps)
								}
							}
							m.Adjustments = append(m.Adjustments, &na)
						}
						a.Matrix = &m
					}
					pl := make(pipeline.Plugins, 0, len(st.Plugins)+1)
					for _, p0 := range st.Plugins {
						cp := *p0
						cp.Config = c14withHistory(p0.Config, history, &nmaps)
						pl = append(pl, &cp)
					}
					pl = append(pl, &pipeline.Plugin{Source: "zz-probe#v1", Config: probe})
					a.Plugins = pl
					return &a
				}
				_, pa, ea := signPayload(key, mk(false), c.repo, c.penv)
				_, pb, eb := signPayload(key, mk(true), c.repo, c.penv)
				if (ea == nil) != (eb == nil) {
					oracleFail("C14", "payload-depends-on-edit-history", cs, fmt.Sprintf("two steps whose signed fields hold equal ordered maps, built by different edits: signing one gives %v, the other %v", ea, eb))
				} else if ea == nil {
					if !bytes.Equal(pa, pb) {
						oracleFail("C14", "payload-depends-on-edit-history", cs, fmt.Sprintf("two steps whose signed fields hold equal ordered maps, built by different edits, give different payloads:\n%s\n%s", pa, pb))
					}
					stat("C14", "edit-history-pairs")
				}
			}
			// a different algorithm name gives a different payload
			other := keys[(i+1)%len(keys)]
			if other.alg != key.alg {
				p, _, bad := c14payload(c, other)
				if bad == "" && bytes.Equal(p, base) {
					oracleFail("C14", "collision-alg", cs, "payload does not depend on the algorithm")
				}
			}
		}
	}
}
