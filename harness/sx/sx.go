// Package sx: s-expression wire format shared with the OCaml driver, and the
// splitmix64 PRNG every generator derives its choices from.
package sx

import (
	"fmt"
	"strconv"
	"strings"
)

type S interface{ write(b *strings.Builder) }

type Atom string
type List []S

func (a Atom) write(b *strings.Builder) {
	b.WriteByte('"')
	for i := 0; i < len(a); i++ {
		c := a[i]
		switch {
		case c == '"':
			b.WriteString(`\"`)
		case c == '\\':
			b.WriteString(`\\`)
		case c == '\n':
			b.WriteString(`\n`)
		case c == '\t':
			b.WriteString(`\t`)
		case c == '\r':
			b.WriteString(`\r`)
		case c < 32 || c >= 127:
			fmt.Fprintf(b, `\x%02x`, c)
		default:
			b.WriteByte(c)
		}
	}
	b.WriteByte('"')
}

func (l List) write(b *strings.Builder) {
	b.WriteByte('(')
	for i, x := range l {
		if i > 0 {
			b.WriteByte(' ')
		}
		x.write(b)
	}
	b.WriteByte(')')
}

func String(s S) string {
	var b strings.Builder
	s.write(&b)
	return b.String()
}

func A(s string) S   { return Atom(s) }
func L(xs ...S) S    { return List(xs) }
func N(n int) S      { return Atom(strconv.Itoa(n)) }
func B(v bool) S {
	if v {
		return Atom("t")
	}
	return Atom("f")
}
func Opt(present bool, x S) S {
	if present {
		return List{x}
	}
	return List{}
}

// Parse parses the textual form back (used by replay).
func Parse(s string) (S, error) {
	p := &parser{s: s}
	x, err := p.item()
	return x, err
}

type parser struct {
	s   string
	pos int
}

func (p *parser) skip() {
	for p.pos < len(p.s) && p.s[p.pos] == ' ' {
		p.pos++
	}
}

func (p *parser) item() (S, error) {
	p.skip()
	if p.pos >= len(p.s) {
		return nil, fmt.Errorf("eof")
	}
	switch p.s[p.pos] {
	case '(':
		p.pos++
		var out List
		for {
			p.skip()
			if p.pos >= len(p.s) {
				return nil, fmt.Errorf("eof in list")
			}
			if p.s[p.pos] == ')' {
				p.pos++
				if out == nil {
					out = List{}
				}
				return out, nil
			}
			x, err := p.item()
			if err != nil {
				return nil, err
			}
			out = append(out, x)
		}
	case '"':
		p.pos++
		var b strings.Builder
		for {
			if p.pos >= len(p.s) {
				return nil, fmt.Errorf("eof in atom")
			}
			c := p.s[p.pos]
			if c == '"' {
				p.pos++
				return Atom(b.String()), nil
			}
			if c == '\\' {
				d := p.s[p.pos+1]
				switch d {
				case 'n':
					b.WriteByte('\n')
					p.pos += 2
				case 't':
					b.WriteByte('\t')
					p.pos += 2
				case 'r':
					b.WriteByte('\r')
					p.pos += 2
				case 'x':
					v, err := strconv.ParseUint(p.s[p.pos+2:p.pos+4], 16, 8)
					if err != nil {
						return nil, err
					}
					b.WriteByte(byte(v))
					p.pos += 4
				default:
					b.WriteByte(d)
					p.pos += 2
				}
				continue
			}
			b.WriteByte(c)
			p.pos++
		}
	}
	return nil, fmt.Errorf("unexpected %q at %d", p.s[p.pos], p.pos)
}

// Rng is splitmix64.
type Rng struct{ s uint64 }

func NewRng(seed uint64) *Rng { return &Rng{s: seed*0x9E3779B97F4A7C15 + 0x1234567} }
func (r *Rng) U64() uint64 {
	r.s += 0x9E3779B97F4A7C15
	z := r.s
	z = (z ^ (z >> 30)) * 0xBF58476D1CE4E5B9
	z = (z ^ (z >> 27)) * 0x94D049BB133111EB
	return z ^ (z >> 31)
}
func (r *Rng) Intn(n int) int {
	if n <= 0 {
		return 0
	}
	return int(r.U64() % uint64(n))
}
func (r *Rng) Bool() bool        { return r.U64()&1 == 1 }
func (r *Rng) Chance(p int) bool { return r.Intn(100) < p }
func Pick[T any](r *Rng, xs []T) T { return xs[r.Intn(len(xs))] }
