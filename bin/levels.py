"""Level texts for MANIFEST.json."""
ALL = ["C%02d" % i for i in range(1, 20)]

LEVELS = {
    "C05": {
        "text": "Coq theorems over all operation histories: representation invariant reachable from the empty map under every Set/Replace/Delete sequence (induction over the op list), refinement abs(concrete history) = list-of-pairs model of the same history, all observers agree with the list model, Equal total and = list equality (reflexive, symmetric), renames from inside Range refine a list-level rename. Tied to ordered/map.go by a correspondence check (exhaustive histories <=3 over 3 keys, random long histories crossing the compaction threshold) and an implementation-side oracle over every observer incl. ToMap/JSON/YAML.",
        "note": "trusted: Coq kernel, extraction (ExtrOcamlBasic), harness; the model of map.go is hand-written and tied by correspondence, not generated; cmp.Equal on values modelled as a decidable equality",
        "technique": "Coq proof: invariant by induction over operation histories + refinement to list-of-pairs spec; differential correspondence model vs ordered.Map",
    },
    "C17": {
        "text": "Coq theorems for all strings: the documented expansions (bare name, org/name, with refs), the leave-as-written rules (paths, any ':' in the first segment = schemes/scp/drive letters, >=3 segments) and idempotence on the documented domain. Model tied to plugin.go by exhaustive comparison over all strings <=5 (thorough <=7) on an 8-symbol alphabet plus grammar-generated forms, and a Tie theorem over the constants regenerated from the source.",
        "note": "trusted: sub-model of net/url.Parse and path.Clean (valid without '%', '?', control bytes) validated only by correspondence",
        "technique": "Coq proof: algebraic law (idempotence) + rewrite rules over strings; exhaustive small-scope correspondence for the url/path sub-model",
    },
    "C11": {
        "text": "Coq theorem validate m p = Accept <-> accepts m p for all matrices and permutations, where accepts is the specification from the property text; order-independence over Go map iteration (Permutation) proved; exact-dimension corollary. Tied to step_command_matrix.go by exhaustive small-scope + random correspondence and an independent Go oracle of the specification.",
        "note": "trusted: hand-written model of validatePermutation tied by correspondence; Go map iteration modelled as an arbitrary list order",
        "technique": "Coq proof: decision procedure <-> declarative spec, for all inputs and all map iteration orders; differential correspondence",
    },
    "C12": {
        "text": "Coq theorems for all strings and replacement maps: the hand-written matcher accepts exactly the declarative token shape and at most one token per start position; Transform is characterised as leftmost, non-overlapping, single pass with replacement text never rescanned (transform_step), token-free strings unchanged, unknown dimension => failure. Field scope (command, label, plugins, env values, unknown fields; not key, env names, matrix, signature) by Tie theorems over the scope table regenerated from the interpolate methods. Tied to Go's regexp by exhaustive macro-symbol strings through InterpolateMatrixPermutation. Step level (Model/MatrixStep.v = CommandStep.InterpolateMatrixPermutation): accepted_step_content (each in-scope field of the result is the image of its source under the single-pass replacement T: command, label, plugin sources, every string and key in plugin configs, env values with names and order fixed, unknown fields; key, matrix, signature and cache unchanged), accepted_step_token_free (no `{{` left when values are open-brace-free and every `{{` of the inputs opens a token; both hypotheses shown necessary by counterexamples: a single pass can assemble a new token from replacement text and its surroundings), unknown_token_fails_iff and result_trichotomy (rejected iff validation rejects; otherwise fails exactly when an in-scope string names a dimension the permutation lacks), empty permutation = identity.",
        "note": "trusted: Go regexp engine (modelled scanner tied by exhaustive small scope), translator for the scope table",
        "technique": "Coq proof: scanner soundness/completeness/uniqueness + single-pass decomposition; generated-table Tie for field scope; exhaustive correspondence vs regexp",
    },
    "C15": {
        "text": "Coq theorems over all key sets and type strings: type dispatch table, inference priority (first family with a key present wins, proved generically for every key set), extra keys / order / repetition irrelevant, unknown steps classified by the right sentinel and only when nothing matches, scalar table. The tables are regenerated from steps.go/step_scalar.go on every run and proved equal to the documented table (Tie). Correspondence enumerates the full 1024 x 13 table through Parse.",
        "note": "trusted: translator (switch/case extraction); the downgrade of a mis-typed known step to UnknownStep is covered by C13, not here",
        "technique": "Coq proof: generated table = spec table (Tie by computation) + generic priority lemma; exhaustive table correspondence",
    },
    "C18": {
        "text": "Coq theorems for all keys (any algorithm name and key type strings): Validate accepts iff structurally valid, algorithm declared, signature algorithm, and (kty, alg) is one of the three approved pairs; oct / missing / non-signature rejected; LoadKey returns the first key with the requested id or the only key, always validated, and fails for ambiguous, absent, invalid. Allow-lists regenerated from validate.go and proved equal to the model's tables (Tie). Exhaustive correspondence over key kinds x every registered algorithm and small key sets through the real files.",
        "note": "trusted: jwx (structural validation, algorithm classification, parsing, key generation, signatures) as model inputs",
        "technique": "Coq proof: decision procedure <-> approved-pair spec; generated allow-list Tie; exhaustive correspondence",
    },
    "C03": {
        "text": "Executable Coq model of Parse (reflective partition over struct descriptors regenerated from the Go source + every UnmarshalOrdered override) and of json.Marshal (inlineFriendlyMarshalJSON + every MarshalJSON override); theorems for all documents: typed fields win, every key exactly once, keys sorted; every key the schema does not name survives once and unchanged at pipeline, command-step, group, matrix, cache level; wait/input/trigger/unknown contents verbatim; command/commands collapse to one member; plugin shape and mapping order. Tied to the library by differential correspondence on grammar-generated documents in three renderings and a marker-based no-data-loss oracle on both JSON and YAML output. Declarative side: Model/NormalForm.v defines nf directly on the document tree from the property text (no typed intermediate, no parser, no marshaller); parse_marshal_nf: for every document with distinct keys, parse then marshal = nf, hard errors and marshal failures included; nf_keeps_unknown_keys: every unknown key at the top level and in every command step is in the normal form with its value unchanged. nf itself is run against the library on every generated document (dispatch C03nf).",
        "note": "trusted: YAML/JSON text layer, float formatting oracle, translator for struct tags; the normal form is the model composition, not a separate declarative nf",
        "technique": "Coq proof: losslessness lemmas over the partition/merge model for all documents; differential correspondence model vs Parse+json.Marshal",
    },
    "C07": {
        "text": "Coq theorems over all node graphs (cyclic or not): DecodeYAML/rangeYAMLMap terminate within the model's fuel (bounded time, measure = nodes not yet in merged/seen), a node reaching itself through value edges never decodes (value cycles rejected), and the per-mapping merge rules: merged pairs never take an explicit or earlier-merged key, first occurrence wins, nothing else dropped; merge-cycle tolerance and precedence examples by computation. Tied to ordered/yaml.go by correspondence on yaml.v3 node graphs of generated texts (cycles included), with oracles for cycle verdicts, copy independence and agreement with yaml.v3's decoder. Denotation: Proofs/YamlSem.v defines sem from the merge specification alone (a mapping's own pairs with each `<<` replaced in place by its sources' pairs, explicit keys beating merged ones, first merged occurrence beating later ones; no merged set, no key threading) and proves decode_refines_sem: on every graph without a cycle below the root the decoder returns exactly sem, errors included; merged_shortcut_harmless (skipping already-merged mappings never changes the yielded pairs); one-merge corollaries explicit_beats_merged, earlier_source_beats_later, merged_keys_stand_at_merge_position; fuel independence.",
        "note": "trusted: yaml.v3 parser and per-scalar decoding as inputs; denotational equality with the merge spec is checked by oracle, not proved",
        "technique": "Coq proof: termination measure + cycle rejection over arbitrary graphs, merge-filter lemmas; differential correspondence on node graphs",
    },
    "C13": {
        "text": "Coq theorems for every decoded document: the parse model is total and its fuel bound suffices (more fuel changes nothing); a usable result has exactly one step per input entry, in order, recursively inside groups; unknown steps hold their input verbatim and the warning counts exactly the unknown steps at every depth; a usable result marshals when the document has no non-finite float, and a refutation witness shows the hypothesis is needed (known finding F5). Tied to Parse by correspondence on documents with injected type errors at every grammar position; byte-level mutation stream with watchdog for the scanner part.",
        "note": "trusted: yaml.v3 scanner/parser; the byte-level quantifier is covered by testing only (stated as partial)",
        "technique": "Coq proof: totality with explicit fuel bound, completeness and warning-count theorems by induction; differential correspondence incl. malformed stream",
    },
    "C10": {
        "text": "Coq theorem: the concrete loop of interpolateEnvBlock (Range over the tombstoned slot slice with in-place Replace, Model/OMap.v) refines the list-level top-to-bottom fold for every map satisfying the representation invariant, every expansion function, every caller environment and both flag values, including the error verdict; corollaries under the environment laws (name equality through a normalisation): write-back, runtime precedence keeps the caller's value through the whole block, first definition wins for absent names, block records the pipeline's expansion, names defined afterwards; the laws are shown satisfiable by the two environments used in the correspondence. Tied to pipeline.go by correspondence through (*Pipeline).Interpolate and an independent list-level Go reference using the real interpolate library.",
        "note": "trusted: interpolate library as an abstract expansion function; harness-side InterpolationEnv",
        "technique": "Coq proof: refinement of the concrete loop to a list fold (loop invariant over slots) + algebraic corollaries under environment laws; differential correspondence",
    },
    "C14": {
        "text": "Coq theorems: the canonical serialiser is injective on well-formed JSON (equal payload bytes => equal algorithm name and equal canonical content; string escaping uniquely decodable; proved by unique decodability in context), depends only on the canonical form (member order at every level irrelevant), and the signed map is exactly the five mandatory fields (nil/empty identified) plus namespaced env:: entries for unshadowed pipeline variables. The model serialiser is tied to json.Marshal+jcs.Transform byte for byte on every generated payload; equivalence and non-collision pairs are checked on the real payload bytes.",
        "note": "trusted: JCS number formatting and UTF-8 validity as wf hypotheses; key order bytewise",
        "technique": "Coq proof: injectivity of the canonical serialiser (prefix-free code argument) + order-insensitivity; byte-exact differential correspondence",
    },
    "C01": {
        "text": "Coq theorems over an ideal signature scheme: Verify rebuilds the payload from the presented step; if the value is the one Sign produced, verification succeeds only under the matching public key, with unaltered algorithm name, the same signed-field set, and canonically equal command, env, plugins (sources, configs, order), matrix, repository URL and every signed env variable (corollaries per mutation class); any other key fails; the unaltered signature verifies with extra unrelated variables. Built on the serialiser injectivity of C14. Real Verify verdicts for ~25 mutation classes per step with real EdDSA/ES256 (thorough: ES512, PS512) keys equal the model's verdicts.",
        "note": "trusted: ideal signature scheme in place of cryptographic unforgeability; jwx",
        "technique": "Coq proof: verify-soundness from payload injectivity under an ideal signature law; differential correspondence with real keys",
    },
    "C06": {
        "text": "Coq theorems by induction over step trees: SignSteps refuses iff an unknown step occurs at any depth; on success nothing but signatures changes (erase_sig frame), every command step at every depth carries the signature of that step, which verifies under the public key, names the key's algorithm and lists exactly the sorted five mandatory fields plus env::NAME for each unshadowed pipeline variable. Correspondence on generated step trees with real keys.",
        "note": "trusted: ideal signature scheme; the caller's env map is a value in the model (unchanged by construction), checked on the implementation by the oracle",
        "technique": "Coq proof: induction over nested step lists; differential correspondence",
    },
    "C04": {
        "text": "Coq theorems for every expansion function: the walk fails exactly when some visited string fails to expand; the strings of the result are, as multisets, the single expansions of the strings of the input (exactly once, no idempotence assumed) under the stated no-collision condition, with a machine-checked counterexample showing the condition is needed; ordered maps keep their order; the result for Go maps is independent of iteration order; signatures untouched and structure preserved. Field scope by Tie theorems over the regenerated interpolate-method table. Correspondence through Parse+Interpolate incl. the env block, with an exactly-once oracle against the real interpolate library.",
        "note": "trusted: interpolate library abstract; subset model only for the correspondence",
        "technique": "Coq proof: multiset characterisation of the walkers + permutation-invariance; generated scope-table Tie; differential correspondence",
    },
    "C08": {
        "text": "Coq theorems: decoding a mapping yields its keys in first-yield order (Set keeps positions; merged pairs are yielded where the merge key stands and keep their relative order), the env block keeps document order through parse and marshal, plugins written as one mapping come out in mapping order, every mapping nested in unknown fields / unknown steps keeps its order in JSON; merge-position example by computation. Correspondence compares member order at every order-significant position for mappings of up to 40 tricky keys in JSON and YAML output, plus programmatic ordered-map encode/decode round trips.",
        "note": "trusted: text layer; YAML emitter order is observed, not modelled",
        "technique": "Coq proof: order lemmas over the decode fold and the marshal model; differential correspondence with member-order observables",
    },
    "C02": {
        "text": "Coq theorems: verification reads the presented step only through its signed content (five field values + env shadowing), so a signed step replaced by any step with the same signed content verifies under the public key with the pipeline env plus unrelated variables (signed_roundtrip, over the ideal scheme); payload independent of every map order; nil and empty env/plugins/matrix give the same signed value; canonical plugin sources are fixpoints. That re-parsing preserves the signed content is proved for the JSON leg of a command step: the decoder accepts the marshalled step (C09's command_roundtrip), equal marshallings have equal signed content (mj_command_signed_content), hence signature_survives_reparse: sign, marshal, re-read, verify = true for every command step satisfying cmd_ok, and signature_survives_yaml_reparse: the same through the value tree of the YAML marshalling (Model/MarshalYaml.v). The whole chain (parse, sign, marshal, re-read, parse, verify) is executed in the model and compared with the library on the JSON leg, and the YAML leg and the per-step UnmarshalJSON entry are checked by oracle with real keys.",
        "note": "trusted: ideal signature scheme; YAML emitter/scanner; composition with C09's fixpoint",
        "technique": "Coq proof: corollary of payload canonicity + verify-completeness; model-executed round trip in the correspondence",
    },
    "C19": {
        "text": "Tie theorems decided in Coq over effect tables regenerated from the current source on every run: no function of the five packages assigns to, deletes from or takes the address of a package-level variable (no hidden shared state), and none of 39 observer methods (lookups, iteration, equality helpers, every Marshal*, FullSource, validation, SignedFields/ValuesForFields, Transform) writes through its receiver directly or via a writing method on it, while the mutators are seen by the same table. In the Coq model observers are pure functions of their argument, and SignSteps' frame is a theorem (C06). Concurrency is exercised by race-detector rounds with result equality and before/after snapshots.",
        "note": "trusted: syntactic effect translator, Go race detector; scheduler behaviour is not provable in this technique (partial)",
        "technique": "Coq-checked Tie over source-generated effect tables (finite computation) + race-detector correspondence rounds",
    },
    "C09": {
        "text": "Coq: marshalling is deterministic (inlineFriendlyMarshalJSON gives the same JSON for every order of the inline map and of the field map, theorem over all contents); the re-read of marshalled JSON (objects as ordered maps, integral tokens re-typed) is modelled and the JSON-leg fixpoint is executed in the model and compared with the library on every generated document (first and second generation JSON); fixpoint example and the excluded class (empty key/label with a surviving alias, known finding F17) by computation; general fixpoint theorems: every pipeline satisfying the structural condition pipeline_fix_ok re-parses to a pipeline with the same marshalling (reparse_fixpoint), and every pipeline PARSED from a document with distinct keys and re-readable number tokens satisfies it outside three named classes (parse_result_fix_ok, parse_marshal_reparse); per-type round-trip theorems for signature, cache, matrix, plugins, command step, step. YAML leg: Model/MarshalYaml.v gives the value tree of yaml.Marshal's output (yaml.v3's struct encoder with its own omitempty rule, every MarshalYAML override, ordered maps in order); reparse_yaml_fixpoint, yaml_json_legs_agree (the two re-parses marshal identically: both formats carry the same data), parse_marshal_reparse_yaml and fix_ok_marshals_yaml (the encoder does not panic) hold for every pipeline satisfying pipeline_fix_ok and yaml_side_ok; the nil-versus-empty classes yaml_side_ok excludes are kept as counterexamples by computation. Both legs, the stand-alone decoders and byte-identical repeated marshalling are checked by oracle on the implementation.",
        "note": "trusted: text layer; known findings F7 (key `<<` through yaml.v3's emitter) and F17 are reported as KNOWN-FINDING",
        "technique": "Coq proof: permutation-invariance of the marshal model + model-executed re-parse in the correspondence; oracle on both legs",
    },
    "C16": {
        "text": "Coq theorems for every struct descriptor and every input mapping: each input key is consumed by exactly one place (Permutation + NoDup of consumed ++ leftover), the matching rule (tag / lower-cased name, else first present alias when the primary is absent), absent keys leave fields untouched, leftover keeps document order, `-` and unexported fields never receive anything; the hypothesis (pairwise distinct keys) is proved for every struct descriptor regenerated from the library source. A generic model of the reflective decoder (all target kinds) and a structural reference decoder are compared with ordered.Unmarshal and with yaml.Node.Decode on a family of 12 types whose descriptors are regenerated from the harness source; agreement theorem unm_agrees_ref: for alias-free descriptor families (distinct keys, at most one inline field, bounded by-value nesting) and every well-typed document of any size the generic decoder on a zero destination returns exactly the reference decoder's value; its hypotheses are proved for the alias-free part of that family (family_unm_agrees_ref).",
        "note": "trusted: reflect and yaml.v3's decoder (reference decoder validated by correspondence); translator for tags",
        "technique": "Coq proof: partition/permutation theorem over generated descriptors + decoder agreement; differential correspondence against both decoders",
    },
}

REASONS_PENDING = "check not built yet in this revision (work in progress; see DESIGN.md §10 build order)"
NOT_APPLICABLE = []

def finalize(props):
    global NOT_APPLICABLE
    NOT_APPLICABLE = [{"property_id": p, "reason": REASONS_PENDING} for p in ALL if p not in props]

import os, sys
sys.path.insert(0, os.path.dirname(os.path.abspath(__file__)))
from propconf import PROPS as _P
finalize(_P)
