"""Level texts for MANIFEST.json."""
ALL = ["C%02d" % i for i in range(1, 20)]

LEVELS = {
    "C05": {
        "text": "Coq theorems over all operation histories: representation invariant reachable from the empty map under every Set/Replace/Delete sequence (induction over the op list), refinement abs(concrete history) = list-of-pairs model of the same history, all observers agree with the list model, Equal total and = list equality (reflexive, symmetric), renames from inside Range refine a list-level rename. Tied to ordered/map.go by a correspondence check (exhaustive histories <=3 over 3 keys, random long histories crossing the compaction threshold) and an implementation-side oracle over every observer incl. ToMap/JSON/YAML.",
        "note": "trusted: Coq kernel, extraction (ExtrOcamlBasic), harness; the model of map.go is hand-written and tied by correspondence, not generated; cmp.Equal on values modelled as a decidable equality",
        "technique": "Coq proof: invariant by induction over operation histories + refinement to list-of-pairs spec; differential correspondence model vs ordered.Map",
    },
    "C17": {
        "text": "Coq theorems for all strings: the documented expansions (bare name, org/name, with refs), the leave-as-written rules (paths, any ':' in the first segment = schemes/scp/drive letters, >=3 segments) and idempotence on the documented domain. Model tied to plugin.go by exhaustive comparison over all strings <=5 (thorough <=7) on an 8-symbol alphabet plus grammar-generated forms, and a Tie theorem over the constants regenerated from the source.",
        "note": "trusted: sub-model of net/url.Parse and path.Clean (valid without '%', '?', control bytes) validated only by correspondence",
        "technique": "Coq proof: algebraic law (idempotence) + rewrite rules over strings; exhaustive small-scope correspondence for the url/path sub-model",
    },
    "C11": {
        "text": "Coq theorem validate m p = Accept <-> accepts m p for all matrices and permutations, where accepts is the specification from the property text; order-independence over Go map iteration (Permutation) proved; exact-dimension corollary. Tied to step_command_matrix.go by exhaustive small-scope + random correspondence and an independent Go oracle of the specification.",
        "note": "trusted: hand-written model of validatePermutation tied by correspondence; Go map iteration modelled as an arbitrary list order",
        "technique": "Coq proof: decision procedure <-> declarative spec, for all inputs and all map iteration orders; differential correspondence",
    },
    "C12": {
        "text": "Coq theorems for all strings and replacement maps: the hand-written matcher accepts exactly the declarative token shape and at most one token per start position; Transform is characterised as leftmost, non-overlapping, single pass with replacement text never rescanned (transform_step), token-free strings unchanged, unknown dimension => failure. Field scope (command, label, plugins, env values, unknown fields; not key, env names, matrix, signature) by Tie theorems over the scope table regenerated from the interpolate methods. Tied to Go's regexp by exhaustive macro-symbol strings through InterpolateMatrixPermutation.",
        "note": "trusted: Go regexp engine (modelled scanner tied by exhaustive small scope), translator for the scope table",
        "technique": "Coq proof: scanner soundness/completeness/uniqueness + single-pass decomposition; generated-table Tie for field scope; exhaustive correspondence vs regexp",
    },
    "C15": {
        "text": "Coq theorems over all key sets and type strings: type dispatch table, inference priority (first family with a key present wins, proved generically for every key set), extra keys / order / repetition irrelevant, unknown steps classified by the right sentinel and only when nothing matches, scalar table. The tables are regenerated from steps.go/step_scalar.go on every run and proved equal to the documented table (Tie). Correspondence enumerates the full 1024 x 13 table through Parse.",
        "note": "trusted: translator (switch/case extraction); the downgrade of a mis-typed known step to UnknownStep is covered by C13, not here",
        "technique": "Coq proof: generated table = spec table (Tie by computation) + generic priority lemma; exhaustive table correspondence",
    },
    "C18": {
        "text": "Coq theorems for all keys (any algorithm name and key type strings): Validate accepts iff structurally valid, algorithm declared, signature algorithm, and (kty, alg) is one of the three approved pairs; oct / missing / non-signature rejected; LoadKey returns the first key with the requested id or the only key, always validated, and fails for ambiguous, absent, invalid. Allow-lists regenerated from validate.go and proved equal to the model's tables (Tie). Exhaustive correspondence over key kinds x every registered algorithm and small key sets through the real files.",
        "note": "trusted: jwx (structural validation, algorithm classification, parsing, key generation, signatures) as model inputs",
        "technique": "Coq proof: decision procedure <-> approved-pair spec; generated allow-list Tie; exhaustive correspondence",
    },
    "C03": {
        "text": "Executable Coq model of Parse (reflective partition over struct descriptors regenerated from the Go source + every UnmarshalOrdered override) and of json.Marshal (inlineFriendlyMarshalJSON + every MarshalJSON override); theorems for all documents: typed fields win, every key exactly once, keys sorted; every key the schema does not name survives once and unchanged at pipeline, command-step, group, matrix, cache level; wait/input/trigger/unknown contents verbatim; command/commands collapse to one member; plugin shape and mapping order. Tied to the library by differential correspondence on grammar-generated documents in three renderings and a marker-based no-data-loss oracle on both JSON and YAML output.",
        "note": "trusted: YAML/JSON text layer, float formatting oracle, translator for struct tags; the normal form is the model composition, not a separate declarative nf",
        "technique": "Coq proof: losslessness lemmas over the partition/merge model for all documents; differential correspondence model vs Parse+json.Marshal",
    },
    "C07": {
        "text": "Coq theorems over all node graphs (cyclic or not): DecodeYAML/rangeYAMLMap terminate within the model's fuel (bounded time, measure = nodes not yet in merged/seen), a node reaching itself through value edges never decodes (value cycles rejected), and the per-mapping merge rules: merged pairs never take an explicit or earlier-merged key, first occurrence wins, nothing else dropped; merge-cycle tolerance and precedence examples by computation. Tied to ordered/yaml.go by correspondence on yaml.v3 node graphs of generated texts (cycles included), with oracles for cycle verdicts, copy independence and agreement with yaml.v3's decoder.",
        "note": "trusted: yaml.v3 parser and per-scalar decoding as inputs; denotational equality with the merge spec is checked by oracle, not proved",
        "technique": "Coq proof: termination measure + cycle rejection over arbitrary graphs, merge-filter lemmas; differential correspondence on node graphs",
    },
    "C13": {
        "text": "Coq theorems for every decoded document: the parse model is total and its fuel bound suffices (more fuel changes nothing); a usable result has exactly one step per input entry, in order, recursively inside groups; unknown steps hold their input verbatim and the warning counts exactly the unknown steps at every depth; a usable result marshals when the document has no non-finite float, and a refutation witness shows the hypothesis is needed (known finding F5). Tied to Parse by correspondence on documents with injected type errors at every grammar position; byte-level mutation stream with watchdog for the scanner part.",
        "note": "trusted: yaml.v3 scanner/parser; the byte-level quantifier is covered by testing only (stated as partial)",
        "technique": "Coq proof: totality with explicit fuel bound, completeness and warning-count theorems by induction; differential correspondence incl. malformed stream",
    },
    "C10": {
        "text": "Coq theorem: the concrete loop of interpolateEnvBlock (Range over the tombstoned slot slice with in-place Replace, Model/OMap.v) refines the list-level top-to-bottom fold for every map satisfying the representation invariant, every expansion function, every caller environment and both flag values, including the error verdict; corollaries under the environment laws (name equality through a normalisation): write-back, runtime precedence keeps the caller's value through the whole block, first definition wins for absent names, block records the pipeline's expansion, names defined afterwards; the laws are shown satisfiable by the two environments used in the correspondence. Tied to pipeline.go by correspondence through (*Pipeline).Interpolate and an independent list-level Go reference using the real interpolate library.",
        "note": "trusted: interpolate library as an abstract expansion function; harness-side InterpolationEnv",
        "technique": "Coq proof: refinement of the concrete loop to a list fold (loop invariant over slots) + algebraic corollaries under environment laws; differential correspondence",
    },
}

REASONS_PENDING = "check not built yet in this revision (work in progress; see DESIGN.md §10 build order)"
NOT_APPLICABLE = []

def finalize(props):
    global NOT_APPLICABLE
    NOT_APPLICABLE = [{"property_id": p, "reason": REASONS_PENDING} for p in ALL if p not in props]

import os, sys
sys.path.insert(0, os.path.dirname(os.path.abspath(__file__)))
from propconf import PROPS as _P
finalize(_P)
