"""Per-property configuration for bin/check."""

COMMON_TRUSTED = [
    "Coq 8.16.1 kernel (coqc); vm_compute for finite table decisions; no native_compute",
    "no axioms declared by this development; Print Assumptions output recorded in assumptions_printed",
    "extraction: Require Extraction + ExtrOcamlBasic only (bool, option, unit, list, prod, sumbool, sumor mapped to OCaml; andb/orb inlined); no Extract Constant of our own; OCaml 4.13.1; ocaml/driver.ml (sexp parsing/printing, string conversion)",
    "harness/cmd/translate (Go AST -> coq/Gen tables) and harness/cmd/run (generators, canonicalisers, property oracles)",
]

PROPS = {
    "C05": {
        "coq_deps": ["Props/C05.v"],
        "rule": "histories over ordered.Map[string,string]: every history of length <=3 (thorough <=4) over keys {a,b,c} x values {1,2} (27 operations: Set, Replace incl. self- and colliding renames, Delete) paired with another enumerated history for Equal, every 9th followed by a rename-from-inside-Range; plus seeded random histories of 50-400 operations over 5-60 keys with a delete ratio that crosses the compaction threshold repeatedly; zero-value and nil receivers. After every operation all observers are compared with the list-of-pairs reference (oracle) and Len/IsZero/Get/Contains/Range with the Coq model. Non-trivial = history contains a Replace or Delete; distinct = distinct (history A, history B) pair.",
        "exhaustive_note": "histories up to the stated length over 3 keys x 2 values are enumerated completely",
        "trusted": ["cmp.Equal on string values is modelled as string equality"],
        "partial": "",
        "assumptions": ["Set/Replace through a nil *Map dereference nil in Go like assignment to a nil built-in map; the property's nil case is read as observers and Delete on a nil pointer and all operations on new(Map)"],
    },
    "C17": {
        "coq_deps": ["Props/C17.v", "Tie/TieConsts.v"],
        "tie_theorems": ["TieConsts.tie_plugin_consts"],
        "rule": "plugin sources: every string of length <=5 (thorough <=7) over the reduced alphabet {a . / - # : @ \\} (exhaustive; validates the url.Parse/path.Clean sub-model) plus grammar-generated documented forms (bare name, org/name, POSIX/Windows paths, URLs with schemes, scp-style, host prefixes with 3+ segments, already canonical) with refs; observables FullSource and the key of json.Marshal(plugin); oracle: documented expansion per form, idempotence (refs with empty or dot-only components excluded as in the property), marshal key = FullSource. Non-trivial = FullSource changes the source.",
        "exhaustive_note": "all strings up to the stated length over the 8-symbol alphabet",
        "trusted": ["net/url.Parse and path.Clean are modelled (sub-model valid for sources without '%', '?', control bytes, DEL) and tied by the exhaustive small-scope comparison"],
        "partial": "url.Parse outside the documented alphabet (percent-encoding, '?', control bytes) is not modelled; the property excludes those forms",
    },
    "C11": {
        "coq_deps": ["Props/C11.v"],
        "rule": "matrices x permutations: exhaustive small scope (empty/anonymous/one/two named dimensions, value lists nil,[],[a],[a,b], 0-2 adjustments over values {a,b,c} with skip in {absent,false,true,string} incl. malformed and nil adjustments, permutations over dims subsets of {'',x,y,z} x {a,b,c}; quick tier thins the two-dimension x two-adjustment block deterministically) plus seeded random three-dimension cases; observable accept/reject of InterpolateMatrixPermutation and marshalled step before/after; oracle: the specification written from the property text. Non-trivial = matrix non-nil with at least one dimension.",
        "exhaustive_note": "thorough tier enumerates the stated small scope completely",
        "trusted": [],
        "partial": "",
    },
    "C12": {
        "coq_deps": ["Props/C12.v", "Tie/TieScope.v"],
        "tie_theorems": ["TieScope.tie_matrix_scope_command_step", "TieScope.tie_matrix_not_into_matrix", "TieScope.tie_matrix_token_re"],
        "rule": "(permutation, string) pairs driven through CommandStep.InterpolateMatrixPermutation: every string of <=6 (thorough <=7) macro-symbols from {'{','}',' ','\\t','matrix','.','a','-'} with the permutation {'':V, a:'{{matrix}}'} (exhaustive; ties the hand-written scanner to Go's regexp engine), plus seeded random concatenations of tokens, near-misses ({{matrix.}}, {{ matrix .os}}, {matrix}, {{matrixx}}, {{{matrix}}}, \\v and \\f whitespace, non-ASCII) and plain text with random permutations (token-shaped values included) placed in every field of a fully populated step; observable: transformed command or error; oracle: independent reference scanner + scope (label, plugin source/config keys+values, env values, unknown fields incl. nested ordered map change like the command; key, env names, matrix, signature, cache unchanged); empty permutation changes nothing. Non-trivial = the string changed or the call failed.",
        "exhaustive_note": "all macro-symbol strings up to the stated length",
        "trusted": ["Go regexp engine (one regexp) modelled by a hand-written scanner, tied by the exhaustive macro-symbol comparison and Tie theorem on the regexp literal"],
        "partial": "the step-level walker is tied by the generated scope table (Tie/TieScope.v) and the implementation-side scope oracle; the Go regexp engine itself is not verified",
    },
    "C15": {
        "coq_deps": ["Props/C15.v", "Tie/TieKinds.v"],
        "tie_theorems": ["TieKinds.tie_step_by_type", "TieKinds.tie_step_by_type_default", "TieKinds.tie_step_by_key_inference", "TieKinds.tie_step_by_key_inference_default", "TieKinds.tie_new_scalar_step", "TieKinds.tie_new_scalar_step_default"],
        "rule": "the full table: all 1024 subsets of the ten kind-determining keys x (12 type values incl. unknown/empty/wrong-case + absent), each without and with extra keys (incl. the empty key, aliases, nested mappings; thorough: every extras set), all well-typed, parsed through pipeline.Parse; scalar steps from a pool; groups with children of every kind incl. unknown ones; observable: dynamic step type and errors.Is against the two sentinels; oracle: rule table from the property text. Non-trivial = at least one of the ten keys or a type present.",
        "exhaustive_note": "the key-subset x type table is enumerated completely",
        "trusted": [],
        "partial": "",
    },
    "C18": {
        "coq_deps": ["Props/C18.v", "Tie/TieJwk.v"],
        "tie_theorems": ["TieJwk.tie_valid_algs_for_key_type", "TieJwk.tie_valid_signing_algorithms", "TieJwk.tie_valid_key_types", "TieJwk.tie_validate_order"],
        "rule": "exhaustive (RSA, EC, OKP, oct, public halves, structurally invalid RSA/EC) x (every signature, key-encryption and content-encryption algorithm jwa registers + none, unknown and mis-cased names + missing) through jwkutil.Validate; generated key pairs validate and cross-verify only with their own public half (quick: EdDSA x2, ES512, PS512; thorough: two of each); LoadKey over all key sets of <=2 keys from a pool of 9 (valid, invalid, duplicate and missing ids) plus 60 random (thorough: all 729) triples x requested ids {'',a,b,c,zz}, written to build/tmp and read back by jwkutil.LoadKey.",
        "exhaustive_note": "key kind x registered algorithm table and key sets of <=2 keys are enumerated completely",
        "trusted": ["jwx: jwk.Key.Validate, jwa algorithm classification, jwk.Parse, key generation and jws sign/verify are inputs to the model (k_valid, k_has_alg, k_is_sig, names), not verified"],
        "partial": "jwx validation, key generation and real signatures are exercised by the correspondence only",
    },
    "C03": {
        "coq_deps": ["Props/C03.v", "Props/C16.v"],
        "rule": "grammar-generated well-formed pipeline documents (DESIGN Appendix A: every step kind and shorthand, primary/alias key combinations incl. both command and commands, plugins as list / mapping / strings / multi-entry elements, matrix list/setup/adjustments, cache bool/string/list/mapping, signatures, groups nested to depth 2, unknown kinds, extra keys with nested values of every scalar kind incl. timestamps, keys that look like other YAML types) rendered as JSON, block YAML or flow YAML; the text goes to pipeline.Parse, and ordered.DecodeYAML of the same text goes to the Coq model; observable: status, step count, canonical JSON of json.Marshal(p) with member order and number tokens; oracle (no data loss): every unique marker placed in an unknown key/value, plugin config, label etc. appears exactly once in the JSON and in the YAML marshalling. Non-trivial: every generated document.",
        "trusted": ["yaml.v3 scanner/parser/resolver and encoding/json's text encoder are shared input/output (the model starts at DecodeYAML's value tree and ends at a JSON value)", "float tokens (json.Marshal, fmt.Sprint of float64) are harness oracles"],
        "partial": "the YAML/JSON text layer is not modelled; a stand-alone declarative nf is not written: the normal form is the executable model composition, with losslessness theorems per struct level",
    },
    "C07": {
        "coq_deps": ["Props/C07.v"],
        "rule": "YAML texts with anchors, aliases (as values and as keys), << merges (single, repeated, sequences of aliases, nested, of enclosing mappings), canonicalisable keys, merges of non-mappings, and aliases to enclosing nodes (value cycles) generated from a seeded grammar plus 16 hand-picked shapes; yaml.v3 parses the text, the node graph (pointer identity -> ids, per-scalar decoded value / canonical key / merge tag as oracle inputs) goes to the model; observable: decoded value tree or error; oracles: value cycle => error, pure merge cycle and acyclic documents decode, no two positions share a map or slice (independent copies), content equals yaml.v3's own decoding where yaml.v3 accepts the document; 20 s watchdog. Non-trivial = document uses at least one alias.",
        "trusted": ["yaml.v3 node construction (anchors registered before children are parsed) and per-scalar decoding / key canonicalisation are inputs"],
        "partial": "the denotational theorem decode = sem (Appendix B) is not proved; proved instead: totality for all graphs, value-cycle rejection, and the per-mapping merge rules (skip_keys / explicit_keys); content agreement with yaml.v3 is checked by the oracle",
    },
    "C13": {
        "coq_deps": ["Props/C13.v"],
        "rule": "grammar-generated documents, three quarters with type errors injected at random positions of the grammar (mappings/lists/timestamps/+Inf where strings are expected, non-mapping steps, non-string type, wrong-typed env / plugins / matrix / cache / signature / adjustments), rendered as JSON / block / flow YAML, compared with the Coq model (status, fallback count, step count, marshalled JSON); plus byte-level mutations (delete / insert YAML punctuation, anchors, aliases, merges, invalid UTF-8 / overwrite / cut) of rendered documents under a 20 s watchdog with recover. Oracles on every usable result: Steps non-nil, no nil step, one step per input entry, number of UnknownSteps = number of fallbacks reported in the warning, json.Marshal and yaml.Marshal succeed. Non-trivial = at least one injected type error.",
        "trusted": ["yaml.v3 scanner/parser (byte level) is not modelled; the mutation stream is a test, not a proof"],
        "partial": "for all byte strings: only from the decoded node graph on is proved (totality of the model, fuel bound, completeness, warning count, marshallability); yaml.v3's scanner totality is exercised by the byte-mutation stream only",
    },
    "C10": {
        "coq_deps": ["Props/C10.v"],
        "rule": "env blocks of 1-6 entries whose names and values are built from segments (literals, $V / ${V}, ${V:-d}, ${V-d}, escaped $$V and \\$V, ${V?}) over a 7-name alphabet with mixed case, so chains, forward references, names built by expansion, collisions with later entries and overlaps with the runtime env all occur; both flag values; case-sensitive and case-insensitive caller environments (harness-side InterpolationEnv); driven through (*Pipeline).Interpolate with a probe command step; the raw text goes to the real interpolate library, the segment structure to the model. Observable: final env block (order and contents), caller env lookups for all names, probe string, error. Oracle: list-level top-to-bottom reference using the real library on a cloned env (block, write-back, rest-of-pipeline). Non-trivial = at least two entries.",
        "trusted": ["buildkite/interpolate is the expansion function: a Section variable in the theorems, a segment evaluator in the correspondence (validated against the real library on the generated strings)"],
        "partial": "the expansion function itself (interpolate library parser) is not verified",
    },
    "C14": {
        "coq_deps": ["Props/C14.v", "Tie/TieSign.v"],
        "tie_theorems": ["TieSign.tie_signed_fields", "TieSign.tie_env_prefix", "TieSign.tie_payload_tags"],
        "rule": "(step, pipeline env, repository URL, key) tuples: the step is a generated signable command-step document loaded through CommandStep.UnmarshalJSON; the payload bytes are captured from Sign under WithDebugSigning(true)+WithLogger and compared BYTE FOR BYTE with the model's ser(alg, values) (ties Model/Jcs.v to json.Marshal + jcs.Transform). For each base tuple: 3 repeated runs (determinism), re-orderings / re-spellings that must collide (deep key shuffles, env {} / plugins [] or null / matrix {} or null added, command vs commands, label/key/agents changed) and boundary-shifting / single-point variants that must not (character moved between command and repository URL, between an env key and its value, between step env and pipeline env; plugin order, added plugin, matrix value, pipeline env value, other algorithm). Non-trivial: all.",
        "trusted": ["gowebpki/jcs and encoding/json text encoding are modelled by Model/Jcs.v (validated byte-for-byte); RFC 8785 key order is taken bytewise (equal to UTF-16 order except between astral characters and U+E000-U+FFFF); number tokens are assumed JCS-stable (integers within 2^53; finding F10 otherwise); strings valid UTF-8 (finding F11 otherwise)"],
        "partial": "float formatting (ES6 number serialisation) and UTF-8 validity are assumptions of the injectivity theorem (wf_json)",
    },
    "C01": {
        "coq_deps": ["Props/C01.v", "Props/C14.v", "Tie/TieSign.v"],
        "tie_theorems": ["TieSign.tie_signed_fields", "TieSign.tie_required_fields", "TieSign.tie_values_for_fields"],
        "rule": "generated signable steps signed with real keys (quick: two EdDSA JWKs and an ES256 crypto.Signer; thorough adds ES512 and PS512), then for each ~25 single-point mutations of the presented step (all C14 variants), the verification env (signed variable removed / changed, unrelated variable added), the repository URL, the signature record (algorithm, field list: drop each mandatory field, drop a signed env::X, add env:: fields, unknown field, empty, reordered, duplicated; value spliced from another step signed with the same key; garbage) and the key; observable: verdict of the real signature.Verify vs the model's verdict over a symbolic scheme; oracle: semantic mutation => error, non-semantic => success.",
        "trusted": ["jwx jws.Sign/Verify and the unforgeability of EdDSA/ES256/ES512/PS512 are replaced by an ideal signature scheme (vrf_ideal, sgn_inj) in the theorems; the correspondence exercises the real algorithms"],
        "partial": "cryptographic unforgeability is an assumption (ideal scheme); shown satisfiable by a symbolic instance",
    },
    "C06": {
        "coq_deps": ["Props/C06.v", "Props/C01.v"],
        "rule": "generated step lists (command, wait, block/input scalars and mappings, trigger, groups nested to depth 4, unknown steps at every position and depth in half of the cases) parsed from JSON, pipeline env maps overlapping step envs, all keys of the pool; observable: refusal, per command step (in order, at every depth) the signed-field list, algorithm and Verify verdict; oracles: refusal iff an unknown step occurs anywhere, field list = sorted five + env:: per unshadowed variable, every signature verifies, steps with signatures erased marshal as before, caller env map unchanged. Non-trivial = at least two command steps signed.",
        "trusted": ["crypto as C01"],
        "partial": "crypto as C01",
    },
    "C04": {
        "coq_deps": ["Props/C04.v", "Tie/TieScope.v", "Props/C10.v"],
        "tie_theorems": ["TieScope.tie_env_scope_command_step", "TieScope.tie_env_scope_other_steps"],
        "rule": "grammar-generated pipeline documents in which every unknown key, unknown value, label, plugin config entry, cache / matrix / adjustment string etc. carries a unique marker followed by an env reference ($V, ${V}, $$V, \\$V, ${V:-d}, ${V-d}, $(, $1, \\\\ ...); every third document adds Go-map levels with 9-24 entries whose keys change (step env, unknown fields, plugin config); Parse + (*Pipeline).Interpolate with a 5-variable environment, 3 runs per document; observable: marshalled JSON, compared with the model (parse, env block, walkers, with a Coq model of the generated subset of the interpolate library); oracle: each marked string appears exactly once in the output as the real library's single-pass expansion (signature values unchanged), runs agree. Non-trivial: all.",
        "trusted": ["buildkite/interpolate: abstract in the theorems; Model/Interpolate.v models only the generated subset and is validated by the correspondence"],
        "partial": "the expansion function itself is not verified; key collisions inside one mapping follow Replace semantics (C05) / greatest-original-key-wins (Go maps) and are excluded from the exactly-once theorem by no_collision",
    },
}
