"""Per-property configuration for bin/check."""

COMMON_TRUSTED = [
    "Coq 8.16.1 kernel (coqc); vm_compute for finite table decisions; no native_compute",
    "no axioms declared by this development; Print Assumptions output recorded in assumptions_printed",
    "extraction: Require Extraction + ExtrOcamlBasic only (bool, option, unit, list, prod, sumbool, sumor mapped to OCaml; andb/orb inlined); no Extract Constant of our own; OCaml 4.13.1; ocaml/driver.ml (sexp parsing/printing, string conversion)",
    "harness/cmd/translate (Go AST -> coq/Gen tables) and harness/cmd/run (generators, canonicalisers, property oracles)",
]

PROPS = {
    "C05": {
        "coq_deps": ["Props/C05.v"],
        "rule": "histories over ordered.Map[string,string]: every history of length <=3 (thorough <=4) over keys {a,b,c} x values {1,2} (27 operations: Set, Replace incl. self- and colliding renames, Delete) paired with another enumerated history for Equal, every 9th followed by a rename-from-inside-Range; plus seeded random histories of 50-400 operations over 5-60 keys with a delete ratio that crosses the compaction threshold repeatedly; zero-value and nil receivers. After every operation all observers are compared with the list-of-pairs reference (oracle) and Len/IsZero/Get/Contains/Range with the Coq model. Non-trivial = history contains a Replace or Delete; distinct = distinct (history A, history B) pair.",
        "exhaustive_note": "histories up to the stated length over 3 keys x 2 values are enumerated completely",
        "trusted": ["cmp.Equal on string values is modelled as string equality"],
        "partial": "",
        "assumptions": ["Set/Replace through a nil *Map dereference nil in Go like assignment to a nil built-in map; the property's nil case is read as observers and Delete on a nil pointer and all operations on new(Map)"],
    },
    "C17": {
        "coq_deps": ["Props/C17.v", "Tie/TieConsts.v"],
        "tie_theorems": ["TieConsts.tie_plugin_consts"],
        "rule": "plugin sources: every string of length <=5 (thorough <=7) over the reduced alphabet {a . / - # : @ \\} (exhaustive; validates the url.Parse/path.Clean sub-model) plus grammar-generated documented forms (bare name, org/name, POSIX/Windows paths, URLs with schemes, scp-style, host prefixes with 3+ segments, already canonical) with refs; observables FullSource and the key of json.Marshal(plugin); oracle: documented expansion per form, idempotence (refs with empty or dot-only components excluded as in the property), marshal key = FullSource. Non-trivial = FullSource changes the source.",
        "exhaustive_note": "all strings up to the stated length over the 8-symbol alphabet",
        "trusted": ["net/url.Parse and path.Clean are modelled (sub-model valid for sources without '%', '?', control bytes, DEL) and tied by the exhaustive small-scope comparison"],
        "partial": "url.Parse outside the documented alphabet (percent-encoding, '?', control bytes) is not modelled; the property excludes those forms",
    },
    "C11": {
        "coq_deps": ["Props/C11.v"],
        "rule": "matrices x permutations: exhaustive small scope (empty/anonymous/one/two named dimensions, value lists nil,[],[a],[a,b], 0-2 adjustments over values {a,b,c} with skip in {absent,false,true,string} incl. malformed and nil adjustments, permutations over dims subsets of {'',x,y,z} x {a,b,c}; quick tier thins the two-dimension x two-adjustment block deterministically) plus seeded random three-dimension cases; observable accept/reject of InterpolateMatrixPermutation and marshalled step before/after; oracle: the specification written from the property text. Non-trivial = matrix non-nil with at least one dimension.",
        "exhaustive_note": "thorough tier enumerates the stated small scope completely",
        "trusted": [],
        "partial": "",
    },
}
